//! C18 oracle stream + recorder differential.
//!
//! A fixed family of validated types (both `garde::Validate` and `validator::Validate` derives),
//! generated YAML documents whose node positions the harness tracks while rendering, and for every
//! document: (1) the map recorded by the real `PathRecorder` vs. the Lean model of the traversal
//! (`pathmap rec` ops), (2) every validating entry point vs. its plain counterpart, (3) every reported
//! validation path resolved through the real `PathMap::search` and compared with the position of the
//! value's use-site / definition-site computed from the generated text.
use crate::errs;
use crate::proto::*;
use serde::Deserialize;
use serde_saphyr::verif_hooks::pathmap as h;
use serde_saphyr::{Error, Options};
use std::collections::{BTreeMap, BTreeSet};
use std::panic::{catch_unwind, AssertUnwindSafe};
use validator::Validate as _;

// ------------------------------------------------------------------------------------------------
// the validated family
// ------------------------------------------------------------------------------------------------

#[derive(Debug, Clone, PartialEq, Deserialize, garde::Validate, validator::Validate)]
#[serde(rename_all = "kebab-case")]
pub struct Address {
    #[garde(length(min = 2))]
    #[validate(length(min = 2))]
    pub street_name: String,
    #[garde(range(max = 99999))]
    #[validate(range(max = 99999))]
    pub zip_code: u32,
}

#[derive(Debug, Clone, PartialEq, Deserialize, garde::Validate, validator::Validate)]
#[serde(rename_all = "camelCase")]
pub struct Person {
    #[garde(length(min = 2))]
    #[validate(length(min = 2))]
    pub first_name: String,
    #[garde(range(max = 150))]
    #[validate(range(max = 150))]
    pub age: u32,
    #[garde(dive)]
    #[validate(nested)]
    pub home_address: Address,
    #[garde(length(min = 2))]
    #[validate(length(min = 2))]
    #[serde(default)]
    pub nick: Option<String>,
}

#[derive(Debug, Clone, PartialEq, Deserialize, garde::Validate, validator::Validate)]
pub struct Item {
    #[garde(length(min = 2))]
    #[validate(length(min = 2))]
    pub name: String,
    #[garde(range(max = 100))]
    #[validate(range(max = 100))]
    pub qty: u32,
    #[garde(range(max = 1000))]
    #[validate(range(max = 1000))]
    #[serde(rename = "unitPrice")]
    pub unit_price: u32,
    #[garde(inner(length(min = 2)))]
    #[serde(default)]
    pub tags: Vec<String>,
}

#[derive(Debug, Clone, PartialEq, Deserialize, garde::Validate, validator::Validate)]
pub struct Root {
    #[garde(length(min = 2))]
    #[validate(length(min = 2))]
    pub title: String,
    #[garde(range(max = 100))]
    #[validate(range(max = 100))]
    #[serde(rename = "max-items")]
    pub max_items: u32,
    #[garde(dive)]
    #[validate(nested)]
    pub owner: Person,
    #[garde(dive)]
    #[validate(nested)]
    #[serde(default)]
    pub items: Vec<Item>,
    #[garde(dive)]
    #[validate(nested)]
    #[serde(default)]
    pub backup: Option<Person>,
}

/// Run-time description of the family (what the generator and the reference walk follow).
#[derive(Debug)]
pub enum Sch {
    Str,
    Num(u64),
    St(&'static str, &'static [F]),
    Seq(&'static Sch),
    Opt(&'static Sch),
}
#[derive(Debug)]
pub struct F {
    pub rust: &'static str,
    pub yaml: &'static str,
    pub sch: Sch,
    pub optional: bool,
    pub garde_only: bool,
}
const fn f(rust: &'static str, yaml: &'static str, sch: Sch) -> F {
    F { rust, yaml, sch, optional: false, garde_only: false }
}
static ADDRESS_FIELDS: &[F] = &[f("street_name", "street-name", Sch::Str), f("zip_code", "zip-code", Sch::Num(99999))];
static PERSON_FIELDS: &[F] = &[
    f("first_name", "firstName", Sch::Str),
    f("age", "age", Sch::Num(150)),
    f("home_address", "homeAddress", Sch::St("Address", ADDRESS_FIELDS)),
    F { rust: "nick", yaml: "nick", sch: Sch::Opt(&Sch::Str), optional: true, garde_only: false },
];
static PERSON: Sch = Sch::St("Person", PERSON_FIELDS);
static ITEM: Sch = Sch::St("Item", &[
    f("name", "name", Sch::Str),
    f("qty", "qty", Sch::Num(100)),
    f("unit_price", "unitPrice", Sch::Num(1000)),
    F { rust: "tags", yaml: "tags", sch: Sch::Seq(&Sch::Str), optional: true, garde_only: true },
]);
static ROOT: Sch = Sch::St("Root", &[
    f("title", "title", Sch::Str),
    f("max_items", "max-items", Sch::Num(100)),
    f("owner", "owner", Sch::St("Person", PERSON_FIELDS)),
    F { rust: "items", yaml: "items", sch: Sch::Seq(&ITEM), optional: true, garde_only: false },
    F { rust: "backup", yaml: "backup", sch: Sch::Opt(&PERSON), optional: true, garde_only: false },
]);

// ------------------------------------------------------------------------------------------------
// YAML trees with tracked positions
// ------------------------------------------------------------------------------------------------

pub type Pos = (u32, u32);

#[derive(Clone, Debug)]
pub enum Y {
    Str { text: String, style: u8, anchor: Option<String> },
    Num { v: u64, anchor: Option<String> },
    Null(u8),
    Alias(String),
    Map { entries: Vec<(String, Y)>, anchor: Option<String>, flow: bool },
    Seq { items: Vec<Y>, flow: bool },
}

/// positions, same shape as the `Y` it was rendered from (`kids`: map values / seq items)
#[derive(Clone, Debug, Default)]
pub struct P {
    pub pos: Pos,
    pub kids: Vec<P>,
}

struct W {
    out: String,
    line: u32,
    col: u32,
    anchors: BTreeMap<String, (Y, P)>,
}
impl W {
    fn new(line: u32) -> W { W { out: String::new(), line, col: 1, anchors: BTreeMap::new() } }
    fn put(&mut self, s: &str) {
        for c in s.chars() {
            if c == '\n' { self.line += 1; self.col = 1; } else { self.col += 1; }
        }
        self.out.push_str(s);
    }
    fn pos(&self) -> Pos { (self.line, self.col) }
    fn indent(&mut self, n: usize) { self.put(&" ".repeat(n)); }

    fn is_inline(y: &Y) -> bool {
        match y {
            Y::Map { flow, .. } => *flow,
            Y::Seq { flow, items } => *flow || items.is_empty(),
            _ => true,
        }
    }

    /// scalars, aliases and flow collections, written at the cursor
    fn inline(&mut self, y: &Y) -> P {
        match y {
            Y::Str { text, style, anchor } => {
                if let Some(a) = anchor { self.put(&format!("&{a} ")); }
                let pos = self.pos();
                match style {
                    1 => self.put(&format!("'{text}'")),
                    2 => self.put(&format!("\"{text}\"")),
                    _ => self.put(text),
                }
                let p = P { pos, kids: vec![] };
                if let Some(a) = anchor { self.anchors.insert(a.clone(), (y.clone(), p.clone())); }
                p
            }
            Y::Num { v, anchor } => {
                if let Some(a) = anchor { self.put(&format!("&{a} ")); }
                let pos = self.pos();
                self.put(&v.to_string());
                let p = P { pos, kids: vec![] };
                if let Some(a) = anchor { self.anchors.insert(a.clone(), (y.clone(), p.clone())); }
                p
            }
            Y::Null(k) => {
                let pos = self.pos();
                self.put(if *k == 0 { "~" } else { "null" });
                P { pos, kids: vec![] }
            }
            Y::Alias(a) => {
                let pos = self.pos();
                self.put(&format!("*{a}"));
                P { pos, kids: vec![] }
            }
            Y::Map { entries, anchor, .. } => {
                if let Some(a) = anchor { self.put(&format!("&{a} ")); }
                let pos = self.pos();
                self.put("{");
                let mut kids = Vec::new();
                for (i, (k, v)) in entries.iter().enumerate() {
                    if i > 0 { self.put(", "); }
                    self.put(k);
                    self.put(": ");
                    kids.push(self.inline(&Self::flowed(v)));
                }
                self.put("}");
                let p = P { pos, kids };
                if let Some(a) = anchor { self.anchors.insert(a.clone(), (y.clone(), p.clone())); }
                p
            }
            Y::Seq { items, .. } => {
                let pos = self.pos();
                self.put("[");
                let mut kids = Vec::new();
                for (i, v) in items.iter().enumerate() {
                    if i > 0 { self.put(", "); }
                    kids.push(self.inline(&Self::flowed(v)));
                }
                self.put("]");
                P { pos, kids }
            }
        }
    }

    /// inside a flow collection everything is flow
    fn flowed(y: &Y) -> Y {
        match y {
            Y::Map { entries, anchor, .. } => Y::Map { entries: entries.clone(), anchor: anchor.clone(), flow: true },
            Y::Seq { items, .. } => Y::Seq { items: items.clone(), flow: true },
            o => o.clone(),
        }
    }

    /// entries of a block mapping; the cursor is at the first key (already indented)
    fn block_entries(&mut self, entries: &[(String, Y)], indent: usize) -> Vec<P> {
        let mut kids = Vec::new();
        for (i, (k, v)) in entries.iter().enumerate() {
            if i > 0 { self.indent(indent); }
            self.put(k);
            self.put(":");
            kids.push(self.value_after_key(v, indent));
        }
        kids
    }

    /// value of a block-mapping entry (cursor right after the colon); ends with a newline
    fn value_after_key(&mut self, v: &Y, indent: usize) -> P {
        if Self::is_inline(v) {
            self.put(" ");
            let p = self.inline(v);
            self.put("\n");
            return p;
        }
        match v {
            Y::Map { entries, anchor, .. } => {
                if let Some(a) = anchor { self.put(&format!(" &{a}")); }
                self.put("\n");
                self.indent(indent + 2);
                let pos = self.pos();
                let kids = self.block_entries(entries, indent + 2);
                let p = P { pos, kids };
                if let Some(a) = anchor { self.anchors.insert(a.clone(), (v.clone(), p.clone())); }
                p
            }
            Y::Seq { items, .. } => {
                self.put("\n");
                self.indent(indent + 2);
                let pos = self.pos();
                let kids = self.block_items(items, indent + 2);
                P { pos, kids }
            }
            _ => unreachable!(),
        }
    }

    /// items of a block sequence; the cursor is at the first dash (already indented)
    fn block_items(&mut self, items: &[Y], indent: usize) -> Vec<P> {
        let mut kids = Vec::new();
        for (i, v) in items.iter().enumerate() {
            if i > 0 { self.indent(indent); }
            self.put("- ");
            if Self::is_inline(v) {
                kids.push(self.inline(v));
                self.put("\n");
            } else {
                match v {
                    Y::Map { entries, .. } => {
                        let pos = self.pos();
                        let k = self.block_entries(entries, indent + 2);
                        kids.push(P { pos, kids: k });
                    }
                    Y::Seq { items, .. } => {
                        let pos = self.pos();
                        let k = self.block_items(items, indent + 2);
                        kids.push(P { pos, kids: k });
                    }
                    _ => unreachable!(),
                }
            }
        }
        kids
    }

    /// one document whose root is a block mapping
    fn document(&mut self, root: &Y, comments: &[usize]) -> P {
        match root {
            Y::Map { entries, .. } => {
                let mut kids = Vec::new();
                let mut first: Option<Pos> = None;
                for (i, (k, v)) in entries.iter().enumerate() {
                    if comments.contains(&i) {
                        self.put("# note: é comment\n");
                        if i % 2 == 1 { self.put("\n"); }
                    }
                    if first.is_none() { first = Some(self.pos()); }
                    self.put(k);
                    self.put(":");
                    kids.push(self.value_after_key(v, 0));
                }
                P { pos: first.unwrap_or(self.pos()), kids }
            }
            _ => unreachable!(),
        }
    }
}

// ------------------------------------------------------------------------------------------------
// generator
// ------------------------------------------------------------------------------------------------

#[derive(Clone, Copy, PartialEq, Eq, Debug)]
enum Kind { Str, Num, St(&'static str) }

struct Gen<'a> {
    rng: &'a mut Rng,
    /// probability (per cent) that a scalar violates its constraint
    p_bad: usize,
    /// probability (per cent) of alias / merge / anchor decorations
    p_alias: usize,
    defs: Vec<(String, Y)>,
    anchored: Vec<(Kind, String)>,
    counter: usize,
    feats: BTreeSet<&'static str>,
    /// adversarial features
    decoys: bool,
    dups: bool,
    type_errors: bool,
}

impl<'a> Gen<'a> {
    fn fresh(&mut self, pre: &str) -> String {
        self.counter += 1;
        format!("{pre}{}", self.counter)
    }
    fn pct(&mut self, p: usize) -> bool { self.rng.below(100) < p }

    fn str_text(&mut self) -> (String, u8) {
        let bad = self.pct(self.p_bad);
        let text: String = if bad {
            if self.rng.chance(1, 5) { String::new() } else { self.rng.pick(&["x", "q", "Z", "7"]).to_string() }
        } else {
            self.rng.pick(&["ab", "hello", "Main St", "widget", "north-east", "A1", "long value with spaces", "42nd"]).to_string()
        };
        let plain_ok = !text.is_empty() && text.chars().next().unwrap().is_ascii_alphabetic();
        let style = if !plain_ok { 1 + self.rng.below(2) as u8 } else { self.rng.below(3) as u8 };
        (text, style)
    }
    fn num_val(&mut self, max: u64) -> u64 {
        if self.pct(self.p_bad) { max + 1 + self.rng.below(50) as u64 } else { self.rng.below(max.min(90) as usize + 1) as u64 }
    }

    fn kind_of(sch: &Sch) -> Kind {
        match sch {
            Sch::Str => Kind::Str,
            Sch::Num(_) => Kind::Num,
            Sch::St(n, _) => Kind::St(n),
            Sch::Seq(_) | Sch::Opt(_) => Kind::Str,
        }
    }

    /// an alias to an earlier anchor of this kind, or to a fresh definition under `defs`
    fn alias_for(&mut self, sch: &'static Sch) -> Y {
        let kind = Self::kind_of(sch);
        let existing: Vec<String> = self.anchored.iter().filter(|(k, _)| *k == kind).map(|(_, n)| n.clone()).collect();
        if !existing.is_empty() && self.rng.chance(1, 2) {
            self.feats.insert("alias_reuse");
            return Y::Alias(self.rng.pick(&existing).clone());
        }
        let name = self.fresh("a");
        let mut v = self.value(sch, false);
        if let Y::Str { text, .. } = &mut v {
            if text.is_empty() { *text = "q".into(); }
        }
        match &mut v {
            Y::Str { anchor, .. } | Y::Num { anchor, .. } | Y::Map { anchor, .. } => *anchor = Some(name.clone()),
            _ => {}
        }
        let key = self.fresh("d");
        self.defs.push((key, v));
        self.anchored.push((kind, name.clone()));
        Y::Alias(name)
    }

    fn value(&mut self, sch: &'static Sch, allow_alias: bool) -> Y {
        match sch {
            Sch::Str => {
                if allow_alias && self.pct(self.p_alias) {
                    self.feats.insert("alias_scalar");
                    return self.alias_for(sch);
                }
                let (text, style) = self.str_text();
                let anchor = if allow_alias && !text.is_empty() && self.pct(self.p_alias / 2) {
                    let n = self.fresh("s");
                    self.anchored.push((Kind::Str, n.clone()));
                    self.feats.insert("anchor_in_place");
                    Some(n)
                } else { None };
                Y::Str { text, style, anchor }
            }
            Sch::Num(max) => {
                if allow_alias && self.pct(self.p_alias) {
                    self.feats.insert("alias_scalar");
                    return self.alias_for(sch);
                }
                if self.type_errors && self.rng.chance(1, 12) {
                    self.feats.insert("type_error");
                    return Y::Str { text: "abc".into(), style: 0, anchor: None };
                }
                let v = self.num_val(*max);
                let anchor = if allow_alias && self.pct(self.p_alias / 2) {
                    let n = self.fresh("n");
                    self.anchored.push((Kind::Num, n.clone()));
                    self.feats.insert("anchor_in_place");
                    Some(n)
                } else { None };
                Y::Num { v, anchor }
            }
            Sch::Opt(inner) => {
                if self.rng.chance(1, 5) { self.feats.insert("null_option"); Y::Null(self.rng.below(2) as u8) } else { self.value(inner, allow_alias) }
            }
            Sch::Seq(inner) => {
                let n = self.rng.below(4);
                let items: Vec<Y> = (0..n).map(|_| self.value(inner, allow_alias)).collect();
                Y::Seq { items, flow: self.rng.chance(1, 3) }
            }
            Sch::St(_, fields) => {
                if allow_alias && self.pct(self.p_alias / 2) {
                    self.feats.insert("alias_struct");
                    return self.alias_for(sch);
                }
                let mut entries: Vec<(String, Y)> = Vec::new();
                // merge: a subset of the fields comes from an anchored mapping under `defs`
                let mut merged: Vec<usize> = Vec::new();
                if allow_alias && self.pct(self.p_alias) {
                    for i in 0..fields.len() {
                        if self.rng.chance(1, 2) { merged.push(i); }
                    }
                }
                if !merged.is_empty() {
                    self.feats.insert("merge");
                    let name = self.fresh("m");
                    let src: Vec<(String, Y)> = merged.iter().map(|&i| (fields[i].yaml.to_string(), self.value(&fields[i].sch, false))).collect();
                    let key = self.fresh("d");
                    self.defs.push((key, Y::Map { entries: src, anchor: Some(name.clone()), flow: self.rng.chance(1, 3) }));
                    entries.push(("<<".to_string(), Y::Alias(name)));
                }
                for (i, fd) in fields.iter().enumerate() {
                    if merged.contains(&i) {
                        // sometimes the explicit key overrides the merged one
                        if self.rng.chance(1, 4) {
                            self.feats.insert("merge_override");
                            entries.push((fd.yaml.to_string(), self.value(&fd.sch, allow_alias)));
                        }
                        continue;
                    }
                    if fd.optional && self.rng.chance(1, 3) { self.feats.insert("optional_absent"); continue; }
                    entries.push((fd.yaml.to_string(), self.value(&fd.sch, allow_alias)));
                }
                // unknown keys are ignored by the derive (no deny_unknown_fields) but still recorded
                if self.rng.chance(1, 6) {
                    self.feats.insert("unknown_key");
                    let k = self.fresh("note");
                    let v = if self.rng.chance(1, 2) {
                        Y::Str { text: "ééé wide".into(), style: 2, anchor: None }
                    } else {
                        Y::Map { entries: vec![("k".into(), Y::Num { v: 1, anchor: None }), ("l".into(), Y::Seq { items: vec![Y::Num { v: 2, anchor: None }], flow: true })], anchor: None, flow: true }
                    };
                    let at = self.rng.below(entries.len() + 1);
                    entries.insert(at, (k, v));
                }
                // decoy: an unknown key spelt like the Rust field name, or like a case variant of the YAML key
                if self.decoys {
                    for fd in fields.iter() {
                        if !entries.iter().any(|(k, _)| k == fd.yaml) { continue; }
                        if fd.rust != fd.yaml && self.rng.chance(1, 3) {
                            self.feats.insert("decoy_rust_name");
                            let at = self.rng.below(entries.len() + 1);
                            entries.insert(at, (fd.rust.to_string(), Y::Str { text: "decoy value".into(), style: 0, anchor: None }));
                        } else if self.rng.chance(1, 6) {
                            let mut cs: Vec<char> = fd.yaml.chars().collect();
                            cs[0] = if cs[0].is_ascii_uppercase() { cs[0].to_ascii_lowercase() } else { cs[0].to_ascii_uppercase() };
                            let k: String = cs.into_iter().collect();
                            if !entries.iter().any(|(e, _)| *e == k) {
                                self.feats.insert("decoy_case_variant");
                                let at = self.rng.below(entries.len() + 1);
                                entries.insert(at, (k, Y::Num { v: 7, anchor: None }));
                            }
                        }
                    }
                }
                // duplicate key (only meaningful under DuplicateKeyPolicy::FirstWins)
                if self.dups && self.rng.chance(1, 3) {
                    let cands: Vec<usize> = entries.iter().enumerate().filter(|(_, (k, v))| {
                        matches!(v, Y::Str { .. } | Y::Num { .. }) && fields.iter().any(|fd| fd.yaml == k && matches!(fd.sch, Sch::Str | Sch::Num(_)))
                    }).map(|(i, _)| i).collect();
                    if !cands.is_empty() {
                        let i = *self.rng.pick(&cands);
                        let k = entries[i].0.clone();
                        let fd = fields.iter().find(|fd| fd.yaml == k).unwrap();
                        let v = match fd.sch { Sch::Num(m) => Y::Num { v: self.num_val(m), anchor: None }, _ => { let (text, style) = self.str_text(); Y::Str { text, style, anchor: None } } };
                        entries.push((k, v));
                        self.feats.insert("dup_key");
                    }
                }
                // the merge key need not come first
                if !merged.is_empty() && entries.len() > 1 && self.rng.chance(1, 3) {
                    let e = entries.remove(0);
                    let at = 1 + self.rng.below(entries.len());
                    entries.insert(at, e);
                    self.feats.insert("merge_not_first");
                }
                if entries.is_empty() {
                    // cannot render an empty block mapping: keep one field
                    let fd = &fields[0];
                    entries.push((fd.yaml.to_string(), self.value(&fd.sch, false)));
                }
                Y::Map { entries, anchor: None, flow: self.rng.chance(1, 4) }
            }
        }
    }
}

/// a root alias to the whole document is not generated; `value(&ROOT)` may return an alias only
/// through `alias_struct`, which we exclude for the root by regenerating.
#[derive(Clone, Copy, Default)]
struct Adv { decoys: bool, dups: bool, type_errors: bool }

fn gen_root(rng: &mut Rng, p_bad: usize, p_alias: usize, adv: Adv) -> (Y, BTreeSet<&'static str>) {
    loop {
        let mut g = Gen { rng: &mut *rng, p_bad, p_alias, defs: vec![], anchored: vec![], counter: 0, feats: BTreeSet::new(),
                          decoys: adv.decoys, dups: adv.dups, type_errors: adv.type_errors };
        if let Some(y) = g.root_checked() { return (y, g.feats); }
    }
}
impl<'a> Gen<'a> {
    fn root_checked(&mut self) -> Option<Y> {
        let body = self.value(&ROOT, true);
        match body {
            Y::Map { mut entries, .. } => {
                if !self.defs.is_empty() {
                    let defs = std::mem::take(&mut self.defs);
                    entries.insert(0, ("defs".to_string(), Y::Map { entries: defs, anchor: None, flow: false }));
                }
                Some(Y::Map { entries, anchor: None, flow: false })
            }
            _ => None,
        }
    }
}

// ------------------------------------------------------------------------------------------------
// reference walk: expected use-site / definition-site per leaf, and the traversal for the model
// ------------------------------------------------------------------------------------------------

pub type RPath = Vec<(bool, String)>;

#[derive(Default)]
struct Expect {
    /// leaf (Rust-name path) -> (use, def, yaml leaf)
    leaves: BTreeMap<RPath, (Pos, Pos, String)>,
    /// leaves next to an unknown key spelt exactly like the Rust field name
    decoy_exact: BTreeSet<RPath>,
    /// leaves next to an unknown key that differs from the YAML key only by ASCII case
    decoy_ambiguous: BTreeSet<RPath>,
}

fn code(p: Pos) -> u64 { ((p.0 as u64) << 20) | p.1 as u64 }

struct Walker<'a> {
    anchors: &'a BTreeMap<String, (Y, P)>,
    exp: Expect,
}

impl<'a> Walker<'a> {
    /// follow an alias: the node that is deserialized, its positions, and the use-site override
    fn resolve<'b>(&self, y: &'b Y, p: &'b P, use_ovr: Option<Pos>) -> (&'b Y, &'b P, Option<Pos>) where 'a: 'b {
        let anchors: &'a BTreeMap<String, (Y, P)> = self.anchors;
        match y {
            Y::Alias(a) => {
                let (ty, tp) = anchors.get(a).expect("alias to unknown anchor");
                (ty, tp, Some(use_ovr.unwrap_or(p.pos)))
            }
            _ => (y, p, use_ovr),
        }
    }

    fn locs(&self, y: &Y, p: &P, use_ovr: Option<Pos>) -> (Pos, Pos) {
        let (_, tp, u) = self.resolve(y, p, use_ovr);
        (u.unwrap_or(tp.pos), tp.pos)
    }

    /// untyped traversal (ignored values: `IgnoredAny` visits everything)
    fn any(&mut self, y: &Y, p: &P, use_ovr: Option<Pos>) -> String {
        let (y, p, u) = self.resolve(y, p, use_ovr);
        match y {
            Y::Map { entries, .. } => {
                let (r, d) = (u.unwrap_or(p.pos), p.pos);
                let mut parts: Vec<String> = Vec::new();
                let mut seen: BTreeSet<String> = BTreeSet::new();
                for ((k, v), kp) in entries.iter().zip(&p.kids) {
                    if !seen.insert(k.clone()) { continue; } // repeated key: skipped under FirstWins
                    let (vr, vd) = self.locs(v, kp, u);
                    parts.push(format!(" {} {} {} {}", hex(k), code(vr), code(vd), self.any(v, kp, u)));
                }
                let mut s = format!("M {} {} {}", code(r), code(d), parts.len());
                for p in parts { s.push_str(&p); }
                s
            }
            Y::Seq { items, .. } => {
                let mut s = format!("S {}", items.len());
                for (v, kp) in items.iter().zip(&p.kids) {
                    let (vr, vd) = self.locs(v, kp, u);
                    s.push_str(&format!(" {} {} {}", code(vr), code(vd), self.any(v, kp, u)));
                }
                s
            }
            _ => "L 1".to_string(),
        }
    }

    /// typed traversal following the schema; returns the `<visit>` token string
    fn typed(&mut self, sch: &'static Sch, y: &Y, p: &P, use_ovr: Option<Pos>, rpath: &RPath, yaml_leaf: &str) -> String {
        let (ry, rp, u) = self.resolve(y, p, use_ovr);
        match sch {
            Sch::Str | Sch::Num(_) => {
                self.exp.leaves.insert(rpath.clone(), (u.unwrap_or(rp.pos), rp.pos, yaml_leaf.to_string()));
                "L 1".to_string()
            }
            Sch::Opt(inner) => match ry {
                Y::Null(_) => "L 1".to_string(),
                _ => self.typed(inner, y, p, use_ovr, rpath, yaml_leaf),
            },
            Sch::Seq(inner) => {
                let Y::Seq { items, .. } = ry else { panic!("schema/tree mismatch (seq)") };
                let mut s = format!("S {}", items.len());
                let items = items.clone();
                let kids = rp.kids.clone();
                for (i, (v, kp)) in items.iter().zip(&kids).enumerate() {
                    let (vr, vd) = self.locs(v, kp, u);
                    let mut sub = rpath.clone();
                    sub.push((true, i.to_string()));
                    let t = self.typed(inner, v, kp, u, &sub, &i.to_string());
                    s.push_str(&format!(" {} {} {}", code(vr), code(vd), t));
                }
                s
            }
            Sch::St(_, fields) => {
                let Y::Map { entries, .. } = ry else { panic!("schema/tree mismatch (struct)") };
                let entries = entries.clone();
                let kids = rp.kids.clone();
                let (r, d) = (u.unwrap_or(rp.pos), rp.pos);
                let mut parts: Vec<String> = Vec::new();
                let explicit: BTreeSet<String> = entries.iter().filter(|(k, _)| k != "<<").map(|(k, _)| k.clone()).collect();
                // decoys
                for (k, _) in entries.iter() {
                    if fields.iter().any(|fd| fd.yaml == k) { continue; }
                    for fd in fields.iter() {
                        let mut sub = rpath.clone();
                        sub.push((false, fd.rust.to_string()));
                        if k == fd.rust { self.exp.decoy_exact.insert(sub); }
                        else if k.eq_ignore_ascii_case(fd.yaml) { self.exp.decoy_ambiguous.insert(sub); }
                    }
                }
                // explicit keys in document order (a repeated key is skipped: FirstWins)
                let mut seen_keys: BTreeSet<String> = BTreeSet::new();
                for ((k, v), kp) in entries.iter().zip(&kids) {
                    if k == "<<" { continue; }
                    if !seen_keys.insert(k.clone()) { continue; }
                    let (vr, vd) = self.locs(v, kp, u);
                    let t = match fields.iter().find(|fd| fd.yaml == k) {
                        Some(fd) => {
                            let mut sub = rpath.clone();
                            sub.push((false, fd.rust.to_string()));
                            self.typed(&fd.sch, v, kp, u, &sub, fd.yaml)
                        }
                        None => format!("G {}", self.any(v, kp, u)), // not a field: Serde asks for IgnoredAny
                    };
                    parts.push(format!("{} {} {} {}", hex(k), code(vr), code(vd), t));
                }
                // merged entries (flushed after the mapping's own keys), shadowed ones are skipped
                for ((k, v), kp) in entries.iter().zip(&kids) {
                    if k != "<<" { continue; }
                    let (my, mp, mu) = self.resolve(v, kp, u);
                    let Y::Map { entries: src, .. } = my else { panic!("merge source is not a mapping") };
                    let src = src.clone();
                    let skids = mp.kids.clone();
                    for ((sk, sv), skp) in src.iter().zip(&skids) {
                        if explicit.contains(sk) { continue; }
                        if !seen_keys.insert(sk.clone()) { continue; }
                        let (vr, vd) = self.locs(sv, skp, mu);
                        let t = match fields.iter().find(|fd| fd.yaml == sk) {
                            Some(fd) => {
                                let mut sub = rpath.clone();
                                sub.push((false, fd.rust.to_string()));
                                self.typed(&fd.sch, sv, skp, mu, &sub, fd.yaml)
                            }
                            None => format!("G {}", self.any(sv, skp, mu)),
                        };
                        parts.push(format!("{} {} {} {}", hex(sk), code(vr), code(vd), t));
                    }
                }
                let mut s = format!("M {} {} {}", code(r), code(d), parts.len());
                for p in parts { s.push(' '); s.push_str(&p); }
                s
            }
        }
    }
}

// ------------------------------------------------------------------------------------------------
// expected violations, from the plainly deserialized value
// ------------------------------------------------------------------------------------------------

fn kseg(s: &str) -> (bool, String) { (false, s.to_string()) }
fn iseg(i: usize) -> (bool, String) { (true, i.to_string()) }

fn person_violations(p: &Person, base: &RPath, garde: bool, out: &mut BTreeSet<RPath>) {
    let _ = garde;
    let mk = |s: &str| { let mut b = base.clone(); b.push(kseg(s)); b };
    if p.first_name.len() < 2 { out.insert(mk("first_name")); }
    if p.age > 150 { out.insert(mk("age")); }
    let a = mk("home_address");
    if p.home_address.street_name.len() < 2 { let mut b = a.clone(); b.push(kseg("street_name")); out.insert(b); }
    if p.home_address.zip_code > 99999 { let mut b = a.clone(); b.push(kseg("zip_code")); out.insert(b); }
    if let Some(n) = &p.nick { if n.len() < 2 { out.insert(mk("nick")); } }
}

fn violations(v: &Root, garde: bool) -> BTreeSet<RPath> {
    let mut out = BTreeSet::new();
    if v.title.len() < 2 { out.insert(vec![kseg("title")]); }
    if v.max_items > 100 { out.insert(vec![kseg("max_items")]); }
    person_violations(&v.owner, &vec![kseg("owner")], garde, &mut out);
    for (i, it) in v.items.iter().enumerate() {
        let base = vec![kseg("items"), iseg(i)];
        let mk = |s: &str| { let mut b = base.clone(); b.push(kseg(s)); b };
        if it.name.len() < 2 { out.insert(mk("name")); }
        if it.qty > 100 { out.insert(mk("qty")); }
        if it.unit_price > 1000 { out.insert(mk("unit_price")); }
        if garde {
            for (j, t) in it.tags.iter().enumerate() {
                if t.len() < 2 { let mut b = mk("tags"); b.push(iseg(j)); out.insert(b); }
            }
        }
    }
    if let Some(b) = &v.backup { person_violations(b, &vec![kseg("backup")], garde, &mut out); }
    out
}

// ------------------------------------------------------------------------------------------------
// the checks
// ------------------------------------------------------------------------------------------------

pub struct OStats { pub nontrivial: u64, pub documents: u64, pub calls: u64 }

struct Ctx<'a> {
    sink: &'a mut Sink,
    out: &'a mut Vec<serde_json::Value>,
    per_id: BTreeMap<String, usize>,
    calls: u64,
}

impl<'a> Ctx<'a> {
    fn fail(&mut self, id: &str, what: &str, input: &str, observed: String, expected: String) {
        let n = self.per_id.entry(id.to_string()).or_insert(0);
        *n += 1;
        self.sink.count(&format!("oracle.fail.{id}"));
        if *n <= 3 {
            self.out.push(serde_json::json!({"id": id, "what": what, "input": input, "observed": observed, "expected": expected}));
        }
    }
}

fn rpath_str(p: &RPath) -> String { h::render(p) }

enum Outcome<T> { Ok(T), Err(Error), Panic }

fn guard<T>(f: impl FnOnce() -> Result<T, Error>) -> Outcome<T> {
    match catch_unwind(AssertUnwindSafe(f)) {
        Ok(Ok(v)) => Outcome::Ok(v),
        Ok(Err(e)) => Outcome::Err(e),
        Err(_) => Outcome::Panic,
    }
}

fn err_tok(e: &Error) -> String { format!("{}@{}", errs::kind(e), errs::loc(e)) }

/// issues of a single-document validation error, resolved through the real `search`
fn issues_of(e: &Error) -> Option<(&'static str, Vec<(RPath, Option<h::Found>)>)> {
    match errs::unwrap_snippet(e) {
        Error::ValidationError { report, locations } => Some(("garde", h::garde_resolve(report, locations))),
        Error::ValidatorError { errors, locations } => Some(("validator", h::validator_resolve(errors, locations))),
        _ => None,
    }
}

/// Failure class of a path: the plain ids, or the decoy-key classes (documents carrying an unknown
/// key spelt like the Rust field name / like a case variant of the YAML key).
fn class_of(exp: &Expect, path: &RPath, plain_id: &'static str) -> &'static str {
    if exp.decoy_exact.contains(path) { "C18-decoy-key-shadows-field" }
    else if exp.decoy_ambiguous.contains(path) { "C18-decoy-key-ambiguous" }
    else { plain_id }
}

/// Check one validation error of one document against the expected violations and positions.
fn check_issues(cx: &mut Ctx, variant: &str, text: &str, e: &Error, want_crate: &str, expected: &BTreeSet<RPath>, exp: &Expect) {
    let Some((krate, issues)) = issues_of(e) else {
        cx.fail("C18-not-validation-error", &format!("{variant}: validation fails but the error is not a validation error"), text, err_tok(e), format!("{want_crate} validation error for {:?}", expected.iter().map(rpath_str).collect::<Vec<_>>()));
        return;
    };
    if krate != want_crate {
        cx.fail("C18-not-validation-error", &format!("{variant}: wrong validation error variant"), text, krate.to_string(), want_crate.to_string());
    }
    let got: BTreeSet<RPath> = issues.iter().map(|(p, _)| p.clone()).collect();
    if &got != expected {
        cx.fail("C18-issue-set-mismatch", &format!("{variant}: reported paths differ from the violated constraints (harness self-check of the validators' path format)"), text,
                format!("{:?}", got.iter().map(rpath_str).collect::<Vec<_>>()), format!("{:?}", expected.iter().map(rpath_str).collect::<Vec<_>>()));
    }
    for (path, found) in &issues {
        cx.sink.count("oracle.issue");
        let Some((want_use, want_def, yaml_leaf)) = exp.leaves.get(path) else { continue };
        match found {
            None => {
                let id = class_of(exp, path, "C18-path-unresolved");
                cx.fail(id, &format!("{variant}: reported path `{}` does not resolve through PathMap::search", rpath_str(path)), text,
                        "none".into(), format!("use {:?} def {:?}", want_use, want_def))
            }
            Some((r, d, leaf)) => {
                let r = (r.0 as u32, r.1 as u32);
                let d = (d.0 as u32, d.1 as u32);
                if r != *want_use {
                    cx.fail(class_of(exp, path, "C18-path-wrong-use-site"), &format!("{variant}: `{}` resolves to a reference location that is not where the value is used", rpath_str(path)), text,
                            format!("{:?}", r), format!("{:?}", want_use));
                } else if d != *want_def {
                    cx.fail(class_of(exp, path, "C18-path-wrong-def-site"), &format!("{variant}: `{}` resolves to a defined location that is not where the value is defined", rpath_str(path)), text,
                            format!("{:?}", d), format!("{:?}", want_def));
                } else if leaf != yaml_leaf {
                    cx.fail(class_of(exp, path, "C18-path-wrong-leaf"), &format!("{variant}: `{}` resolved leaf is not the YAML spelling", rpath_str(path)), text, leaf.clone(), yaml_leaf.clone());
                } else {
                    cx.sink.count("oracle.issue.located");
                    if want_use != want_def { cx.sink.count("oracle.issue.located_through_anchor"); }
                }
            }
        }
    }
    // what the public API exposes for the first issue
    if let Some(first) = issues.first() {
        if let Some((want_use, want_def, _)) = exp.leaves.get(&first.0) {
            match e.locations() {
                Some(l) => {
                    let r = (l.reference_location.line() as u32, l.reference_location.column() as u32);
                    let d = (l.defined_location.line() as u32, l.defined_location.column() as u32);
                    if (r != *want_use || d != *want_def) && first.1.is_some() {
                        cx.fail(class_of(exp, &first.0, "C18-error-locations-api"), &format!("{variant}: Error::locations() of the first issue"), text, format!("{:?} {:?}", r, d), format!("{:?} {:?}", want_use, want_def));
                    }
                }
                None => {
                    if first.1.is_some() {
                        cx.fail(class_of(exp, &first.0, "C18-error-locations-api"), &format!("{variant}: Error::locations() is None although the first issue resolves"), text, "None".into(), format!("{:?} {:?}", want_use, want_def));
                    }
                }
            }
        }
    }
}

/// A single-document validating call against the plain result (same options).
fn check_single(cx: &mut Ctx, variant: &str, text: &str, plain: &Outcome<Root>, got: Outcome<Root>, krate: &str, exp: &Expect) {
    cx.calls += 1;
    cx.sink.count(&format!("oracle.call.{variant}"));
    match (plain, got) {
        (_, Outcome::Panic) => cx.fail("C18-panic", &format!("{variant} panicked"), text, "panic".into(), "no panic".into()),
        (Outcome::Panic, _) => cx.fail("C18-panic", "plain entry point panicked", text, "panic".into(), "no panic".into()),
        (Outcome::Err(pe), Outcome::Err(ge)) => {
            cx.sink.count("oracle.single.deser_error_both");
            if err_tok(pe) != err_tok(&ge) {
                cx.fail("C18-deser-error-mismatch", &format!("{variant}: deserialization fails but not with the plain entry point's error"), text, err_tok(&ge), err_tok(pe));
            }
        }
        (Outcome::Err(pe), Outcome::Ok(_)) => cx.fail("C18-valid-ne-plain", &format!("{variant}: Ok although the plain entry point fails"), text, "Ok".into(), err_tok(pe)),
        (Outcome::Ok(v), got) => {
            let want = violations(v, krate == "garde");
            match got {
                Outcome::Ok(g) => {
                    if !want.is_empty() {
                        cx.fail("C18-not-validation-error", &format!("{variant}: Ok although constraints are violated"), text, "Ok".into(), format!("{:?}", want.iter().map(rpath_str).collect::<Vec<_>>()));
                    } else if &g != v {
                        cx.fail("C18-valid-ne-plain", &format!("{variant}: value differs from the plain entry point's"), text, format!("{:?}", g), format!("{:?}", v));
                    } else {
                        cx.sink.count("oracle.single.pass_equal");
                    }
                }
                Outcome::Err(e) => {
                    if want.is_empty() {
                        cx.fail("C18-valid-ne-plain", &format!("{variant}: error although validation passes"), text, err_tok(&e), "Ok".into());
                    } else {
                        cx.sink.count("oracle.single.fail_checked");
                        check_issues(cx, variant, text, &e, krate, &want, exp);
                    }
                }
                Outcome::Panic => unreachable!(),
            }
        }
    }
}

struct RenderedDoc {
    exp: Expect,
    visit: String,
    /// the document's own text (without the `---` line) and the lines it occupies in the stream
    text: String,
    start_line: u32,
    end_line: u32,
}

/// Render `docs` as one stream (documents separated by `---`), walk each for expectations.
fn render_stream(docs: &[(Y, Vec<usize>)], explicit_start: bool) -> (String, Vec<RenderedDoc>) {
    let mut text = String::new();
    let mut line = 1u32;
    let mut out = Vec::new();
    for (i, (y, comments)) in docs.iter().enumerate() {
        if i > 0 || explicit_start {
            text.push_str("---\n");
            line += 1;
        }
        let start_line = line;
        let mut w = W::new(line);
        let p = w.document(y, comments);
        line = w.line;
        text.push_str(&w.out);
        let mut wk = Walker { anchors: &w.anchors, exp: Expect::default() };
        let visit = wk.typed(&ROOT, y, &p, None, &vec![], "");
        out.push(RenderedDoc { exp: wk.exp, visit, text: w.out.clone(), start_line, end_line: line.saturating_sub(1).max(start_line) });
    }
    (text, out)
}

/// canonical dump of the location map carried by a single-document validation error
fn error_map_tok(e: &Error) -> Option<String> {
    let dump = match errs::unwrap_snippet(e) {
        Error::ValidationError { locations, .. } => h::dump(locations),
        Error::ValidatorError { locations, .. } => h::dump(locations),
        _ => return None,
    };
    let mut ents: Vec<String> = dump.iter().map(|(p, a, b)| {
        format!("{} {} {}", super::out_path_tok(p), code((a.line() as u32, a.column() as u32)), code((b.line() as u32, b.column() as u32)))
    }).collect();
    ents.sort();
    let mut s = format!("ok 0 {}", ents.len());
    for e in ents { s.push(' '); s.push_str(&e); }
    Some(s)
}

/// Document isolation: what a stream entry point reports for one document must be what the
/// single-document entry point reports for that document's text alone, shifted by the document's line
/// offset, and every location must lie inside the document's line range.
fn check_isolation<T>(cx: &mut Ctx, variant: &str, stream: &str, e: &Error, krate: &str, doc_text: &str, start_line: u32, end_line: u32)
where
    T: serde::de::DeserializeOwned + garde::Validate + validator::Validate,
    <T as garde::Validate>::Context: Default,
{
    let Some((_, mut got)) = issues_of(e) else { return };
    got.sort(); // validator keeps its errors in a HashMap: the order of issues is not significant
    cx.sink.count("oracle.isolation.checked");
    let single = if krate == "garde" {
        guard(|| serde_saphyr::from_str_valid::<T>(doc_text).map(|_| ()))
    } else {
        guard(|| serde_saphyr::from_str_validate::<T>(doc_text).map(|_| ()))
    };
    let Outcome::Err(se) = single else {
        cx.fail("C18-multi-doc-isolation", &format!("{variant}: the stream reports a validation error for a document that passes on its own"), stream, err_tok(e), "Ok".into());
        return;
    };
    let Some((_, alone)) = issues_of(&se) else {
        cx.fail("C18-multi-doc-isolation", &format!("{variant}: the document alone does not fail with a validation error"), stream, err_tok(&se), "validation error".into());
        return;
    };
    let shift = (start_line - 1) as u64;
    let mut shifted: Vec<(RPath, Option<h::Found>)> = alone.into_iter().map(|(p, f)| {
        (p, f.map(|(r, d, leaf)| ((r.0 + shift, r.1), (d.0 + shift, d.1), leaf)))
    }).collect();
    shifted.sort();
    if shifted != got {
        cx.fail("C18-multi-doc-isolation", &format!("{variant}: issues of the document at lines {start_line}..{end_line} differ from what the single-document entry point reports for that document alone (shifted by {shift} lines)"), stream,
                format!("{:?}", got.iter().map(|(p, f)| (rpath_str(p), f.clone())).collect::<Vec<_>>()),
                format!("{:?}", shifted.iter().map(|(p, f)| (rpath_str(p), f.clone())).collect::<Vec<_>>()));
    }
    for (p, f) in &got {
        if let Some((r, d, _)) = f {
            for (what, l) in [("reference", r.0), ("defined", d.0)] {
                if l < start_line as u64 || l > end_line as u64 {
                    cx.fail("C18-multi-doc-isolation", &format!("{variant}: `{}` is given a {what} location outside its document (lines {start_line}..{end_line})", rpath_str(p)), stream, format!("line {l}"), format!("{start_line}..{end_line}"));
                }
            }
        }
    }
}

fn dump_tok(r: &h::Recorded<Root>) -> String {
    let mut ents: Vec<String> = h::dump(&r.map).iter().map(|(p, a, b)| {
        format!("{} {} {}", super::out_path_tok(p), code((a.line() as u32, a.column() as u32)), code((b.line() as u32, b.column() as u32)))
    }).collect();
    ents.sort();
    let mut s = format!("ok {} {}", super::out_path_tok(&r.current_after), ents.len());
    for e in ents { s.push(' '); s.push_str(&e); }
    s
}

fn opts(variant: usize) -> Options {
    let mut o = Options::default();
    match variant {
        1 => { o.with_snippet = false; }
        2 => { o.crop_radius = 0; }
        3 => { o.crop_radius = 7; o.duplicate_keys = serde_saphyr::DuplicateKeyPolicy::FirstWins; }
        _ => {}
    }
    o
}

fn same_outcome(a: &Outcome<Root>, b: &Outcome<Root>) -> bool {
    match (a, b) {
        (Outcome::Ok(x), Outcome::Ok(y)) => x == y,
        (Outcome::Err(x), Outcome::Err(y)) => err_tok(x) == err_tok(y),
        _ => false,
    }
}

/// everything checked on one single-document text
fn single_checks(cx: &mut Ctx, text: &str, rd: &RenderedDoc, ov: usize, expect_deser_ok: bool, nontrivial: &mut u64) {
    let exp = &rd.exp;
    // (1) recorder differential (same options as the `_with_options` calls below)
    match guard(|| h::record::<Root>(text, opts(ov))) {
        Outcome::Ok(r) => {
            cx.sink.case(&format!("pathmap rec {}", rd.visit), &dump_tok(&r));
            cx.sink.count("rec.cases");
        }
        Outcome::Err(e) => {
            cx.sink.count("rec.deser_error");
            if expect_deser_ok {
                cx.fail("C18-harness-self-check", "generated document does not deserialize", text, err_tok(&e), "Ok".into());
                return;
            }
        }
        Outcome::Panic => { cx.fail("C18-panic", "record panicked", text, "panic".into(), "no panic".into()); return; }
    }
    // (2)+(3) entry points: `plain_d` for the calls without options, `plain_o` for those with `opts(ov)`
    let bytes = text.as_bytes();
    let plain_d = guard(|| serde_saphyr::from_str::<Root>(text));
    let plain_o = guard(|| serde_saphyr::from_str_with_options::<Root>(text, opts(ov)));
    for pl in [&plain_d, &plain_o] {
        if let Outcome::Ok(v) = pl {
            let g = violations(v, true);
            for p in &g {
                if !exp.leaves.contains_key(p) {
                    cx.fail("C18-harness-self-check", "violated leaf unknown to the reference walk", text, rpath_str(p), "known".into());
                }
            }
        }
    }
    if let Outcome::Ok(v) = &plain_o {
        let g = violations(v, true);
        let vv = violations(v, false);
        cx.sink.count(if g.is_empty() { "oracle.doc.garde_passes" } else { "oracle.doc.garde_fails" });
        cx.sink.count(if vv.is_empty() { "oracle.doc.validator_passes" } else { "oracle.doc.validator_fails" });
        if !g.is_empty() { *nontrivial += 1; }
    } else {
        cx.sink.count("oracle.doc.does_not_deserialize");
    }
    // the comparison base must itself be consistent
    for (name, base, got) in [
        ("from_slice", &plain_d, guard(|| serde_saphyr::from_slice::<Root>(bytes))),
        ("from_reader", &plain_d, guard(|| serde_saphyr::from_reader::<_, Root>(std::io::Cursor::new(bytes)))),
        ("from_slice_with_options", &plain_o, guard(|| serde_saphyr::from_slice_with_options::<Root>(bytes, opts(ov)))),
        ("from_reader_with_options", &plain_o, guard(|| serde_saphyr::from_reader_with_options::<_, Root>(std::io::Cursor::new(bytes), opts(ov)))),
    ] {
        if !same_outcome(base, &got) {
            cx.fail("C18-harness-self-check", &format!("plain entry points disagree ({name})"), text, "differs".into(), "same".into());
        }
    }
    // garde
    check_single(cx, "from_str_valid", text, &plain_d, guard(|| serde_saphyr::from_str_valid::<Root>(text)), "garde", exp);
    check_single(cx, "from_str_with_options_valid", text, &plain_o, guard(|| serde_saphyr::from_str_with_options_valid::<Root>(text, opts(ov))), "garde", exp);
    check_single(cx, "from_str_with_options_context_valid", text, &plain_o, guard(|| serde_saphyr::from_str_with_options_context_valid::<Root>(text, opts(ov), &())), "garde", exp);
    check_single(cx, "from_slice_valid", text, &plain_d, guard(|| serde_saphyr::from_slice_valid::<Root>(bytes)), "garde", exp);
    check_single(cx, "from_slice_with_options_valid", text, &plain_o, guard(|| serde_saphyr::from_slice_with_options_valid::<Root>(bytes, opts(ov))), "garde", exp);
    check_single(cx, "from_reader_valid", text, &plain_d, guard(|| serde_saphyr::from_reader_valid::<_, Root>(std::io::Cursor::new(bytes))), "garde", exp);
    check_single(cx, "from_reader_with_options_valid", text, &plain_o, guard(|| serde_saphyr::from_reader_with_options_valid::<_, Root>(std::io::Cursor::new(bytes), opts(ov))), "garde", exp);
    // validator
    check_single(cx, "from_str_validate", text, &plain_d, guard(|| serde_saphyr::from_str_validate::<Root>(text)), "validator", exp);
    check_single(cx, "from_str_with_options_validate", text, &plain_o, guard(|| serde_saphyr::from_str_with_options_validate::<Root>(text, opts(ov))), "validator", exp);
    check_single(cx, "from_slice_validate", text, &plain_d, guard(|| serde_saphyr::from_slice_validate::<Root>(bytes)), "validator", exp);
    check_single(cx, "from_slice_with_options_validate", text, &plain_o, guard(|| serde_saphyr::from_slice_with_options_validate::<Root>(bytes, opts(ov))), "validator", exp);
    check_single(cx, "from_reader_validate", text, &plain_d, guard(|| serde_saphyr::from_reader_validate::<_, Root>(std::io::Cursor::new(bytes))), "validator", exp);
    check_single(cx, "from_reader_with_options_validate", text, &plain_o, guard(|| serde_saphyr::from_reader_with_options_validate::<_, Root>(std::io::Cursor::new(bytes), opts(ov))), "validator", exp);
}

pub fn run(sink: &mut Sink, rng: &mut Rng, thorough: bool, out: &mut Vec<serde_json::Value>) -> OStats {
    let mut cx = Ctx { sink, out, per_id: BTreeMap::new(), calls: 0 };
    let ndocs = if thorough { 12_000 } else { 900 };
    let mut nontrivial = 0u64;
    let mut documents = 0u64;

    // ---------------- single documents of the family
    for di in 0..ndocs {
        let ov = di % 4;
        let p_bad = *rng.pick(&[0usize, 0, 5, 15, 40]);
        let p_alias = *rng.pick(&[0usize, 10, 25, 40]);
        let adv = Adv { decoys: false, dups: ov == 3 && rng.chance(1, 2), type_errors: rng.chance(1, 12) };
        let (y, feats) = gen_root(rng, p_bad, p_alias, adv);
        let ncom = rng.below(3);
        let comments: Vec<usize> = (0..ncom).map(|_| rng.below(5)).collect();
        let explicit_start = rng.chance(1, 6);
        let (text, rd) = render_stream(&[(y, comments)], explicit_start);
        documents += 1;
        for ft in &feats { cx.sink.count(&format!("oracle.doc.feature.{ft}")); }
        let expect_ok = !feats.contains("type_error");
        single_checks(&mut cx, &text, &rd[0], ov, expect_ok, &mut nontrivial);
        // a leading BOM is ignored by the plain entry points; the validating ones must do the same
        if di % 5 == 0 {
            let bom = format!("\u{feff}{text}");
            let plain_b = guard(|| serde_saphyr::from_str::<Root>(&bom));
            check_single(&mut cx, "from_str_valid+bom", &bom, &plain_b, guard(|| serde_saphyr::from_str_valid::<Root>(&bom)), "garde", &rd[0].exp);
            check_single(&mut cx, "from_str_validate+bom", &bom, &plain_b, guard(|| serde_saphyr::from_str_validate::<Root>(&bom)), "validator", &rd[0].exp);
        }
    }

    // ---------------- fixed witnesses of the known findings (replayed on every run)
    for (wi, decoy_key) in ["first_name", "FirstName"].iter().enumerate() {
        let sc = |t: &str| Y::Str { text: t.into(), style: 0, anchor: None };
        let nm = |v: u64| Y::Num { v, anchor: None };
        let owner = Y::Map { entries: vec![
            (decoy_key.to_string(), sc("decoy")),
            ("firstName".into(), sc("x")),
            ("age".into(), nm(1)),
            ("homeAddress".into(), Y::Map { entries: vec![("street-name".into(), sc("ab")), ("zip-code".into(), nm(1))], anchor: None, flow: true }),
        ], anchor: None, flow: false };
        let root = Y::Map { entries: vec![("title".into(), sc("ab")), ("max-items".into(), nm(1)), ("owner".into(), owner)], anchor: None, flow: false };
        let (text, rd) = render_stream(&[(root, vec![])], false);
        documents += 1;
        cx.sink.count("oracle.witness_docs");
        single_checks(&mut cx, &text, &rd[0], wi, true, &mut nontrivial);
    }

    // ---------------- adversarial: unknown keys spelt like the Rust field name / a case variant
    let ndecoy = if thorough { 3_000 } else { 250 };
    for di in 0..ndecoy {
        let adv = Adv { decoys: true, dups: false, type_errors: false };
        let pa = *rng.pick(&[0usize, 20]);
        let (y, feats) = gen_root(rng, 30, pa, adv);
        let (text, rd) = render_stream(&[(y, vec![])], false);
        documents += 1;
        for ft in &feats { cx.sink.count(&format!("oracle.decoydoc.feature.{ft}")); }
        single_checks(&mut cx, &text, &rd[0], di % 3, true, &mut nontrivial);
    }

    // ---------------- consumed keys stay recorded (map entries, flatten, alias)
    consumed_keys_checks(&mut cx, &mut documents);

    // ---------------- adversarial: fields renamed to an unrelated YAML key
    renamed_checks(&mut cx, rng, if thorough { 400 } else { 60 }, &mut documents, &mut nontrivial);

    // ---------------- document isolation (valid documents before failing ones, alias vs renamed key)
    iso_checks(&mut cx, rng, if thorough { 1_500 } else { 150 }, &mut documents, &mut nontrivial);

    // ---------------- streams
    let nstreams = if thorough { 4_000 } else { 300 };
    for si in 0..nstreams {
        let k = 1 + rng.below(4);
        let p_bad = *rng.pick(&[0usize, 3, 10, 30]);
        let mut docs = Vec::new();
        let type_errors = rng.chance(1, 10);
        for _ in 0..k {
            let pb = if rng.chance(1, 2) { 0 } else { p_bad };
            let pa = *rng.pick(&[0usize, 20, 40]);
            let (y, _) = gen_root(rng, pb, pa, Adv { decoys: false, dups: false, type_errors });
            docs.push((y, vec![]));
        }
        let (text, rd) = render_stream(&docs, rng.chance(1, 2));
        documents += k as u64;
        multi_checks(&mut cx, &text, &rd, si % 3, false);
        if si % 5 == 0 {
            let bom = format!("\u{feff}{text}");
            multi_checks(&mut cx, &bom, &rd, si % 3, true);
        }
    }
    let calls = cx.calls;
    OStats { nontrivial, documents, calls }
}

// ------------------------------------------------------------------------------------------------
// renamed-to-unrelated family
// ------------------------------------------------------------------------------------------------

#[derive(Debug, Clone, PartialEq, Deserialize, garde::Validate, validator::Validate)]
pub struct Renamed {
    #[garde(length(min = 2))]
    #[validate(length(min = 2))]
    #[serde(rename = "label")]
    pub name: String,
    #[garde(range(max = 10))]
    #[validate(range(max = 10))]
    #[serde(rename = "n")]
    pub count: u32,
    #[garde(range(max = 10))]
    #[validate(range(max = 10))]
    #[serde(rename = "max-depth")]
    pub max_depth: u32,
}

#[derive(Debug, Clone, PartialEq, Deserialize, garde::Validate, validator::Validate)]
pub struct RenamedRoot {
    #[garde(dive)]
    #[validate(nested)]
    pub entries: Vec<Renamed>,
}

fn renamed_checks(cx: &mut Ctx, rng: &mut Rng, n: usize, documents: &mut u64, nontrivial: &mut u64) {
    for round in 0..n {
        let first = round == 0;
        let k = 1 + rng.below(3);
        let mut w = W::new(1);
        let mut items = Vec::new();
        for _ in 0..k {
            let bad = first || rng.chance(1, 2);
            items.push(Y::Map { entries: vec![
                ("label".into(), Y::Str { text: if bad && (first || rng.chance(1, 2)) { "x".into() } else { "fine".into() }, style: 0, anchor: None }),
                ("n".into(), Y::Num { v: if bad { 11 + rng.below(5) as u64 } else { rng.below(10) as u64 }, anchor: None }),
                ("max-depth".into(), Y::Num { v: if rng.chance(1, 3) { 12 } else { 3 }, anchor: None }),
            ], anchor: None, flow: rng.chance(1, 2) });
        }
        let root = Y::Map { entries: vec![("entries".into(), Y::Seq { items, flow: false })], anchor: None, flow: false };
        let p = w.document(&root, &[]);
        let text = w.out.clone();
        *documents += 1;
        let plain = guard(|| serde_saphyr::from_str::<RenamedRoot>(&text));
        let Outcome::Ok(v) = &plain else {
            cx.fail("C18-harness-self-check", "renamed family: generated document does not deserialize", &text, "error".into(), "Ok".into());
            continue;
        };
        // expected violations and positions (fields in declaration order = entry order)
        let mut want: BTreeMap<RPath, Pos> = BTreeMap::new();
        for (i, e) in v.entries.iter().enumerate() {
            let kp = &p.kids[0].kids[i];
            let base = vec![kseg("entries"), iseg(i)];
            let mk = |s: &str| { let mut b = base.clone(); b.push(kseg(s)); b };
            if e.name.len() < 2 { want.insert(mk("name"), kp.kids[0].pos); }
            if e.count > 10 { want.insert(mk("count"), kp.kids[1].pos); }
            if e.max_depth > 10 { want.insert(mk("max_depth"), kp.kids[2].pos); }
        }
        if !want.is_empty() { *nontrivial += 1; }
        for (variant, krate, got) in [
            ("from_str_valid<Renamed>", "garde", guard(|| serde_saphyr::from_str_valid::<RenamedRoot>(&text))),
            ("from_str_validate<Renamed>", "validator", guard(|| serde_saphyr::from_str_validate::<RenamedRoot>(&text))),
        ] {
            cx.calls += 1;
            cx.sink.count(&format!("oracle.call.{variant}"));
            match got {
                Outcome::Panic => cx.fail("C18-panic", &format!("{variant} panicked"), &text, "panic".into(), "no panic".into()),
                Outcome::Ok(g) => {
                    if !want.is_empty() { cx.fail("C18-not-validation-error", &format!("{variant}: Ok although constraints are violated"), &text, "Ok".into(), "validation error".into()); }
                    else if &g != v { cx.fail("C18-valid-ne-plain", &format!("{variant}: value differs"), &text, format!("{g:?}"), format!("{v:?}")); }
                    else { cx.sink.count("oracle.renamed.pass_equal"); }
                }
                Outcome::Err(e) => {
                    if want.is_empty() { cx.fail("C18-valid-ne-plain", &format!("{variant}: error although validation passes"), &text, err_tok(&e), "Ok".into()); continue; }
                    let Some((k2, issues)) = issues_of(&e) else {
                        cx.fail("C18-not-validation-error", &format!("{variant}: not a validation error"), &text, err_tok(&e), "validation error".into());
                        continue;
                    };
                    let _ = (k2, krate);
                    let got: BTreeSet<RPath> = issues.iter().map(|(p, _)| p.clone()).collect();
                    let wantset: BTreeSet<RPath> = want.keys().cloned().collect();
                    if got != wantset {
                        cx.fail("C18-issue-set-mismatch", &format!("{variant}: reported paths differ from the violated constraints"), &text, format!("{:?}", got.iter().map(rpath_str).collect::<Vec<_>>()), format!("{:?}", wantset.iter().map(rpath_str).collect::<Vec<_>>()));
                    }
                    for (path, found) in &issues {
                        let Some(pos) = want.get(path) else { continue };
                        let leaf_is_unrelated = path.last().map(|s| s.1 != "max_depth").unwrap_or(false);
                        let id = if leaf_is_unrelated { "C18-rename-unresolvable" } else { "C18-path-unresolved" };
                        match found {
                            None => cx.fail(id, &format!("{variant}: reported path `{}` (field renamed with #[serde(rename)]) does not resolve", rpath_str(path)), &text, "none".into(), format!("{pos:?}")),
                            Some((r, _, _)) => {
                                if (r.0 as u32, r.1 as u32) != *pos {
                                    cx.fail(if leaf_is_unrelated { "C18-rename-unresolvable" } else { "C18-path-wrong-use-site" }, &format!("{variant}: `{}` resolves to the wrong position", rpath_str(path)), &text, format!("{r:?}"), format!("{pos:?}"));
                                } else {
                                    cx.sink.count("oracle.renamed.located");
                                }
                            }
                        }
                    }
                }
            }
        }
    }
}

// ------------------------------------------------------------------------------------------------
// document isolation family: one field with two accepted spellings, one `required` Option
// ------------------------------------------------------------------------------------------------

#[derive(Debug, Clone, PartialEq, Deserialize, garde::Validate, validator::Validate)]
#[serde(rename_all = "camelCase")]
pub struct IsoDoc {
    #[serde(alias = "display_name")]
    #[garde(length(min = 2))]
    #[validate(length(min = 2))]
    pub display_name: String,
    #[garde(required)]
    #[validate(required)]
    #[serde(default)]
    pub token: Option<String>,
    #[garde(range(max = 10))]
    #[validate(range(max = 10))]
    pub level: u32,
}

struct IsoExpect {
    text: String,
    start_line: u32,
    end_line: u32,
    /// Rust-name path -> expected use-site (None: the field is absent from the document)
    want: BTreeMap<RPath, Option<Pos>>,
}

/// Streams in which valid documents precede failing ones, the failing document spells `display_name`
/// differently from an earlier document (alias vs. renamed key) or omits `token` that an earlier
/// document had.
fn iso_checks(cx: &mut Ctx, rng: &mut Rng, n: usize, documents: &mut u64, nontrivial: &mut u64) {
    for round in 0..n {
        let k = 2 + rng.below(3);
        let mut text = String::new();
        let mut line = 1u32;
        let mut docs: Vec<IsoExpect> = Vec::new();
        for di in 0..k {
            // the first rounds are the two shapes named in the property's stream clause
            let (alias_spelling, name_bad, token_present, level_bad) = match (round, di) {
                (0, 0) => (true, false, true, false),
                (0, 1) => (false, true, true, false),
                (1, 0) => (false, false, true, false),
                (1, 1) => (false, false, false, false),
                _ => {
                    let last = di + 1 == k;
                    let bad = last || rng.chance(1, 3);
                    (rng.chance(1, 2), bad && rng.chance(1, 2), !(bad && rng.chance(1, 2)), bad && rng.chance(1, 3))
                }
            };
            if di > 0 { text.push_str("---\n"); line += 1; }
            let mut entries: Vec<(String, Y)> = Vec::new();
            let key = if alias_spelling { "display_name" } else { "displayName" };
            entries.push((key.into(), Y::Str { text: if name_bad { "x".into() } else { "fine".into() }, style: rng.below(3) as u8, anchor: None }));
            if token_present { entries.push(("token".into(), Y::Str { text: "tk".into(), style: 0, anchor: None })); }
            entries.push(("level".into(), Y::Num { v: if level_bad { 11 } else { 3 }, anchor: None }));
            if rng.chance(1, 2) { entries.reverse(); }
            let root = Y::Map { entries: entries.clone(), anchor: None, flow: false };
            let start_line = line;
            let mut w = W::new(line);
            let p = w.document(&root, &[]);
            line = w.line;
            text.push_str(&w.out);
            let mut want: BTreeMap<RPath, Option<Pos>> = BTreeMap::new();
            for ((kname, _), kp) in entries.iter().zip(&p.kids) {
                if (kname == "display_name" || kname == "displayName") && name_bad { want.insert(vec![kseg("display_name")], Some(kp.pos)); }
                if kname == "level" && level_bad { want.insert(vec![kseg("level")], Some(kp.pos)); }
            }
            if !token_present { want.insert(vec![kseg("token")], None); }
            docs.push(IsoExpect { text: w.out.clone(), start_line, end_line: line - 1, want });
        }
        *documents += k as u64;
        if docs.iter().any(|d| !d.want.is_empty()) { *nontrivial += 1; }
        let failing: Vec<usize> = (0..k).filter(|&i| !docs[i].want.is_empty()).collect();
        cx.sink.count(&format!("oracle.iso.failing_docs.{}", failing.len().min(4)));
        if failing.first().map(|&f| f > 0).unwrap_or(false) { cx.sink.count("oracle.iso.valid_doc_precedes_failing"); }
        let bytes = text.as_bytes();
        for krate in ["garde", "validator"] {
            // batch variants
            let batch: Vec<(&str, Outcome<Vec<IsoDoc>>)> = if krate == "garde" {
                vec![
                    ("from_multiple_valid<Iso>", guard(|| serde_saphyr::from_multiple_valid::<IsoDoc>(&text))),
                    ("from_multiple_with_options_valid<Iso>", guard(|| serde_saphyr::from_multiple_with_options_valid::<IsoDoc>(&text, opts(round % 3)))),
                    ("from_slice_multiple_with_options_valid<Iso>", guard(|| serde_saphyr::from_slice_multiple_with_options_valid::<IsoDoc>(bytes, opts(round % 3)))),
                ]
            } else {
                vec![
                    ("from_multiple_validate<Iso>", guard(|| serde_saphyr::from_multiple_validate::<IsoDoc>(&text))),
                    ("from_multiple_with_options_validate<Iso>", guard(|| serde_saphyr::from_multiple_with_options_validate::<IsoDoc>(&text, opts(round % 3)))),
                    ("from_slice_multiple_with_options_validate<Iso>", guard(|| serde_saphyr::from_slice_multiple_with_options_validate::<IsoDoc>(bytes, opts(round % 3)))),
                ]
            };
            for (variant, got) in batch {
                cx.calls += 1;
                cx.sink.count(&format!("oracle.call.{variant}"));
                match got {
                    Outcome::Panic => cx.fail("C18-panic", &format!("{variant} panicked"), &text, "panic".into(), "no panic".into()),
                    Outcome::Ok(vs) => {
                        if !failing.is_empty() { cx.fail("C18-multi-missing-doc", &format!("{variant}: Ok although documents {failing:?} violate constraints"), &text, "Ok".into(), "validation errors".into()); }
                        else if vs.len() != k { cx.fail("C18-valid-ne-plain", &format!("{variant}: number of values"), &text, vs.len().to_string(), k.to_string()); }
                        else { cx.sink.count("oracle.iso.pass"); }
                    }
                    Outcome::Err(e) => {
                        let inner: Option<&Vec<Error>> = match errs::unwrap_snippet(&e) {
                            Error::ValidationErrors { errors } if krate == "garde" => Some(errors),
                            Error::ValidatorErrors { errors } if krate == "validator" => Some(errors),
                            _ => None,
                        };
                        let Some(errors) = inner else {
                            cx.fail(if failing.is_empty() { "C18-valid-ne-plain" } else { "C18-not-validation-error" }, &format!("{variant}: unexpected error"), &text, err_tok(&e), "aggregate validation error".into());
                            continue;
                        };
                        if errors.len() != failing.len() {
                            cx.fail("C18-multi-missing-doc", &format!("{variant}: not every failing document is reported"), &text, errors.len().to_string(), failing.len().to_string());
                            continue;
                        }
                        for (err, &di) in errors.iter().zip(&failing) {
                            iso_check_doc(cx, variant, &text, err, &docs[di]);
                            check_isolation::<IsoDoc>(cx, variant, &text, err, krate, &docs[di].text, docs[di].start_line, docs[di].end_line);
                        }
                    }
                }
            }
            // iterator variants
            for with_opts in [false, true] {
                let variant = format!("{}{}<Iso>", if with_opts { "read_with_options_" } else { "read_" }, if krate == "garde" { "valid" } else { "validate" });
                cx.calls += 1;
                cx.sink.count(&format!("oracle.call.{variant}"));
                let mut r = std::io::Cursor::new(bytes);
                let res = catch_unwind(AssertUnwindSafe(|| -> Vec<Result<IsoDoc, Error>> {
                    match (krate, with_opts) {
                        ("garde", false) => serde_saphyr::read_valid::<_, IsoDoc>(&mut r).collect(),
                        ("garde", true) => serde_saphyr::read_with_options_valid::<_, IsoDoc>(&mut r, opts(round % 3)).collect(),
                        (_, false) => serde_saphyr::read_validate::<_, IsoDoc>(&mut r).collect(),
                        (_, true) => serde_saphyr::read_with_options_validate::<_, IsoDoc>(&mut r, opts(round % 3)).collect(),
                    }
                }));
                let Ok(items) = res else { cx.fail("C18-panic", &format!("{variant} panicked"), &text, "panic".into(), "no panic".into()); continue; };
                if items.len() != k {
                    cx.fail("C18-multi-missing-doc", &format!("{variant}: number of items"), &text, items.len().to_string(), k.to_string());
                    continue;
                }
                for (i, it) in items.iter().enumerate() {
                    match it {
                        Ok(_) => if !docs[i].want.is_empty() { cx.fail("C18-multi-missing-doc", &format!("{variant}: document {i} fails validation but is yielded as Ok"), &text, "Ok".into(), "validation error".into()); },
                        Err(e) => {
                            if docs[i].want.is_empty() { cx.fail("C18-valid-ne-plain", &format!("{variant}: item {i} is an error although validation passes"), &text, err_tok(e), "Ok".into()); }
                            else {
                                iso_check_doc(cx, &variant, &text, e, &docs[i]);
                                check_isolation::<IsoDoc>(cx, &variant, &text, e, krate, &docs[i].text, docs[i].start_line, docs[i].end_line);
                            }
                        }
                    }
                }
            }
        }
    }
}

/// the issues of one failing document of the isolation family against its expected positions
fn iso_check_doc(cx: &mut Ctx, variant: &str, text: &str, e: &Error, d: &IsoExpect) {
    let Some((_, issues)) = issues_of(e) else {
        cx.fail("C18-not-validation-error", &format!("{variant}: not a validation error"), text, err_tok(e), "validation error".into());
        return;
    };
    cx.sink.count("oracle.iso.doc_checked");
    let got: BTreeSet<RPath> = issues.iter().map(|(p, _)| p.clone()).collect();
    let want: BTreeSet<RPath> = d.want.keys().cloned().collect();
    if got != want {
        cx.fail("C18-issue-set-mismatch", &format!("{variant}: reported paths differ from the violated constraints"), text, format!("{:?}", got.iter().map(rpath_str).collect::<Vec<_>>()), format!("{:?}", want.iter().map(rpath_str).collect::<Vec<_>>()));
    }
    for (path, found) in &issues {
        let Some(w) = d.want.get(path) else { continue };
        let got_pos = found.as_ref().map(|(r, _, _)| (r.0 as u32, r.1 as u32));
        if got_pos == *w {
            cx.sink.count(if w.is_some() { "oracle.iso.located" } else { "oracle.iso.absent_field_has_no_location" });
            continue;
        }
        let outside = got_pos.map(|p| p.0 < d.start_line || p.0 > d.end_line).unwrap_or(false);
        let id = if outside || w.is_none() { "C18-multi-doc-isolation" } else if got_pos.is_none() { "C18-path-unresolved" } else { "C18-path-wrong-use-site" };
        cx.fail(id, &format!("{variant}: `{}` of the document at lines {}..{}", rpath_str(path), d.start_line, d.end_line), text, format!("{got_pos:?}"), format!("{w:?}"));
    }
}

// ------------------------------------------------------------------------------------------------
// streams
// ------------------------------------------------------------------------------------------------

fn multi_checks(cx: &mut Ctx, text: &str, rd: &[RenderedDoc], ov: usize, bom: bool) {
    let tag = if bom { "+bom" } else { "" };
    let bytes = text.as_bytes();
    let plain_d = guard(|| serde_saphyr::from_multiple::<Root>(text));
    let plain_o = guard(|| serde_saphyr::from_multiple_with_options::<Root>(text, opts(ov)));
    if let Outcome::Ok(values) = &plain_d {
        if values.len() != rd.len() {
            cx.fail("C18-harness-self-check", "from_multiple returned a different number of documents", text, values.len().to_string(), rd.len().to_string());
            return;
        }
    } else {
        cx.sink.count("oracle.stream.does_not_deserialize");
    }
    for krate in ["garde", "validator"] {
        let batch_variants: Vec<(String, bool, Outcome<Vec<Root>>)> = if krate == "garde" {
            vec![
                (format!("from_multiple_valid{tag}"), false, guard(|| serde_saphyr::from_multiple_valid::<Root>(text))),
                (format!("from_multiple_with_options_valid{tag}"), true, guard(|| serde_saphyr::from_multiple_with_options_valid::<Root>(text, opts(ov)))),
                (format!("from_slice_multiple_with_options_valid{tag}"), true, guard(|| serde_saphyr::from_slice_multiple_with_options_valid::<Root>(bytes, opts(ov)))),
            ]
        } else {
            vec![
                (format!("from_multiple_validate{tag}"), false, guard(|| serde_saphyr::from_multiple_validate::<Root>(text))),
                (format!("from_multiple_with_options_validate{tag}"), true, guard(|| serde_saphyr::from_multiple_with_options_validate::<Root>(text, opts(ov)))),
                (format!("from_slice_multiple_with_options_validate{tag}"), true, guard(|| serde_saphyr::from_slice_multiple_with_options_validate::<Root>(bytes, opts(ov)))),
            ]
        };
        for (variant, with_opts, got) in batch_variants {
            cx.calls += 1;
            cx.sink.count(&format!("oracle.call.{variant}"));
            let plain = if with_opts { &plain_o } else { &plain_d };
            let values = match plain {
                Outcome::Ok(v) => v,
                Outcome::Err(pe) => {
                    // a document does not deserialize: both must fail with the same error
                    match &got {
                        Outcome::Err(ge) if err_tok(ge) == err_tok(pe) => cx.sink.count("oracle.stream.deser_error_both"),
                        Outcome::Err(ge) => cx.fail("C18-deser-error-mismatch", &format!("{variant}: stream with a document that does not deserialize"), text, err_tok(ge), err_tok(pe)),
                        Outcome::Ok(_) => cx.fail("C18-valid-ne-plain", &format!("{variant}: Ok although from_multiple fails"), text, "Ok".into(), err_tok(pe)),
                        Outcome::Panic => cx.fail("C18-panic", &format!("{variant} panicked"), text, "panic".into(), "no panic".into()),
                    }
                    continue;
                }
                Outcome::Panic => { cx.fail("C18-panic", "from_multiple panicked", text, "panic".into(), "no panic".into()); continue; }
            };
            let per_doc: Vec<BTreeSet<RPath>> = values.iter().map(|v| violations(v, krate == "garde")).collect();
            let failing: Vec<usize> = (0..values.len()).filter(|&i| !per_doc[i].is_empty()).collect();
            if !with_opts { cx.sink.count(&format!("oracle.stream.{krate}.failing_docs.{}", failing.len().min(4))); }
            match got {
                Outcome::Panic => cx.fail("C18-panic", &format!("{variant} panicked"), text, "panic".into(), "no panic".into()),
                Outcome::Ok(vs) => {
                    if !failing.is_empty() {
                        cx.fail("C18-multi-missing-doc", &format!("{variant}: Ok although documents {:?} violate constraints", failing), text, "Ok".into(), format!("{} validation errors", failing.len()));
                    } else if &vs != values {
                        cx.fail("C18-valid-ne-plain", &format!("{variant}: values differ from from_multiple"), text, format!("{} values", vs.len()), format!("{} values", values.len()));
                    } else {
                        cx.sink.count("oracle.stream.pass_equal");
                    }
                }
                Outcome::Err(e) => {
                    if failing.is_empty() {
                        cx.fail("C18-valid-ne-plain", &format!("{variant}: error although every document passes"), text, err_tok(&e), "Ok".into());
                        continue;
                    }
                    let inner: Option<&Vec<Error>> = match errs::unwrap_snippet(&e) {
                        Error::ValidationErrors { errors } if krate == "garde" => Some(errors),
                        Error::ValidatorErrors { errors } if krate == "validator" => Some(errors),
                        _ => None,
                    };
                    let Some(errors) = inner else {
                        cx.fail("C18-not-validation-error", &format!("{variant}: documents {:?} fail validation but the error is not the aggregate validation error", failing), text, err_tok(&e), "ValidationErrors/ValidatorErrors".into());
                        continue;
                    };
                    if errors.len() != failing.len() {
                        cx.fail("C18-multi-missing-doc", &format!("{variant}: not every failing document is reported"), text, format!("{} entries", errors.len()), format!("{} entries (documents {:?})", failing.len(), failing));
                        continue;
                    }
                    cx.sink.count("oracle.stream.fail_checked");
                    if failing.len() >= 2 { cx.sink.count("oracle.stream.fail_checked_2plus"); }
                    for (err, &di) in errors.iter().zip(&failing) {
                        check_issues(cx, &variant, text, err, krate, &per_doc[di], &rd[di].exp);
                        check_isolation::<Root>(cx, &variant, text, err, krate, &rd[di].text, rd[di].start_line, rd[di].end_line);
                        // the map handed to document di's error vs. the model of document di's traversal alone
                        if !with_opts && !bom {
                            if let Some(tok) = error_map_tok(err) {
                                cx.sink.case(&format!("pathmap rec {}", rd[di].visit), &tok);
                                cx.sink.count("rec.stream_error_maps");
                            }
                        }
                    }
                }
            }
        }
        // iterators
        for with_opts in [false, true] {
            let plain_items: Vec<Result<Root, Error>> = {
                let mut r = std::io::Cursor::new(bytes);
                let res = catch_unwind(AssertUnwindSafe(|| -> Vec<Result<Root, Error>> {
                    if with_opts { serde_saphyr::read_with_options::<_, Root>(&mut r, opts(ov)).collect() } else { serde_saphyr::read::<_, Root>(&mut r).collect() }
                }));
                match res {
                    Ok(v) => v,
                    Err(_) => { cx.fail("C18-panic", "read panicked", text, "panic".into(), "no panic".into()); continue; }
                }
            };
            let variant = format!("{}{}{tag}", if with_opts { "read_with_options_" } else { "read_" }, if krate == "garde" { "valid" } else { "validate" });
            cx.calls += 1;
            cx.sink.count(&format!("oracle.call.{variant}"));
            let items: Vec<Result<Root, Error>> = {
                let mut r = std::io::Cursor::new(bytes);
                let res = catch_unwind(AssertUnwindSafe(|| -> Vec<Result<Root, Error>> {
                    match (krate, with_opts) {
                        ("garde", false) => serde_saphyr::read_valid::<_, Root>(&mut r).collect(),
                        ("garde", true) => serde_saphyr::read_with_options_valid::<_, Root>(&mut r, opts(ov)).collect(),
                        (_, false) => serde_saphyr::read_validate::<_, Root>(&mut r).collect(),
                        (_, true) => serde_saphyr::read_with_options_validate::<_, Root>(&mut r, opts(ov)).collect(),
                    }
                }));
                match res {
                    Ok(v) => v,
                    Err(_) => { cx.fail("C18-panic", &format!("{variant} panicked"), text, "panic".into(), "no panic".into()); continue; }
                }
            };
            if items.len() != plain_items.len() {
                cx.fail("C18-multi-missing-doc", &format!("{variant}: number of items differs from read()"), text, items.len().to_string(), plain_items.len().to_string());
                continue;
            }
            for (i, (it, pl)) in items.iter().zip(&plain_items).enumerate() {
                match (pl, it) {
                    (Ok(pv), got) => {
                        let want = violations(pv, krate == "garde");
                        match got {
                            Ok(v) => {
                                if !want.is_empty() {
                                    cx.fail("C18-multi-missing-doc", &format!("{variant}: document {i} fails validation but is yielded as Ok"), text, "Ok".into(), "validation error".into());
                                } else if pv != v {
                                    cx.fail("C18-valid-ne-plain", &format!("{variant}: item {i} differs from read()"), text, format!("{:?}", v), format!("{:?}", pv));
                                } else {
                                    cx.sink.count("oracle.iter.pass_equal");
                                }
                            }
                            Err(e) => {
                                if want.is_empty() {
                                    cx.fail("C18-valid-ne-plain", &format!("{variant}: item {i} is an error although validation passes"), text, err_tok(e), "Ok".into());
                                } else if i < rd.len() && items.len() == rd.len() {
                                    cx.sink.count("oracle.iter.fail_checked");
                                    check_issues(cx, &variant, text, e, krate, &want, &rd[i].exp);
                                    check_isolation::<Root>(cx, &variant, text, e, krate, &rd[i].text, rd[i].start_line, rd[i].end_line);
                                    if !with_opts && !bom {
                                        if let Some(tok) = error_map_tok(e) {
                                            cx.sink.case(&format!("pathmap rec {}", rd[i].visit), &tok);
                                            cx.sink.count("rec.iter_error_maps");
                                        }
                                    }
                                }
                            }
                        }
                    }
                    (Err(pe), Err(e)) => {
                        cx.sink.count("oracle.iter.deser_error_both");
                        if err_tok(pe) != err_tok(e) {
                            cx.fail("C18-deser-error-mismatch", &format!("{variant}: item {i}"), text, err_tok(e), err_tok(pe));
                        }
                    }
                    (Err(pe), Ok(_)) => cx.fail("C18-valid-ne-plain", &format!("{variant}: item {i} Ok although read() fails"), text, "Ok".into(), err_tok(pe)),
                }
            }
        }
    }
}

// ------------------------------------------------------------------------------------------------
// keys the target type consumes stay recorded: map entries, flattened content, serde aliases
// ------------------------------------------------------------------------------------------------

#[derive(Debug, Clone, PartialEq, Deserialize, garde::Validate)]
pub struct Extra {
    #[garde(range(max = 10))]
    pub level: u32,
}

#[derive(Debug, Clone, PartialEq, Deserialize, garde::Validate)]
pub struct Conf {
    #[garde(length(min = 2))]
    pub name: String,
    #[serde(flatten)]
    #[garde(dive)]
    pub extra: Extra,
    #[garde(dive)]
    pub stock: std::collections::HashMap<String, Item>,
    #[serde(alias = "nickName")]
    #[garde(length(min = 2))]
    pub nick: String,
}

/// Fixed documents (positions written out by hand): values reached through a `HashMap` entry, a
/// `#[serde(flatten)]` parent and a `#[serde(alias)]` key are consumed by the type and must stay in
/// the path map; the unknown key `other` inside a map value must not.
fn consumed_keys_checks(cx: &mut Ctx, documents: &mut u64) {
    let text = "name: x\nlevel: 50\nstock:\n  widget: {name: w, qty: 500, unitPrice: 1, other: 3}\n  Name: {name: ok, qty: 1, unitPrice: 1}\nnickName: n\n";
    *documents += 1;
    cx.calls += 1;
    cx.sink.count("oracle.call.from_str_valid<Conf>");
    match guard(|| h::record::<Conf>(text, Options::default())) {
        Outcome::Ok(r) => {
            let keys: BTreeSet<String> = h::dump(&r.map).iter().map(|(p, _, _)| h::render(p)).collect();
            for must in ["name", "level", "stock.widget.qty", "stock.Name.name", "nickName"] {
                if !keys.contains(must) {
                    cx.fail("C18-path-unresolved", &format!("consumed key `{must}` (map entry / flattened / alias) is missing from the path map"), text, format!("{keys:?}"), must.into());
                }
            }
            if keys.contains("stock.widget.other") {
                cx.fail("C18-decoy-key-shadows-field", "a key ignored by the target type is recorded in the path map", text, "stock.widget.other".into(), "absent".into());
            }
        }
        _ => cx.fail("C18-harness-self-check", "Conf document does not deserialize", text, "error".into(), "Ok".into()),
    }
    let plain = guard(|| serde_saphyr::from_str::<Conf>(text));
    match (plain, guard(|| serde_saphyr::from_str_valid::<Conf>(text))) {
        (Outcome::Ok(_), Outcome::Err(e)) => {
            let want: BTreeMap<&str, Pos> = [("name", (1u32, 7u32)), ("stock.widget.name", (4, 18)), ("stock.widget.qty", (4, 26))].into_iter().collect();
            match issues_of(&e) {
                Some((_, issues)) => {
                    for (p, f) in &issues {
                        let key = h::render(p);
                        let Some(pos) = want.get(key.as_str()) else { continue };
                        match f {
                            Some((r, _, _)) if (r.0 as u32, r.1 as u32) == *pos => cx.sink.count("oracle.consumed.located"),
                            Some((r, _, _)) => cx.fail("C18-path-wrong-use-site", &format!("from_str_valid<Conf>: `{key}`"), text, format!("{r:?}"), format!("{pos:?}")),
                            None => cx.fail("C18-path-unresolved", &format!("from_str_valid<Conf>: `{key}` does not resolve"), text, "none".into(), format!("{pos:?}")),
                        }
                    }
                    let got: BTreeSet<String> = issues.iter().map(|(p, _)| h::render(p)).collect();
                    for k in want.keys() {
                        if !got.contains(*k) { cx.fail("C18-issue-set-mismatch", "from_str_valid<Conf>: expected issue missing", text, format!("{got:?}"), k.to_string()); }
                    }
                }
                None => cx.fail("C18-not-validation-error", "from_str_valid<Conf>", text, err_tok(&e), "validation error".into()),
            }
        }
        _ => cx.fail("C18-harness-self-check", "Conf: expected plain Ok and validation error", text, "other".into(), "Ok / Err".into()),
    }
}
