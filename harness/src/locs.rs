//! C16 — reported locations are consistent with the input and name the right node.
//!
//! * differential (`locs.ops` / `locs.impl`): `posOf` (marks of the real parser vs the model's walk over
//!   the text), the end-of-stream mark, `location_from_span` / `from_scan_error` (through the hook, also on
//!   synthetic marks around the `u32` boundary), and the span-carrying deserialization
//!   (`Spanned<…>` at every node, alias / merge attribution, located type errors) vs the Lean model run on
//!   the real parser's items;
//! * oracle (`locs.oracle.jsonl`, implementation only): every reported location is recomputed from the
//!   text by this module, which knows where it rendered every node.
use crate::proto::*;
use crate::tyseed::{Seed, Ty, Val};
use crate::Args;
use serde::de::{self, DeserializeSeed, Deserializer, MapAccess, SeqAccess, Visitor};
use serde::Deserialize;
use serde_saphyr::{Location, Spanned};
use std::cell::RefCell;
use std::collections::{BTreeMap, BTreeSet};
use std::fmt;

pub fn run(mode: &str, a: &Args) -> i32 {
    match mode {
        "gen" => match catch(|| generate(a)) {
            Ok(c) => c,
            Err(msg) => { eprintln!("locs: harness panic: {msg}"); 3 }
        },
        _ => 2,
    }
}

// =====================================================================================================
// run-time type descriptions with span-carrying wrappers
// =====================================================================================================

#[derive(Clone, Debug, PartialEq)]
pub enum STy {
    Leaf(Ty),
    Spanned(Box<STy>),
    Option(Box<STy>),
    Seq(Box<STy>),
    /// map with untyped keys, entries in delivery order
    Map(Box<STy>),
    /// derived struct, unknown fields ignored
    Struct(Vec<(&'static str, STy)>),
    /// `deserialize_any`: scalars as the untyped target, children are `Spanned<TreeInner>`
    TreeInner,
    /// `std::num::NonZero{U,I}{bits}` (signed, bits): the consumer that raises a Serde error WITHOUT location
    /// (`invalid_value` for 0) at the node itself
    NonZero(bool, u32),
}

pub fn tree() -> STy {
    STy::Spanned(Box::new(STy::TreeInner))
}

#[derive(Clone, Debug, PartialEq)]
pub enum SVal {
    Leaf(Val),
    Spanned(Location, Location, Box<SVal>),
    None,
    Some(Box<SVal>),
    Seq(Vec<SVal>),
    Map(Vec<(Val, SVal)>),
    Struct(Vec<(String, SVal)>),
}

impl STy {
    pub fn tokens(&self) -> String {
        match self {
            STy::Leaf(t) => format!("L {}", t.tokens()),
            STy::Spanned(t) => format!("P {}", t.tokens()),
            STy::Option(t) => format!("O {}", t.tokens()),
            STy::Seq(t) => format!("Q {}", t.tokens()),
            STy::Map(t) => format!("M {}", t.tokens()),
            STy::Struct(fs) => format!("T {}{}", fs.len(), fs.iter().map(|(n, t)| format!(" {} {}", hex(n), t.tokens())).collect::<String>()),
            STy::TreeInner => "R".into(),
            STy::NonZero(s, bits) => format!("Z {} {bits}", b(*s)),
        }
    }
}

/// `L<line>.<col>.<off>.<len>.<byte off|->.<byte len|->` — everything the public API of `Location` shows
pub fn loc_tok(l: &Location) -> String {
    let s = l.span();
    let o = |x: Option<u64>| x.map(|v| v.to_string()).unwrap_or_else(|| "-".into());
    format!("L{}.{}.{}.{}.{}.{}", l.line(), l.column(), s.offset(), s.len(), o(s.byte_offset()), o(s.byte_len()))
}

impl SVal {
    pub fn tokens(&self) -> String {
        match self {
            SVal::Leaf(v) => format!("l {}", v.tokens()),
            SVal::Spanned(r, d, v) => format!("p {} {} {}", loc_tok(r), loc_tok(d), v.tokens()),
            SVal::None => "n".into(),
            SVal::Some(v) => format!("o {}", v.tokens()),
            SVal::Seq(vs) => format!("q {}{}", vs.len(), vs.iter().map(|v| format!(" {}", v.tokens())).collect::<String>()),
            SVal::Map(es) => format!("m {}{}", es.len(), es.iter().map(|(k, v)| format!(" {} {}", k.tokens(), v.tokens())).collect::<String>()),
            SVal::Struct(fs) => format!("t {}{}", fs.len(), fs.iter().map(|(n, v)| format!(" {} {}", hex(n), v.tokens())).collect::<String>()),
        }
    }
}

thread_local! {
    /// types waiting for `DynS::deserialize` (the real `Spanned<T>` needs a static `T`)
    static STACK: RefCell<Vec<STy>> = const { RefCell::new(Vec::new()) };
}

struct DynS(SVal);
impl<'de> Deserialize<'de> for DynS {
    fn deserialize<D: Deserializer<'de>>(d: D) -> Result<Self, D::Error> {
        let ty = STACK.with(|s| s.borrow_mut().pop()).expect("locs::STACK");
        SSeed(&ty).deserialize(d).map(DynS)
    }
}

pub struct SSeed<'a>(pub &'a STy);

struct Ident;
impl<'de> DeserializeSeed<'de> for Ident {
    type Value = String;
    fn deserialize<D: Deserializer<'de>>(self, d: D) -> Result<String, D::Error> {
        struct IV;
        impl<'de> Visitor<'de> for IV {
            type Value = String;
            fn expecting(&self, f: &mut fmt::Formatter) -> fmt::Result { f.write_str("field identifier") }
            fn visit_str<E: de::Error>(self, v: &str) -> Result<String, E> { Ok(v.to_string()) }
            fn visit_bytes<E: de::Error>(self, v: &[u8]) -> Result<String, E> { Ok(String::from_utf8_lossy(v).to_string()) }
            fn visit_u64<E: de::Error>(self, v: u64) -> Result<String, E> { Ok(format!("#{v}")) }
        }
        d.deserialize_identifier(IV)
    }
}

struct SV<'a>(&'a STy);

impl<'de, 'a> DeserializeSeed<'de> for SSeed<'a> {
    type Value = SVal;
    fn deserialize<D: Deserializer<'de>>(self, d: D) -> Result<SVal, D::Error> {
        match self.0 {
            STy::Leaf(t) => Seed(t).deserialize(d).map(SVal::Leaf),
            STy::Spanned(inner) => {
                let depth = STACK.with(|s| { let mut s = s.borrow_mut(); s.push((**inner).clone()); s.len() - 1 });
                let r = Spanned::<DynS>::deserialize(d);
                STACK.with(|s| s.borrow_mut().truncate(depth));
                r.map(|sp| SVal::Spanned(sp.referenced, sp.defined, Box::new(sp.value.0)))
            }
            STy::Option(_) => d.deserialize_option(SV(self.0)),
            STy::Seq(_) => d.deserialize_seq(SV(self.0)),
            STy::Map(_) => d.deserialize_map(SV(self.0)),
            STy::Struct(fs) => {
                let names: Vec<&'static str> = fs.iter().map(|f| f.0).collect();
                d.deserialize_struct("S", Box::leak(names.into_boxed_slice()), SV(self.0))
            }
            STy::TreeInner => d.deserialize_any(SV(self.0)),
            STy::NonZero(signed, bits) => {
                use std::num::*;
                macro_rules! nz { ($t:ty) => { <$t>::deserialize(d).map(|v| SVal::Leaf(Val::Int(v.get() as i128))) } }
                match (*signed, *bits) {
                    (false, 8) => nz!(NonZeroU8), (false, 16) => nz!(NonZeroU16), (false, 32) => nz!(NonZeroU32), (false, 64) => nz!(NonZeroU64),
                    (true, 8) => nz!(NonZeroI8), (true, 16) => nz!(NonZeroI16), (true, 32) => nz!(NonZeroI32), (true, 64) => nz!(NonZeroI64),
                    _ => Err(de::Error::custom("locs: unsupported NonZero width")),
                }
            }
        }
    }
}

impl<'de, 'a> Visitor<'de> for SV<'a> {
    type Value = SVal;
    fn expecting(&self, f: &mut fmt::Formatter) -> fmt::Result { write!(f, "{:?}", self.0) }
    fn visit_none<E: de::Error>(self) -> Result<SVal, E> {
        match self.0 { STy::Option(_) => Ok(SVal::None), STy::TreeInner => Ok(SVal::Leaf(Val::None)), _ => Err(de::Error::invalid_type(de::Unexpected::Option, &self)) }
    }
    fn visit_unit<E: de::Error>(self) -> Result<SVal, E> {
        match self.0 { STy::Option(_) => Ok(SVal::None), STy::TreeInner => Ok(SVal::Leaf(Val::Unit)), _ => Err(de::Error::invalid_type(de::Unexpected::Unit, &self)) }
    }
    fn visit_some<D: Deserializer<'de>>(self, d: D) -> Result<SVal, D::Error> {
        match self.0 {
            STy::Option(t) => Ok(SVal::Some(Box::new(SSeed(t).deserialize(d)?))),
            _ => Err(de::Error::invalid_type(de::Unexpected::Option, &self)),
        }
    }
    fn visit_bool<E: de::Error>(self, v: bool) -> Result<SVal, E> { self.scalar(Val::Bool(v)) }
    fn visit_i64<E: de::Error>(self, v: i64) -> Result<SVal, E> { self.scalar(Val::Int(v as i128)) }
    fn visit_u64<E: de::Error>(self, v: u64) -> Result<SVal, E> { self.scalar(Val::Int(v as i128)) }
    fn visit_i128<E: de::Error>(self, v: i128) -> Result<SVal, E> { self.scalar(Val::Int(v)) }
    fn visit_u128<E: de::Error>(self, v: u128) -> Result<SVal, E> { self.scalar(Val::Int(v as i128)) }
    fn visit_f64<E: de::Error>(self, v: f64) -> Result<SVal, E> { self.scalar(Val::F64(v.to_bits())) }
    fn visit_f32<E: de::Error>(self, v: f32) -> Result<SVal, E> { self.scalar(Val::F32(v.to_bits())) }
    fn visit_char<E: de::Error>(self, v: char) -> Result<SVal, E> { self.scalar(Val::Char(v)) }
    fn visit_str<E: de::Error>(self, v: &str) -> Result<SVal, E> { self.scalar(Val::Str(v.to_string())) }
    fn visit_byte_buf<E: de::Error>(self, v: Vec<u8>) -> Result<SVal, E> { self.scalar(Val::Bytes(v)) }
    fn visit_bytes<E: de::Error>(self, v: &[u8]) -> Result<SVal, E> { self.scalar(Val::Bytes(v.to_vec())) }
    fn visit_seq<A: SeqAccess<'de>>(self, mut seq: A) -> Result<SVal, A::Error> {
        let tr = tree();
        let elem: &STy = match self.0 {
            STy::Seq(t) => t,
            STy::TreeInner => &tr,
            _ => return Err(de::Error::invalid_type(de::Unexpected::Seq, &self)),
        };
        let mut out = Vec::new();
        while let Some(v) = seq.next_element_seed(SSeed(elem))? {
            out.push(v);
        }
        Ok(SVal::Seq(out))
    }
    fn visit_map<A: MapAccess<'de>>(self, mut map: A) -> Result<SVal, A::Error> {
        let tr = tree();
        match self.0 {
            STy::Map(_) | STy::TreeInner => {
                let vt: &STy = match self.0 { STy::Map(t) => t, _ => &tr };
                let mut out = Vec::new();
                while let Some(k) = map.next_key_seed(Seed(&Ty::Any))? {
                    let v = map.next_value_seed(SSeed(vt))?;
                    out.push((k, v));
                }
                Ok(SVal::Map(out))
            }
            STy::Struct(fs) => {
                let mut got: Vec<Option<SVal>> = vec![None; fs.len()];
                while let Some(key) = map.next_key_seed(Ident)? {
                    match fs.iter().position(|f| f.0 == key) {
                        Some(i) => {
                            if got[i].is_some() {
                                return Err(de::Error::duplicate_field(fs[i].0));
                            }
                            got[i] = Some(map.next_value_seed(SSeed(&fs[i].1))?);
                        }
                        None => {
                            let _ = map.next_value::<de::IgnoredAny>()?;
                        }
                    }
                }
                let mut out = Vec::new();
                for (i, (n, t)) in fs.iter().enumerate() {
                    match got[i].take() {
                        Some(v) => out.push((n.to_string(), v)),
                        None => match t {
                            STy::Option(_) => out.push((n.to_string(), SVal::None)),
                            _ => return Err(de::Error::missing_field(n)),
                        },
                    }
                }
                Ok(SVal::Struct(out))
            }
            _ => Err(de::Error::invalid_type(de::Unexpected::Map, &self)),
        }
    }
}

impl<'a> SV<'a> {
    fn scalar<E: de::Error>(self, v: Val) -> Result<SVal, E> {
        match self.0 {
            STy::TreeInner => Ok(SVal::Leaf(v)),
            _ => Err(de::Error::invalid_type(de::Unexpected::Other("scalar"), &self)),
        }
    }
}

// =====================================================================================================
// a fixed family of real derived types with `Spanned` fields (the seeds are cross-checked against it)
// =====================================================================================================

#[derive(Debug, Deserialize)]
struct RC {
    p: Spanned<i32>,
    q: Spanned<String>,
}
#[derive(Debug, Deserialize)]
struct RB {
    x: Spanned<Option<i64>>,
    y: Vec<RC>,
    z: Option<Spanned<char>>,
}
#[derive(Debug, Deserialize)]
struct RA {
    a: Spanned<i32>,
    b: Spanned<String>,
    c: Option<Spanned<bool>>,
    d: Vec<Spanned<f64>>,
    e: BTreeMap<String, Spanned<u8>>,
    f: Spanned<Vec<Spanned<char>>>,
    g: Spanned<RB>,
    h: Vec<i32>,
}

fn sp(t: STy) -> STy { STy::Spanned(Box::new(t)) }
fn leaf(t: Ty) -> STy { STy::Leaf(t) }
fn rc_ty() -> STy { STy::Struct(vec![("p", sp(leaf(Ty::Int(true, 32)))), ("q", sp(leaf(Ty::Str)))]) }
fn rb_ty() -> STy {
    STy::Struct(vec![
        ("x", sp(STy::Option(Box::new(leaf(Ty::Int(true, 64)))))),
        ("y", STy::Seq(Box::new(rc_ty()))),
        ("z", STy::Option(Box::new(sp(leaf(Ty::Char))))),
    ])
}
pub fn ra_ty() -> STy {
    STy::Struct(vec![
        ("a", sp(leaf(Ty::Int(true, 32)))),
        ("b", sp(leaf(Ty::Str))),
        ("c", STy::Option(Box::new(sp(leaf(Ty::Bool))))),
        ("d", STy::Seq(Box::new(sp(leaf(Ty::Float(64)))))),
        ("e", STy::Map(Box::new(sp(leaf(Ty::Int(false, 8)))))),
        ("f", sp(STy::Seq(Box::new(sp(leaf(Ty::Char)))))),
        ("g", sp(rb_ty())),
        ("h", STy::Seq(Box::new(leaf(Ty::Int(true, 32))))),
    ])
}

fn spv<T>(s: &Spanned<T>, f: impl Fn(&T) -> SVal) -> SVal { SVal::Spanned(s.referenced, s.defined, Box::new(f(&s.value))) }
fn rc_val(v: &RC) -> SVal {
    SVal::Struct(vec![("p".into(), spv(&v.p, |x| SVal::Leaf(Val::Int(*x as i128)))), ("q".into(), spv(&v.q, |x| SVal::Leaf(Val::Str(x.clone()))))])
}
fn rb_val(v: &RB) -> SVal {
    SVal::Struct(vec![
        ("x".into(), spv(&v.x, |o| match o { None => SVal::None, Some(i) => SVal::Some(Box::new(SVal::Leaf(Val::Int(*i as i128)))) })),
        ("y".into(), SVal::Seq(v.y.iter().map(rc_val).collect())),
        ("z".into(), match &v.z { None => SVal::None, Some(s) => SVal::Some(Box::new(spv(s, |c| SVal::Leaf(Val::Char(*c))))) }),
    ])
}
fn ra_val(v: &RA) -> SVal {
    SVal::Struct(vec![
        ("a".into(), spv(&v.a, |x| SVal::Leaf(Val::Int(*x as i128)))),
        ("b".into(), spv(&v.b, |x| SVal::Leaf(Val::Str(x.clone())))),
        ("c".into(), match &v.c { None => SVal::None, Some(s) => SVal::Some(Box::new(spv(s, |b| SVal::Leaf(Val::Bool(*b))))) }),
        ("d".into(), SVal::Seq(v.d.iter().map(|s| spv(s, |x| SVal::Leaf(Val::F64(x.to_bits())))).collect())),
        ("e".into(), SVal::Map(v.e.iter().map(|(k, s)| (Val::Str(k.clone()), spv(s, |x| SVal::Leaf(Val::Int(*x as i128))))).collect())),
        ("f".into(), spv(&v.f, |xs| SVal::Seq(xs.iter().map(|s| spv(s, |c| SVal::Leaf(Val::Char(*c)))).collect()))),
        ("g".into(), spv(&v.g, rb_val)),
        ("h".into(), SVal::Seq(v.h.iter().map(|x| SVal::Leaf(Val::Int(*x as i128))).collect())),
    ])
}

/// maps are compared as sets of entries (the derived type uses a `BTreeMap`)
fn normalize(v: &SVal) -> SVal {
    match v {
        SVal::Spanned(r, d, x) => SVal::Spanned(*r, *d, Box::new(normalize(x))),
        SVal::Some(x) => SVal::Some(Box::new(normalize(x))),
        SVal::Seq(xs) => SVal::Seq(xs.iter().map(normalize).collect()),
        SVal::Struct(fs) => SVal::Struct(fs.iter().map(|(n, x)| (n.clone(), normalize(x))).collect()),
        SVal::Map(es) => {
            let mut es: Vec<(Val, SVal)> = es.iter().map(|(k, x)| (k.clone(), normalize(x))).collect();
            es.sort_by_key(|(k, _)| k.tokens());
            SVal::Map(es)
        }
        other => other.clone(),
    }
}

// =====================================================================================================
// documents: node trees, rendering with recorded positions
// =====================================================================================================

#[derive(Clone, Debug)]
pub enum Key {
    /// a plain / quoted scalar key (text, style)
    K(String, u8),
    Merge,
}

#[derive(Clone, Debug)]
pub enum N {
    /// style: 0 plain, 1 single-quoted, 2 double-quoted, 3 literal block
    Scalar { id: usize, text: String, style: u8, anchor: Option<String> },
    Seq { id: usize, anchor: Option<String>, items: Vec<N>, flow: bool },
    Map { id: usize, anchor: Option<String>, entries: Vec<(Key, N)>, flow: bool },
    Alias { id: usize, name: String },
}

impl N {
    fn id(&self) -> usize {
        match self { N::Scalar { id, .. } | N::Seq { id, .. } | N::Map { id, .. } | N::Alias { id, .. } => *id }
    }
    fn anchor(&self) -> Option<&String> {
        match self { N::Scalar { anchor, .. } | N::Seq { anchor, .. } | N::Map { anchor, .. } => anchor.as_ref(), N::Alias { .. } => None }
    }
}

/// what the renderer recorded for one node
#[derive(Clone, Debug, Default)]
pub struct Info {
    /// char offset of the node's start as the parser is expected to report it (BOM-stripped text)
    pub start: Option<usize>,
    /// source text of a scalar / alias token (exactly the characters the span must cover); `None` = not checked
    pub src: Option<String>,
    /// an empty (implicit null) scalar: the position of "nothing" is not fixed by the text
    pub empty: bool,
}

#[derive(Clone, Copy, Debug)]
pub struct Layout {
    /// weights for LF, CRLF, CR
    pub breaks: [usize; 3],
    pub comments: bool,
    pub tabs: bool,
    pub bom: bool,
    pub doc_start: bool,
    pub final_break: bool,
    /// 0 none, 1 `%YAML 1.2`, 2 reserved directive (ASCII), 3 reserved directive with multi-byte characters
    pub directive: u8,
}

struct W<'r> {
    out: String,
    chars: usize,
    info: Vec<Info>,
    lay: Layout,
    rng: &'r mut Rng,
}

const COMMENTS: [&str; 6] = ["# c", "# é commentaire", "#日本 語", "# 😀 tab\there", "#", "# : - [ {"];

impl<'r> W<'r> {
    fn push(&mut self, s: &str) {
        self.out.push_str(s);
        self.chars += s.chars().count();
    }
    fn nl(&mut self) {
        let [a, b, c] = self.lay.breaks;
        let r = self.rng.below(a + b + c);
        if r < a { self.push("\n") } else if r < a + b { self.push("\r\n") } else { self.push("\r") }
    }
    /// end of a block line: optional trailing comment, then a break
    fn eol(&mut self) {
        if self.lay.comments && self.rng.chance(1, 5) {
            if self.lay.tabs && self.rng.chance(1, 2) { self.push("\t") } else { self.push(" ") }
            let c = *self.rng.pick(&COMMENTS);
            self.push(c);
        } else if self.lay.tabs && self.rng.chance(1, 12) {
            self.push(" \t");
        }
        self.nl();
        if self.lay.comments && self.rng.chance(1, 10) {
            // a comment-only / blank line
            if self.rng.chance(1, 2) {
                let n = self.rng.below(5);
                self.push(&" ".repeat(n));
                let c = *self.rng.pick(&COMMENTS);
                self.push(c);
            }
            self.nl();
        }
    }
    fn sep(&mut self) {
        // separation inside a line (after `:` / `-` / `,`); a tab after a block indicator is rejected by the
        // parser in most positions, so it is rare (those documents exercise the error locations)
        if self.lay.tabs && self.rng.chance(1, 60) { self.push("\t") } else if self.rng.chance(1, 10) { self.push("  ") } else { self.push(" ") }
    }
    fn mark(&mut self, id: usize) {
        self.info[id].start = Some(self.chars);
    }
}

fn dq(text: &str) -> String {
    let mut s = String::from("\"");
    for c in text.chars() {
        match c {
            '"' => s.push_str("\\\""),
            '\\' => s.push_str("\\\\"),
            '\n' => s.push_str("\\n"),
            '\t' => s.push_str("\\t"),
            '\r' => s.push_str("\\r"),
            c if (c as u32) < 0x20 || c as u32 == 0x7f => s.push_str(&format!("\\x{:02x}", c as u32)),
            c => s.push(c),
        }
    }
    s.push('"');
    s
}

fn plain_ok(text: &str, flow: bool) -> bool {
    if text.is_empty() || text.starts_with(' ') || text.ends_with(' ') { return false; }
    let first = text.chars().next().unwrap();
    if "-?:,[]{}#&*!|>'\"%@`".contains(first) {
        let second = text.chars().nth(1);
        if !(matches!(first, '-' | '?' | ':') && second.map(|c| c != ' ').unwrap_or(false)) { return false; }
    }
    if text.contains(": ") || text.contains(" #") || text.ends_with(':') || text.contains('\n') || text.contains('\t') || text.contains('\r') { return false; }
    if flow && text.chars().any(|c| ",[]{}".contains(c)) { return false; }
    if text.starts_with("---") || text.starts_with("...") { return false; }
    text.chars().all(|c| (c as u32) >= 0x20 && c as u32 != 0x7f && c != '\u{feff}')
}

/// inline source text of a scalar (what the span of the scalar event must cover)
fn scalar_src(text: &str, style: u8, flow: bool) -> String {
    match style {
        0 if plain_ok(text, flow) => text.to_string(),
        1 if !text.is_empty() && !text.contains('\n') && !text.contains('\r') && text.chars().all(|c| (c as u32) >= 0x20) => format!("'{}'", text.replace('\'', "''")),
        0 if text.is_empty() => String::new(),
        _ => dq(text),
    }
}

impl<'r> W<'r> {
    fn props(&mut self, anchor: &Option<String>) {
        if let Some(a) = anchor {
            self.push("&");
            self.push(a);
            self.push(" ");
        }
    }

    fn key(&mut self, k: &Key, flow: bool) {
        match k {
            Key::Merge => self.push("<<"),
            Key::K(t, st) => {
                let s = scalar_src(t, *st, flow);
                self.push(&s);
            }
        }
    }

    /// flow rendering (single line)
    fn flow(&mut self, n: &N) {
        match n {
            N::Scalar { id, text, style, anchor } => {
                self.props(anchor);
                let src = scalar_src(text, if *style == 3 { 2 } else { *style }, true);
                self.mark(*id);
                if src.is_empty() {
                    self.info[*id].empty = true;
                    if anchor.is_some() {
                        // drop the blank after the anchor so that `&a ,` does not arise
                        self.out.pop();
                        self.chars -= 1;
                        self.info[*id].start = Some(self.chars);
                    }
                } else {
                    self.info[*id].src = Some(src.clone());
                }
                self.push(&src);
            }
            N::Alias { id, name } => {
                self.mark(*id);
                let s = format!("*{name}");
                self.info[*id].src = Some(s.clone());
                self.push(&s);
            }
            N::Seq { id, anchor, items, .. } => {
                self.props(anchor);
                self.mark(*id);
                self.push("[");
                for (i, it) in items.iter().enumerate() {
                    if i > 0 { self.push(","); if self.lay.tabs && self.rng.chance(1, 6) { self.push("\t") } else { self.sep() } }
                    if let N::Scalar { id, text, style: 0, anchor: None } = it {
                        if text.is_empty() {
                            // an empty item cannot be written as nothing inside `[ ]`
                            self.mark(*id);
                            self.info[*id].src = Some("~".into());
                            self.push("~");
                            continue;
                        }
                    }
                    self.flow(it);
                    if matches!(it, N::Alias { .. }) && self.rng.chance(1, 2) { self.push(" "); }
                }
                self.push("]");
            }
            N::Map { id, anchor, entries, .. } => {
                self.props(anchor);
                self.mark(*id);
                self.push("{");
                for (i, (k, v)) in entries.iter().enumerate() {
                    if i > 0 { self.push(","); if self.lay.tabs && self.rng.chance(1, 6) { self.push("\t") } else { self.sep() } }
                    self.key(k, true);
                    self.push(":");
                    if self.rng.chance(1, 10) { self.push("  ") } else { self.push(" ") }
                    self.flow(v);
                    if matches!(v, N::Alias { .. }) && self.rng.chance(1, 2) { self.push(" "); }
                }
                self.push("}");
            }
        }
    }

    fn is_block(n: &N) -> bool {
        match n {
            N::Seq { flow, items, .. } => !*flow && !items.is_empty(),
            N::Map { flow, entries, .. } => !*flow && !entries.is_empty(),
            _ => false,
        }
    }

    /// the value part after `key:` / `-` at indentation `ind`; the current line already holds the introducer
    fn block_value(&mut self, n: &N, ind: usize) {
        match n {
            N::Seq { id, anchor, items, .. } if Self::is_block(n) => {
                if anchor.is_some() { self.push(" "); self.props(anchor); self.out.pop(); self.chars -= 1; }
                self.eol();
                for (i, it) in items.iter().enumerate() {
                    self.push(&" ".repeat(ind));
                    if i == 0 { self.mark(*id); }
                    self.push("-");
                    self.block_value(it, ind + 2);
                }
            }
            N::Map { id, anchor, entries, .. } if Self::is_block(n) => {
                if anchor.is_some() { self.push(" "); self.props(anchor); self.out.pop(); self.chars -= 1; }
                self.eol();
                for (i, (k, v)) in entries.iter().enumerate() {
                    self.push(&" ".repeat(ind));
                    if i == 0 { self.mark(*id); }
                    self.key(k, false);
                    self.push(":");
                    self.block_value(v, ind + 2);
                }
            }
            N::Scalar { id, text, style: 3, anchor } if !text.is_empty() && text.ends_with('\n') && !text.starts_with(' ') && !text.starts_with('\n')
                && !text.contains("\n\n") && !text.contains('\r') && text.chars().all(|c| c == '\n' || ((c as u32) >= 0x20 && c != '\u{feff}')) && !text.contains(" \n") => {
                // literal block scalar, clip chomping; the span runs from the first content character to the
                // end of the last line break of the block
                self.push(" ");
                self.props(anchor);
                self.push("|");
                self.nl();
                let body = text.strip_suffix('\n').unwrap();
                let mut src = String::new();
                for (i, line) in body.split('\n').enumerate() {
                    self.push(&" ".repeat(ind));
                    if i == 0 { self.mark(*id); }
                    let before = self.out.len();
                    if i > 0 { src.push_str(&" ".repeat(ind)); }
                    self.push(line);
                    self.nl();
                    src.push_str(&self.out[before..]);
                }
                self.info[*id].src = Some(src);
            }
            other => {
                // inline
                let empty_scalar = matches!(other, N::Scalar { text, style: 0, anchor: None, .. } if text.is_empty());
                if empty_scalar {
                    let id = other.id();
                    self.info[id].start = Some(self.chars);
                    self.info[id].empty = true;
                } else {
                    self.sep();
                    self.flow(other);
                }
                self.eol();
            }
        }
    }

    fn doc(&mut self, n: &N) {
        if Self::is_block(n) {
            let (id, anchor) = match n { N::Seq { id, anchor, .. } | N::Map { id, anchor, .. } => (*id, anchor.clone()), _ => unreachable!() };
            if anchor.is_some() || self.lay.doc_start || self.lay.directive != 0 {
                self.push("---");
                if anchor.is_some() { self.push(" "); self.props(&anchor); self.out.pop(); self.chars -= 1; }
                self.eol();
            }
            match n {
                N::Seq { items, .. } => {
                    for (i, it) in items.iter().enumerate() {
                        if i == 0 { self.mark(id); }
                        self.push("-");
                        self.block_value(it, 2);
                    }
                }
                N::Map { entries, .. } => {
                    for (i, (k, v)) in entries.iter().enumerate() {
                        if i == 0 { self.mark(id); }
                        self.key(k, false);
                        self.push(":");
                        self.block_value(v, 2);
                    }
                }
                _ => unreachable!(),
            }
        } else {
            if self.lay.doc_start || self.lay.directive != 0 { self.push("---"); self.eol(); }
            self.flow(n);
            self.eol();
        }
    }
}

pub struct Rendered {
    /// the text handed to the entry point (with the BOM if the layout asks for one)
    pub input: String,
    /// the BOM-stripped text all locations refer to
    pub text: String,
    pub info: Vec<Info>,
}

pub fn render(n: &N, n_ids: usize, lay: Layout, rng: &mut Rng) -> Rendered {
    let mut w = W { out: String::new(), chars: 0, info: vec![Info::default(); n_ids], lay, rng };
    if lay.comments && w.rng.chance(1, 4) {
        let c = *w.rng.pick(&COMMENTS);
        w.push(c);
        w.nl();
    }
    match lay.directive {
        1 => { w.push("%YAML 1.2"); w.nl(); }
        2 => { w.push("%RESERVED some parameter"); w.nl(); }
        3 => { w.push("%RÉSERVÉ 日本 param"); w.nl(); }
        _ => {}
    }
    w.doc(n);
    let mut text = w.out;
    if !lay.final_break {
        // drop the final line break (and nothing else)
        if text.ends_with("\r\n") { text.truncate(text.len() - 2); } else if text.ends_with('\n') || text.ends_with('\r') { text.truncate(text.len() - 1); }
    }
    let input = if lay.bom { format!("\u{feff}{text}") } else { text.clone() };
    Rendered { input, text, info: w.info }
}

// =====================================================================================================
// positions recomputed from the text (independent of the model and of the implementation)
// =====================================================================================================

/// line starts: a line ends after LF, after CR not followed by LF
pub struct TextIndex {
    pub chars: Vec<char>,
    /// byte offset of every char index (len + 1 entries)
    pub byte_of: Vec<usize>,
    /// char index where each line starts (line 1 = index 0)
    pub line_starts: Vec<usize>,
}

impl TextIndex {
    pub fn new(text: &str) -> Self {
        let chars: Vec<char> = text.chars().collect();
        let mut byte_of = Vec::with_capacity(chars.len() + 1);
        let mut b = 0;
        for c in &chars { byte_of.push(b); b += c.len_utf8(); }
        byte_of.push(b);
        let mut line_starts = vec![0];
        for i in 0..chars.len() {
            if chars[i] == '\n' || (chars[i] == '\r' && chars.get(i + 1) != Some(&'\n')) { line_starts.push(i + 1); }
        }
        TextIndex { chars, byte_of, line_starts }
    }
    /// (line 1-based, column 1-based) of a char index ≤ len
    pub fn line_col(&self, idx: usize) -> (usize, usize) {
        let line = match self.line_starts.binary_search(&idx) { Ok(i) => i, Err(i) => i - 1 };
        (line + 1, idx - self.line_starts[line] + 1)
    }
    pub fn ends_with_break(&self) -> bool {
        matches!(self.chars.last(), Some('\n') | Some('\r'))
    }
    pub fn slice(&self, off: usize, len: usize) -> String {
        self.chars[off.min(self.chars.len())..(off + len).min(self.chars.len())].iter().collect()
    }
}

/// how a reported location relates to the text
#[derive(Debug, PartialEq, Clone, Copy)]
pub enum Consistency {
    Ok,
    /// (line, column) is the position "after a line break that is not in the text" at the end of input
    EofVirtualLine,
    Bad,
}

/// the text has a directive line (`%…` at the start of a line) with characters outside ASCII: the parser's
/// `fetch_while_is_yaml_non_space` counts bytes there, every later character offset is shifted
pub fn has_multibyte_directive(text: &str) -> bool {
    text.split(['\n', '\r']).any(|l| l.starts_with('%') && !l.is_ascii())
}

pub fn check_location(ix: &TextIndex, l: &Location) -> (Consistency, String) {
    let off = l.span().offset() as usize;
    if off > ix.chars.len() {
        return (Consistency::Bad, format!("char offset {off} beyond the input ({} chars)", ix.chars.len()));
    }
    let (line, col) = ix.line_col(off);
    let mut note = String::new();
    let mut res = Consistency::Ok;
    if (l.line() as usize, l.column() as usize) != (line, col) {
        let virt = off == ix.chars.len() && !ix.ends_with_break() && !ix.chars.is_empty() && l.line() as usize == line + 1 && l.column() == 1;
        // an input that consists of comments / blanks only behaves the same way
        res = if virt { Consistency::EofVirtualLine } else { Consistency::Bad };
        note = format!("line {} column {} reported, but char offset {} is line {} column {}", l.line(), l.column(), off, line, col);
    }
    if let Some(bo) = l.span().byte_offset() {
        if bo as usize != ix.byte_of[off] {
            return (Consistency::Bad, format!("byte offset {} reported, char offset {} is byte {}", bo, off, ix.byte_of[off]));
        }
    }
    let end = off + l.span().len() as usize;
    if let Some(bl) = l.span().byte_len() {
        if end <= ix.chars.len() && bl as usize != ix.byte_of[end] - ix.byte_of[off] {
            return (Consistency::Bad, format!("byte length {} reported, {} chars at {} are {} bytes", bl, l.span().len(), off, ix.byte_of[end] - ix.byte_of[off]));
        }
    }
    (res, note)
}

// =====================================================================================================
// generators
// =====================================================================================================

const WORDS: [&str; 22] = [
    "a", "b", "x1", "12", "-3", "0x1F", "true", "no", "1.5", "hello world", "é", "日本", "😀 ok", "naïve café", "a: b", "# c", "[x",
    "tab\there", "q'uote", "d\"q", "007", "~",
];

struct G<'r> {
    rng: &'r mut Rng,
    next_id: usize,
    next_anchor: usize,
    next_key: usize,
    /// completed anchors: name, node, full key set (maps only), defined inside the `defs` region
    done: Vec<(String, N, Option<BTreeSet<String>>, bool)>,
    /// typed generator: anchored nodes by type
    pool: Vec<(STy, String, bool)>,
    defs: Vec<N>,
    in_defs: bool,
    /// scalar leaves created for typed targets: node id, leaf type
    leaves: Vec<(usize, Ty)>,
    /// scalar leaves created for `NonZero*` targets (never 0 in the generated document): node id
    nz_leaves: Vec<usize>,
    allow_alias: bool,
}

impl<'r> G<'r> {
    fn new(rng: &'r mut Rng) -> Self {
        G { rng, next_id: 0, next_anchor: 0, next_key: 0, done: vec![], pool: vec![], defs: vec![], in_defs: false, leaves: vec![], nz_leaves: vec![], allow_alias: true }
    }
    fn id(&mut self) -> usize { self.next_id += 1; self.next_id - 1 }
    fn anchor_name(&mut self) -> String {
        self.next_anchor += 1;
        format!("{}{}", self.rng.pick(&["a", "é", "anchor-", "日"]), self.next_anchor)
    }
    fn maybe_anchor(&mut self, num: usize, den: usize) -> Option<String> {
        if self.rng.chance(num, den) { Some(self.anchor_name()) } else { None }
    }
    fn fresh_key(&mut self) -> Key {
        self.next_key += 1;
        let base = format!("{}{}", self.rng.pick(&["k", "ké", "名", "key ", "😀"]), self.next_key);
        let style = *self.rng.pick(&[0u8, 0, 0, 1, 2]);
        Key::K(base, style)
    }
    fn scalar(&mut self, text: &str, styles: &[u8], anchor_num: usize) -> N {
        let id = self.id();
        let style = *self.rng.pick(styles);
        let anchor = self.maybe_anchor(anchor_num, 5);
        let mut text = text.to_string();
        if style == 3 {
            // literal blocks: one to three lines, always a final break
            let lines = 1 + self.rng.below(3);
            let parts: Vec<String> = (0..lines).map(|i| format!("{}{}", text.replace(['\n', '\t'], " ").trim(), if i == 0 { "" } else { " é" })).collect();
            text = parts.join("\n") + "\n";
            if parts[0].is_empty() { text = "x\n".into(); }
        }
        let n = N::Scalar { id, text, style, anchor: anchor.clone() };
        if let Some(a) = anchor { self.done.push((a, n.clone(), None, self.in_defs)); }
        n
    }

    // ------------------------------------------------------------------ free-form (untyped tree) documents
    fn key_set(&self, n: &N) -> BTreeSet<String> {
        // own + merged keys of a map node
        let mut out = BTreeSet::new();
        if let N::Map { entries, .. } = n {
            for (k, v) in entries {
                match k {
                    Key::K(t, _) => { out.insert(t.clone()); }
                    Key::Merge => {
                        let srcs: Vec<&N> = match v { N::Seq { items, .. } => items.iter().collect(), other => vec![other] };
                        for s in srcs {
                            match s {
                                N::Alias { name, .. } => {
                                    if let Some(d) = self.done.iter().find(|d| &d.0 == name) { if let Some(ks) = &d.2 { out.extend(ks.iter().cloned()); } }
                                }
                                m @ N::Map { .. } => out.extend(self.key_set(m)),
                                _ => {}
                            }
                        }
                    }
                }
            }
        }
        out
    }

    fn merge_value(&mut self, have: &BTreeSet<String>) -> Option<N> {
        let maps: Vec<(String, BTreeSet<String>)> = self.done.iter().filter(|d| d.2.is_some() && (!self.in_defs || d.3)).map(|d| (d.0.clone(), d.2.clone().unwrap())).filter(|d| d.1.is_disjoint(have)).collect();
        let inline = |g: &mut Self| -> N {
            let id = g.id();
            let n = g.rng.below(3);
            let entries = (0..n).map(|_| { let w = *g.rng.pick(&WORDS); (g.fresh_key(), g.scalar(w, &[0, 0, 1, 2], 0)) }).collect();
            N::Map { id, anchor: None, entries, flow: true }
        };
        match self.rng.below(4) {
            0 => Some(inline(self)),
            1 if maps.len() >= 2 => {
                // a sequence of two distinct, mutually disjoint sources (or one alias and one inline map)
                let i = self.rng.below(maps.len());
                let j = (i + 1 + self.rng.below(maps.len() - 1)) % maps.len();
                let first = N::Alias { id: self.id(), name: maps[i].0.clone() };
                let second = if maps[i].1.is_disjoint(&maps[j].1) { N::Alias { id: self.id(), name: maps[j].0.clone() } } else { inline(self) };
                let id = self.id();
                Some(N::Seq { id, anchor: None, items: vec![first, second], flow: true })
            }
            _ if !maps.is_empty() => { let i = self.rng.below(maps.len()); Some(N::Alias { id: self.id(), name: maps[i].0.clone() }) }
            _ => None,
        }
    }

    fn node(&mut self, depth: usize, max_depth: usize) -> N {
        if self.allow_alias && self.rng.chance(1, 6) {
            let c: Vec<String> = self.done.iter().filter(|d| !self.in_defs || d.3).map(|d| d.0.clone()).collect();
            if !c.is_empty() {
                let name = self.rng.pick(&c).clone();
                return N::Alias { id: self.id(), name };
            }
        }
        let r = self.rng.below(10);
        if depth >= max_depth || r < 4 {
            let w = if self.rng.chance(1, 12) { "" } else { *self.rng.pick(&WORDS) };
            return self.scalar(w, &[0, 0, 0, 1, 2, 3], 1);
        }
        let flow = self.rng.chance(1, 3);
        let anchor = self.maybe_anchor(1, 4);
        let id = self.id();
        let width = self.rng.below(5);
        if r < 6 {
            let items = (0..width).map(|_| self.node(depth + 1, max_depth)).collect();
            let n = N::Seq { id, anchor: anchor.clone(), items, flow };
            if let Some(a) = anchor { self.done.push((a, n.clone(), None, self.in_defs)); }
            n
        } else {
            let mut entries: Vec<(Key, N)> = Vec::new();
            for _ in 0..width {
                if self.rng.chance(1, 4) {
                    let have = self.key_set(&N::Map { id: 0, anchor: None, entries: entries.clone(), flow });
                    if let Some(v) = self.merge_value(&have) {
                        entries.push((Key::Merge, v));
                        continue;
                    }
                }
                let k = self.fresh_key();
                let v = self.node(depth + 1, max_depth);
                entries.push((k, v));
            }
            let n = N::Map { id, anchor: anchor.clone(), entries, flow };
            if let Some(a) = anchor { let ks = self.key_set(&n); self.done.push((a, n.clone(), Some(ks), self.in_defs)); }
            n
        }
    }

    // ------------------------------------------------------------------ typed documents
    fn leaf_text(&mut self, t: &Ty) -> (String, Vec<u8>) {
        match t {
            Ty::Bool => (self.rng.pick(&["true", "false", "yes", "No", "on", "OFF"]).to_string(), vec![0]),
            Ty::Int(true, 32) => (self.rng.pick(&["12", "-7", "0x1F", "1_000", "0", "2147483647", "+5"]).to_string(), vec![0]),
            Ty::Int(true, _) => (self.rng.pick(&["12", "-7", "0o17", "9007199254740993", "0"]).to_string(), vec![0]),
            Ty::Int(false, _) => (self.rng.pick(&["0", "7", "200", "255", "0x10"]).to_string(), vec![0]),
            Ty::Float(_) => (self.rng.pick(&["1.5", "-0.0", ".inf", "1e3", "3", ".5", "7."]).to_string(), vec![0]),
            Ty::Char => (self.rng.pick(&["a", "é", "日", "😀", "1", "-"]).to_string(), vec![0, 1, 2]),
            _ => (self.rng.pick(&["hello", "a b", "é日", "x: y", "#no", "naïve café 😀", "12", "q'uote", "tab\there", "line\nbreak"]).to_string(), vec![0, 0, 1, 2, 3]),
        }
    }

    fn pooled(&mut self, sty: &STy) -> Option<N> {
        if !self.allow_alias { return None; }
        let c: Vec<String> = self.pool.iter().filter(|p| &p.0 == sty && (!self.in_defs || p.2)).map(|p| p.1.clone()).collect();
        if !c.is_empty() && self.rng.chance(1, 4) {
            let name = self.rng.pick(&c).clone();
            return Some(N::Alias { id: self.id(), name });
        }
        None
    }

    fn register(&mut self, sty: &STy, n: &N) {
        if let Some(a) = n.anchor() {
            self.pool.push((sty.clone(), a.clone(), self.in_defs));
            if !self.done.iter().any(|d| &d.0 == a) {
                let ks = if matches!(n, N::Map { .. }) { Some(self.key_set(n)) } else { None };
                self.done.push((a.clone(), n.clone(), ks, self.in_defs));
            }
        }
    }

    /// entries of a struct / map value; `moved` (generated inside the `defs` region) come in through a merge
    fn with_merges(&mut self, mut entries: Vec<(Key, N)>, moved: Vec<(Key, N)>) -> Vec<(Key, N)> {
        if moved.is_empty() { return entries; }
        let mk_src = |g: &mut Self, es: Vec<(Key, N)>| -> String {
            let a = g.anchor_name();
            let n = N::Map { id: g.id(), anchor: Some(a.clone()), entries: es, flow: g.rng.chance(1, 2) };
            let ks = g.key_set(&n);
            g.done.push((a.clone(), n.clone(), Some(ks), true));
            g.defs.push(n);
            a
        };
        fn has_anchor(n: &N) -> bool {
            n.anchor().is_some() || match n {
                N::Seq { items, .. } => items.iter().any(has_anchor),
                N::Map { entries, .. } => entries.iter().any(|(_, v)| has_anchor(v)),
                _ => false,
            }
        }
        let inline_ok = !moved.iter().any(|(_, v)| has_anchor(v));
        let value = match self.rng.below(4) {
            // (anchors of an inline source would sit in the body although they were registered for `defs`)
            0 if inline_ok => N::Map { id: self.id(), anchor: None, entries: moved, flow: true },
            1 if moved.len() >= 2 => {
                let mut first = moved;
                let second = first.split_off(first.len() / 2);
                let a1 = mk_src(self, first);
                let a2 = mk_src(self, second);
                let items = vec![N::Alias { id: self.id(), name: a1 }, N::Alias { id: self.id(), name: a2 }];
                N::Seq { id: self.id(), anchor: None, items, flow: true }
            }
            2 if moved.len() >= 2 => {
                // nested merge: the second source merges the first
                let mut first = moved;
                let mut second = first.split_off(first.len() / 2);
                let a1 = mk_src(self, first);
                second.push((Key::Merge, N::Alias { id: self.id(), name: a1 }));
                let a2 = mk_src(self, second);
                N::Alias { id: self.id(), name: a2 }
            }
            _ => { let a = mk_src(self, moved); N::Alias { id: self.id(), name: a } }
        };
        let at = self.rng.below(entries.len() + 1);
        entries.insert(at, (Key::Merge, value));
        entries
    }

    /// how many of `n` entries come in through a merge
    fn split_for_merge(&mut self, n: usize) -> usize {
        if self.in_defs || n < 2 || !self.rng.chance(1, 3) { 0 } else { 1 + self.rng.below(n - 1) }
    }

    fn value(&mut self, sty: &STy, depth: usize) -> N {
        if depth > 0 {
            if let Some(a) = self.pooled(sty) { return a; }
        }
        let n = match sty {
            STy::Leaf(t) => {
                let (text, styles) = self.leaf_text(t);
                let n = self.scalar(&text, &styles, if depth > 0 { 1 } else { 0 });
                self.leaves.push((n.id(), t.clone()));
                n
            }
            STy::NonZero(signed, bits) => {
                let text = if *signed { *self.rng.pick(&["12", "-7", "1", "+5", "100"]) } else if *bits == 8 { *self.rng.pick(&["7", "1", "200", "255", "0x10"]) } else { *self.rng.pick(&["7", "1", "200", "65535", "0x10"]) };
                let n = self.scalar(text, &[0], if depth > 0 { 1 } else { 0 });
                self.nz_leaves.push(n.id());
                n
            }
            STy::TreeInner => {
                let save = self.allow_alias;
                let n = self.node(depth, depth + 2);
                self.allow_alias = save;
                n
            }
            STy::Spanned(t) => return self.value(t, depth.max(1)),
            STy::Option(t) => {
                if self.rng.chance(1, 4) { let w = *self.rng.pick(&["~", "null", ""]); self.scalar(w, &[0], 0) } else { return self.value(t, depth.max(1)); }
            }
            STy::Seq(t) => {
                let id = self.id();
                let anchor = if depth > 0 { self.maybe_anchor(1, 4) } else { None };
                let k = self.rng.below(4);
                let items = (0..k).map(|_| self.value(t, depth + 1)).collect();
                N::Seq { id, anchor, items, flow: self.rng.chance(1, 2) }
            }
            STy::Map(t) => {
                let id = self.id();
                let anchor = if depth > 0 { self.maybe_anchor(1, 4) } else { None };
                let k = self.rng.below(4);
                let flow = self.rng.chance(1, 2);
                let m = self.split_for_merge(k);
                let entries: Vec<(Key, N)> = (0..k - m).map(|_| (self.fresh_key(), self.value(t, depth + 1))).collect();
                let was = self.in_defs;
                self.in_defs = was || m > 0;
                let moved: Vec<(Key, N)> = (0..m).map(|_| (self.fresh_key(), self.value(t, depth + 1))).collect();
                self.in_defs = was;
                let entries = self.with_merges(entries, moved);
                N::Map { id, anchor, entries, flow }
            }
            STy::Struct(fs) => {
                let id = self.id();
                let anchor = if depth > 0 { self.maybe_anchor(1, 4) } else { None };
                let flow = depth > 0 && self.rng.chance(1, 3);
                let mut order: Vec<usize> = (0..fs.len()).collect();
                if self.rng.chance(1, 3) && order.len() > 1 { let i = self.rng.below(order.len()); let e = order.remove(i); order.push(e); }
                let m = self.split_for_merge(order.len());
                let was = self.in_defs;
                let mut entries: Vec<(Key, N)> = Vec::new();
                let mut moved: Vec<(Key, N)> = Vec::new();
                for (pos, i) in order.iter().enumerate() {
                    let (name, t) = &fs[*i];
                    if matches!(t, STy::Option(_)) && self.rng.chance(1, 5) { continue; }
                    let from_merge = pos >= order.len() - m;
                    self.in_defs = was || from_merge;
                    let v = self.value(t, depth + 1);
                    if from_merge { moved.push((Key::K(name.to_string(), 0), v)); } else { entries.push((Key::K(name.to_string(), 0), v)); }
                }
                self.in_defs = was;
                let entries = self.with_merges(entries, moved);
                N::Map { id, anchor, entries, flow }
            }
        };
        self.register(sty, &n);
        n
    }

    fn typed_doc(&mut self, sty: &STy) -> N {
        let root = self.value(sty, 0);
        match root {
            N::Map { id, anchor, mut entries, flow } => {
                if !self.defs.is_empty() {
                    let defs = std::mem::take(&mut self.defs);
                    let sid = self.id();
                    entries.insert(0, (Key::K("defs".into(), 0), N::Seq { id: sid, anchor: None, items: defs, flow: false }));
                }
                N::Map { id, anchor, entries, flow }
            }
            other => other,
        }
    }
}

fn gen_sty(rng: &mut Rng, depth: usize) -> STy {
    let leaf_ty = |rng: &mut Rng| -> Ty {
        match rng.below(7) { 0 => Ty::Bool, 1 => Ty::Int(true, 32), 2 => Ty::Int(false, 8), 3 => Ty::Float(64), 4 => Ty::Char, 5 => Ty::Int(true, 64), _ => Ty::Str }
    };
    if rng.chance(1, 8) {
        // a consumer that raises a location-less Serde error (`invalid_value`) when the document holds 0
        let nz = rng.pick(&[STy::NonZero(false, 8), STy::NonZero(false, 8), STy::NonZero(true, 32), STy::NonZero(false, 64), STy::NonZero(true, 16)]).clone();
        return match rng.below(4) { 0 => sp(nz), 1 => STy::Option(Box::new(nz)), _ => nz };
    }
    if depth >= 3 || rng.chance(2, 5) {
        return match rng.below(6) { 0 => leaf(leaf_ty(rng)), 1 => STy::Option(Box::new(sp(leaf(leaf_ty(rng))))), 2 => sp(STy::Option(Box::new(leaf(leaf_ty(rng))))), 3 => tree(), _ => sp(leaf(leaf_ty(rng))) };
    }
    match rng.below(6) {
        0 | 1 => STy::Seq(Box::new(gen_sty(rng, depth + 1))),
        2 => STy::Map(Box::new(gen_sty(rng, depth + 1))),
        3 => sp(STy::Seq(Box::new(gen_sty(rng, depth + 1)))),
        _ => {
            let names = ["a", "b", "c", "d", "x"];
            let n = 1 + rng.below(4);
            let st = STy::Struct((0..n).map(|i| (names[i], gen_sty(rng, depth + 1))).collect());
            if rng.chance(1, 3) { sp(st) } else { st }
        }
    }
}

fn root_sty(rng: &mut Rng) -> STy {
    let names = ["a", "b", "c", "d", "x"];
    let n = 1 + rng.below(4);
    STy::Struct((0..n).map(|i| (names[i], gen_sty(rng, 1))).collect())
}

// =====================================================================================================
// what the generator expects: use-site / definition-site node of every value
// =====================================================================================================

#[derive(Clone, Debug)]
pub enum E {
    Sp { r: usize, d: usize, inner: Box<E> },
    /// `via`: the containers (definition nodes) the value is delivered through, outermost first
    Leaf { r: usize, d: usize, via: Vec<usize> },
    None,
    Some(Box<E>),
    Seq(Vec<E>),
    Map(Vec<(String, E)>),
    /// the document does not have the shape the type wants here: nothing is checked below
    Unknown,
}

struct Ctx<'a> {
    anchors: BTreeMap<String, &'a N>,
}

fn collect_anchors<'a>(n: &'a N, out: &mut BTreeMap<String, &'a N>) {
    if let Some(a) = n.anchor() { out.insert(a.clone(), n); }
    match n {
        N::Seq { items, .. } => items.iter().for_each(|i| collect_anchors(i, out)),
        N::Map { entries, .. } => entries.iter().for_each(|(_, v)| collect_anchors(v, out)),
        _ => {}
    }
}

impl<'a> Ctx<'a> {
    fn resolve(&self, mut n: &'a N, mut ctx: Option<usize>) -> Option<(&'a N, Option<usize>)> {
        let mut fuel = 64;
        while let N::Alias { id, name } = n {
            ctx = ctx.or(Some(*id));
            n = self.anchors.get(name)?;
            fuel -= 1;
            if fuel == 0 { return None; }
        }
        Some((n, ctx))
    }

    /// delivered entries of a mapping: own entries and merged ones, each with the use-site context of its value
    fn entries(&self, n: &'a N, c: Option<usize>, out: &mut Vec<(String, &'a N, Option<usize>)>, fuel: usize) -> bool {
        if fuel == 0 { return false; }
        let N::Map { entries, .. } = n else { return false };
        for (k, v) in entries {
            match k {
                Key::K(t, _) => out.push((t.clone(), v, c)),
                Key::Merge => {
                    let srcs: Vec<&'a N> = match v {
                        N::Seq { items, .. } => items.iter().collect(),
                        N::Scalar { .. } => vec![],
                        other => vec![other],
                    };
                    for s in srcs {
                        let use_site = c.or(Some(s.id()));
                        let Some((m, _)) = self.resolve(s, None) else { return false };
                        if !self.entries(m, use_site, out, fuel - 1) { return false; }
                    }
                }
            }
        }
        true
    }

    fn is_null(n: &N) -> bool {
        matches!(n, N::Scalar { text, style: 0, .. } if text.is_empty() || text == "~" || text.eq_ignore_ascii_case("null"))
    }

    fn expect(&self, sty: &STy, node: &'a N, ctx: Option<usize>, fuel: usize) -> E {
        self.expect_via(sty, node, ctx, fuel, &mut Vec::new())
    }

    fn expect_via(&self, sty: &STy, node: &'a N, ctx: Option<usize>, fuel: usize, via: &mut Vec<usize>) -> E {
        if fuel == 0 { return E::Unknown; }
        let Some((n, c)) = self.resolve(node, ctx) else { return E::Unknown };
        match sty {
            STy::Spanned(t) => E::Sp { r: c.unwrap_or(n.id()), d: n.id(), inner: Box::new(self.expect_via(t, node, ctx, fuel - 1, via)) },
            STy::Leaf(_) | STy::NonZero(..) => match n { N::Scalar { .. } => E::Leaf { r: c.unwrap_or(n.id()), d: n.id(), via: via.clone() }, _ => E::Unknown },
            STy::Option(t) => if Self::is_null(n) { E::None } else { E::Some(Box::new(self.expect_via(t, node, ctx, fuel - 1, via))) },
            STy::Seq(t) => match n {
                N::Seq { items, .. } => { via.push(n.id()); let r = E::Seq(items.iter().map(|i| self.expect_via(t, i, c, fuel - 1, via)).collect()); via.pop(); r }
                _ => E::Unknown,
            },
            STy::Map(_) | STy::Struct(_) => match n {
                N::Map { .. } => {
                    let mut es = Vec::new();
                    if !self.entries(n, c, &mut es, 16) { return E::Unknown; }
                    via.push(n.id());
                    let r = match sty {
                        STy::Map(t) => E::Map(es.into_iter().map(|(k, v, cv)| (k, self.expect_via(t, v, cv, fuel - 1, via))).collect()),
                        STy::Struct(fs) => E::Map(fs.iter().filter_map(|(name, t)| {
                            match es.iter().find(|e| e.0 == *name) {
                                Some((k, v, cv)) => Some((k.clone(), self.expect_via(t, v, *cv, fuel - 1, via))),
                                None => if matches!(t, STy::Option(_)) { Some((name.to_string(), E::None)) } else { None },
                            }
                        }).collect()),
                        _ => unreachable!(),
                    };
                    via.pop();
                    r
                }
                _ => E::Unknown,
            },
            STy::TreeInner => match n {
                N::Scalar { .. } => E::Leaf { r: c.unwrap_or(n.id()), d: n.id(), via: via.clone() },
                N::Seq { items, .. } => { via.push(n.id()); let r = E::Seq(items.iter().map(|i| self.expect_via(&tree(), i, c, fuel - 1, via)).collect()); via.pop(); r }
                N::Map { .. } => {
                    let mut es = Vec::new();
                    if !self.entries(n, c, &mut es, 16) { return E::Unknown; }
                    via.push(n.id());
                    let r = E::Map(es.into_iter().map(|(k, v, cv)| (k, self.expect_via(&tree(), v, cv, fuel - 1, via))).collect());
                    via.pop();
                    r
                }
                N::Alias { .. } => E::Unknown,
            },
        }
    }
}

/// all (use-site node, definition node) pairs under which the leaf `id` is delivered
fn uses_of(e: &E, id: usize, out: &mut Vec<(usize, usize, Vec<usize>)>) {
    match e {
        E::Sp { inner, .. } => uses_of(inner, id, out),
        E::Leaf { r, d, via } => if *d == id { out.push((*r, *d, via.clone())); },
        E::Some(x) => uses_of(x, id, out),
        E::Seq(xs) => xs.iter().for_each(|x| uses_of(x, id, out)),
        E::Map(es) => es.iter().for_each(|(_, x)| uses_of(x, id, out)),
        _ => {}
    }
}

// =====================================================================================================
// running the implementation
// =====================================================================================================

fn mark_tok(m: &saphyr_parser::Marker) -> String {
    format!("{}.{}.{}.{}", m.index(), m.line(), m.col(), m.byte_offset().map(|b| b.to_string()).unwrap_or_else(|| "-".into()))
}

/// parser items with full marks: `@<start mark>:<end mark> <event tokens>` | `!<0|1>@<mark>`
pub fn items_tokens(text: &str) -> (String, usize, Vec<saphyr_parser::Marker>, Option<saphyr_parser::Marker>) {
    let mut parser = saphyr_parser::Parser::new_from_str(text);
    let mut toks: Vec<String> = Vec::new();
    let mut marks = Vec::new();
    let mut end_mark = None;
    let mut n = 0;
    let mut errs = 0;
    loop {
        match parser.next() {
            None => break,
            Some(Ok((ev, span))) => {
                toks.push(format!("@{}:{} {}", mark_tok(&span.start), mark_tok(&span.end), crate::yamlgen::raw_tokens(&ev)));
                if matches!(ev, saphyr_parser::Event::StreamEnd) { end_mark = Some(span.start); }
                marks.push(span.start);
                marks.push(span.end);
                n += 1;
            }
            Some(Err(e)) => {
                let m = *e.marker();
                let ua = e.info().to_ascii_lowercase().contains("unknown anchor");
                toks.push(format!("!{}@{}", b(ua), mark_tok(&m)));
                marks.push(m);
                errs += 1;
                if errs >= 3 { break; }
            }
        }
        if n > 200000 { break; }
    }
    (toks.join(" "), n, marks, end_mark)
}

pub fn err_tok(e: &serde_saphyr::Error) -> String {
    use serde_saphyr::Error;
    let e = crate::errs::unwrap_snippet(e);
    let none = "L0.0.0.0.-.-";
    match e {
        Error::SerdeInvalidType { .. } => format!("err invalid_type {none} {none}"),
        // raised by the `NonZero*` consumers only, with the modelled fallback location (the value / element guard): compared in full
        Error::SerdeInvalidValue { location, .. } => format!("err invalid_value {} {none}", loc_tok(location)),
        Error::SerdeUnknownVariant { .. } => format!("err unknown_variant {none} {none}"),
        Error::SerdeUnknownField { .. } => format!("err unknown_field {none} {none}"),
        Error::SerdeMissingField { .. } => format!("err missing_field {none} {none}"),
        Error::Message { msg, location } => {
            let k = if msg.starts_with("invalid length") { "invalid_length" } else if msg.starts_with("duplicate field") { "duplicate_field" } else { "Message" };
            format!("err {} {} {none}", k, loc_tok(location))
        }
        Error::AliasError { locations, .. } => format!("err AliasError {} {}", loc_tok(&locations.reference_location), loc_tok(&locations.defined_location)),
        other => format!("err {} {} {none}", crate::errs::kind(other), other.location().map(|l| loc_tok(&l)).unwrap_or_else(|| none.to_string())),
    }
}

fn cfg() -> crate::e2e::Cfg {
    crate::e2e::Cfg { dup: 0, legacy_octal: false, strict_bool: false, ignore_binary: false, no_schema: false, budget: None, limits: serde_saphyr::options::AliasLimits::default() }
}

pub fn run_impl(input: &str, sty: &STy) -> Result<Result<SVal, serde_saphyr::Error>, String> {
    STACK.with(|s| s.borrow_mut().clear());
    catch(|| serde_saphyr::with_deserializer_from_str_with_options(input, cfg().options(), |de| SSeed(sty).deserialize(de)))
}

fn answer(r: &Result<Result<SVal, serde_saphyr::Error>, String>) -> String {
    match r {
        Err(msg) => format!("panic {}", hex(msg)),
        Ok(Ok(v)) => format!("ok {}", v.tokens()),
        Ok(Err(e)) => err_tok(e),
    }
}

// =====================================================================================================
// the oracle
// =====================================================================================================

struct Oracle {
    out: Vec<serde_json::Value>,
    per_id: BTreeMap<String, usize>,
}

impl Oracle {
    fn fail(&mut self, id: &str, what: &str, input: &str, observed: String, expected: String) {
        // every character offset after a directive line with non-ASCII characters is shifted: one class
        let shifted = matches!(id, "C16-spanned-position" | "C16-span-source-text" | "C16-error-position" | "C16-coordinates" | "C16-quoted-span-includes-trailing" | "C16-empty-scalar-span" | "C16-block-scalar-span-includes-next-indent")
            && has_multibyte_directive(input.strip_prefix('\u{feff}').unwrap_or(input));
        let id = if shifted { "C16-directive-multibyte-char-offset" } else { id };
        let n = self.per_id.entry(id.to_string()).or_insert(0);
        *n += 1;
        if *n <= 25 {
            self.out.push(serde_json::json!({"id": id, "what": what, "input": input, "observed": observed, "expected": expected}));
        }
    }
}

struct DocCtx<'a> {
    input: &'a str,
    ix: &'a TextIndex,
    info: &'a [Info],
}

fn show(l: &Location) -> String {
    format!("line {} column {} offset {} len {} byte_offset {:?} byte_len {:?}", l.line(), l.column(), l.span().offset(), l.span().len(), l.span().byte_offset(), l.span().byte_len())
}

/// coordinates of one reported location against the text
fn check_coords(o: &mut Oracle, sink: &mut Sink, dc: &DocCtx, l: &Location, role: &str) {
    if *l == Location::UNKNOWN { sink.count("loc.unknown"); return; }
    let (c, note) = check_location(dc.ix, l);
    match c {
        Consistency::Ok => sink.count("loc.consistent"),
        Consistency::EofVirtualLine => {
            sink.count("loc.eof_virtual_line");
            o.fail("C16-eof-virtual-line", &format!("{role}: line/column name a line that does not exist (the input does not end with a line break), while the character offset is the end of the input"), dc.input, format!("{} ({note})", show(l)), "line/column of the end of the last line".into());
        }
        Consistency::Bad if has_multibyte_directive(&dc.ix.chars.iter().collect::<String>()) => {
            sink.count("loc.shifted_by_multibyte_directive");
            o.fail("C16-directive-multibyte-char-offset", &format!("{role}: after a directive line with non-ASCII characters the character offset (and the column on that line) counts bytes"), dc.input, format!("{} ({note})", show(l)), "character offset of the position".into());
        }
        Consistency::Bad => {
            sink.count("loc.INCONSISTENT");
            o.fail("C16-coordinates", &format!("{role}: line/column, character offset and byte offset do not denote one position of the input"), dc.input, format!("{} ({note})", show(l)), "one position".into());
        }
    }
    if l.span().byte_offset().is_none() && !(l.span().offset() == 0 && l.span().len() == 0) && role.starts_with("spanned") {
        // byte info may legitimately be absent only for the empty span at offset 0 (the `(0, 0)` encoding)
        sink.count("loc.spanned_without_bytes");
        o.fail("C16-byte-info-absent", "a span-carrying value without byte information although the input is a string", dc.input, show(l), "byte offset present".into());
    }
}

fn check_pos(o: &mut Oracle, sink: &mut Sink, dc: &DocCtx, l: &Location, node: usize, role: &str, want_src: bool) {
    check_coords(o, sink, dc, l, role);
    let inf = &dc.info[node];
    let Some(start) = inf.start else { return };
    if inf.empty {
        sink.count("pos.empty_node");
        if l.span().len() != 0 {
            sink.count("pos.empty_node_nonempty_span");
            o.fail("C16-empty-scalar-span", &format!("{role}: an empty (implicit null) scalar is reported with a non-empty span covering a neighbouring token"), dc.input,
                   format!("{} covering {:?}", show(l), dc.ix.slice(l.span().offset() as usize, l.span().len() as usize)), "an empty span".into());
        }
        return;
    }
    if l.span().offset() as usize != start {
        sink.count("pos.WRONG");
        let (el, ec) = dc.ix.line_col(start);
        o.fail("C16-spanned-position", &format!("{role}: the location does not name the node the generator rendered there"), dc.input, show(l), format!("line {el} column {ec} offset {start}"));
        return;
    }
    sink.count("pos.ok");
    if want_src {
        if let Some(src) = &inf.src {
            let got = dc.ix.slice(start, l.span().len() as usize);
            let bytes_ok = match (l.span().byte_offset(), l.span().byte_len()) {
                (Some(bo), Some(bl)) => dc.ix.byte_of.get(start) == Some(&(bo as usize)) && dc.input_text_bytes(bo as usize, bl as usize) == Some(src.as_str()),
                _ => src.is_empty() && start == 0,
            };
            let quoted = src.starts_with('"') || src.starts_with('\'');
            let trailing = got.strip_prefix(src.as_str()).map(|rest| !rest.is_empty() && (rest.chars().all(|c| c == ' ' || c == '\t') || rest.trim_start_matches([' ', '\t']).starts_with('#')) && !rest.contains(['\n', '\r'])).unwrap_or(false);
            // a literal block: the scanner has already consumed the indentation of the line after the block
            let at_end = start + got.chars().count() == dc.ix.chars.len();
            let block = !quoted && src.ends_with(['\n', '\r']);
            let block_next_indent = block && got.strip_prefix(src.as_str()).map(|rest| !rest.is_empty() && rest.chars().all(|c| c == ' ')).unwrap_or(false);
            let block_open_end = block && at_end && (format!("{got}\n") == *src || format!("{got}\r") == *src || format!("{got}\r\n") == *src);
            if block_open_end {
                sink.count("src.ok");
            } else if block_next_indent {
                sink.count("src.block_with_next_line_indent");
                o.fail("C16-block-scalar-span-includes-next-indent", &format!("{role}: the span of a literal block scalar also covers the indentation of the line that follows the block"), dc.input, format!("{} covering {:?}", show(l), got), format!("{:?}", src));
            } else if quoted && trailing {
                sink.count("src.quoted_with_trailing_blanks_or_comment");
                o.fail("C16-quoted-span-includes-trailing", &format!("{role}: the span of a quoted scalar also covers the blanks / comment that follow it on the line"), dc.input, format!("{} covering {:?}", show(l), got), format!("{:?}", src));
            } else if &got != src || !bytes_ok {
                sink.count("src.WRONG");
                o.fail("C16-span-source-text", &format!("{role}: the reported range is not exactly the node's source text"), dc.input, format!("{} covering {:?}", show(l), got), format!("{:?}", src));
            } else {
                sink.count("src.ok");
            }
        }
    }
}

impl<'a> DocCtx<'a> {
    fn input_text_bytes(&self, bo: usize, bl: usize) -> Option<&str> {
        let t = self.input.strip_prefix('\u{feff}').unwrap_or(self.input);
        t.get(bo..bo + bl)
    }
}

fn compare(o: &mut Oracle, sink: &mut Sink, dc: &DocCtx, e: &E, v: &SVal, path: &str) {
    match (e, v) {
        (E::Unknown, _) => sink.count("cmp.unknown"),
        (E::Sp { r, d, inner }, SVal::Spanned(rl, dl, x)) => {
            let kind = if r == d { "plain" } else if matches!(dc.info[*r].src.as_deref(), Some(s) if s.starts_with('*')) { "alias" } else { "merge" };
            sink.count(&format!("spanned.{kind}"));
            let scalar = matches!(**inner, E::Leaf { .. });
            check_pos(o, sink, dc, dl, *d, &format!("spanned {kind} `defined` at {path}"), scalar);
            check_pos(o, sink, dc, rl, *r, &format!("spanned {kind} `referenced` at {path}"), r != d || scalar);
            compare(o, sink, dc, inner, x, path);
        }
        (E::Leaf { .. }, SVal::Leaf(_)) => {}
        (E::Leaf { .. }, SVal::None) | (E::None, SVal::Leaf(_)) => {}
        (E::None, SVal::None) => {}
        (E::Some(x), SVal::Some(y)) => compare(o, sink, dc, x, y, path),
        (E::Seq(xs), SVal::Seq(ys)) if xs.len() == ys.len() => {
            for (i, (x, y)) in xs.iter().zip(ys).enumerate() { compare(o, sink, dc, x, y, &format!("{path}[{i}]")); }
        }
        (E::Map(es), SVal::Map(avs)) if es.len() == avs.len() && avs.iter().all(|(k, _)| matches!(k, Val::Str(_))) => {
            for (k, x) in es {
                match avs.iter().find(|(ak, _)| matches!(ak, Val::Str(s) if s == k)) {
                    Some((_, y)) => compare(o, sink, dc, x, y, &format!("{path}.{k}")),
                    None => { sink.count("cmp.SHAPE"); o.fail("C16-shape", "a key the generator expects is not delivered", dc.input, format!("{:?}", avs.iter().map(|a| a.0.tokens()).collect::<Vec<_>>()), k.clone()); }
                }
            }
        }
        (E::Map(es), SVal::Struct(fs)) => {
            for (k, x) in es {
                if let Some((_, y)) = fs.iter().find(|(n, _)| n == k) { compare(o, sink, dc, x, y, &format!("{path}.{k}")); }
            }
        }
        (e, v) => {
            sink.count("cmp.SHAPE");
            o.fail("C16-shape", &format!("value delivered at {path} does not have the shape the generator expects"), dc.input, v.tokens().chars().take(300).collect(), format!("{:?}", e).chars().take(300).collect());
        }
    }
}

/// every location inside a delivered value (for documents the generator has no expectation for)
fn all_locs(v: &SVal, out: &mut Vec<Location>) {
    match v {
        SVal::Spanned(r, d, x) => { out.push(*r); out.push(*d); all_locs(x, out); }
        SVal::Some(x) => all_locs(x, out),
        SVal::Seq(xs) => xs.iter().for_each(|x| all_locs(x, out)),
        SVal::Map(es) => es.iter().for_each(|(_, x)| all_locs(x, out)),
        SVal::Struct(fs) => fs.iter().for_each(|(_, x)| all_locs(x, out)),
        _ => {}
    }
}

fn ancestors_containing(n: &N, id: usize, trail: &mut Vec<usize>, out: &mut Vec<usize>) -> bool {
    if n.id() == id { out.extend(trail.iter().copied()); return true; }
    trail.push(n.id());
    let found = match n {
        N::Seq { items, .. } => items.iter().any(|i| ancestors_containing(i, id, trail, out)),
        N::Map { entries, .. } => entries.iter().any(|(_, v)| ancestors_containing(v, id, trail, out)),
        _ => false,
    };
    trail.pop();
    found
}

fn replace_leaf(n: &mut N, id: usize, with: &N) -> bool {
    if n.id() == id {
        let anchor = n.anchor().cloned();
        *n = with.clone();
        match n { N::Scalar { anchor: a, id: i, .. } | N::Seq { anchor: a, id: i, .. } | N::Map { anchor: a, id: i, .. } => { *a = anchor; *i = id; } _ => {} }
        return true;
    }
    match n {
        N::Seq { items, .. } => items.iter_mut().any(|i| replace_leaf(i, id, with)),
        N::Map { entries, .. } => entries.iter_mut().any(|(_, v)| replace_leaf(v, id, with)),
        _ => false,
    }
}

// =====================================================================================================
// main loop
// =====================================================================================================

fn random_layout(rng: &mut Rng) -> Layout {
    let breaks = *rng.pick(&[[1, 0, 0], [1, 0, 0], [0, 1, 0], [0, 0, 1], [1, 1, 1], [3, 1, 0], [1, 1, 0]]);
    Layout { breaks, comments: rng.chance(2, 3), tabs: rng.chance(1, 2), bom: rng.chance(1, 5), doc_start: rng.chance(1, 5), final_break: !rng.chance(1, 4), directive: if rng.chance(1, 8) { 1 + rng.below(3) as u8 } else { 0 } }
}

fn mark_of(i: usize, l: usize, c: usize, bo: Option<usize>) -> saphyr_parser::Marker {
    saphyr_parser::Marker::new(i, l, c).with_byte_offset(bo)
}

/// `text` = the in-memory input handed to the conversion (`None` = reader input: no normalisation)
fn conv_case(sink: &mut Sink, text: Option<&str>, s: &saphyr_parser::Marker, e: &saphyr_parser::Marker) {
    let span = saphyr_parser::Span::new(*s, *e);
    let ans = match catch(|| serde_saphyr::verif_hooks::locs::location_from_span_in(&span, text)) {
        Ok(l) => loc_tok(&l),
        Err(_) => "panic".into(),
    };
    sink.case(&format!("locs conv {} {} {}", text.map(hex).unwrap_or_else(|| "-".into()), mark_tok(s), mark_tok(e)), &ans);
}

fn scanerr_case(sink: &mut Sink, text: Option<&str>, m: &saphyr_parser::Marker, ua: bool) {
    let info = if ua { "while parsing node, found unknown anchor" } else { "did not find expected node content" };
    let err = saphyr_parser::ScanError::new(*m, info.to_string());
    let ans = match catch(|| serde_saphyr::verif_hooks::locs::from_scan_error_in(err, text)) {
        Ok(e) => format!("{} {}", crate::errs::kind(&e), e.location().map(|l| loc_tok(&l)).unwrap_or_else(|| "L0.0.0.0.-.-".into())),
        Err(_) => "panic".into(),
    };
    sink.case(&format!("locs scanerr {} {} {}", b(ua), text.map(hex).unwrap_or_else(|| "-".into()), mark_tok(m)), &ans);
}

/// marks of the real parser against `posOf` (one op per text), the end-of-stream mark, and the conversions
fn text_cases(sink: &mut Sink, text: &str, marks: &[saphyr_parser::Marker], end_mark: &Option<saphyr_parser::Marker>, ix: &TextIndex, conv_budget: &mut usize, rng: &mut Rng) {
    let n = ix.chars.len();
    let mut by_index: BTreeMap<usize, BTreeSet<(usize, usize, Option<usize>)>> = BTreeMap::new();
    // marks at the end of the input that are not the plain position of the end (taken after the scanner
    // closed the stream: `fetch_stream_end` forces a new line) are compared by `endmark`
    let mut eof_marks: BTreeSet<String> = BTreeSet::new();
    if let Some(em) = end_mark { eof_marks.insert(mark_tok(em)); }
    for m in marks {
        if m.index() == n {
            let (l, c) = ix.line_col(n);
            if (m.line(), m.col() + 1) != (l, c) { eof_marks.insert(mark_tok(m)); continue; }
        }
        by_index.entry(m.index()).or_default().insert((m.line(), m.col(), m.byte_offset()));
    }
    if !by_index.is_empty() {
        let idx: Vec<String> = by_index.keys().map(|i| i.to_string()).collect();
        let ans: Vec<String> = by_index.values().map(|set| set.iter().map(|(l, c, bo)| format!("{}.{}.{}", l, c, bo.map(|x| x.to_string()).unwrap_or_else(|| "-".into()))).collect::<Vec<_>>().join("|")).collect();
        sink.count("pos.texts");
        let cls = if has_multibyte_directive(text) { "mbdir" } else { "t" };
        sink.case(&format!("locs pos {} {} {}", cls, hex(text), idx.join(" ")), &ans.join(" "));
    }
    for em in &eof_marks {
        sink.count(if ix.ends_with_break() || n == 0 { "endmark.after_break" } else { "endmark.open_line" });
        let cls = if has_multibyte_directive(text) { "mbdir" } else { "t" };
        sink.case(&format!("locs endmark {} {}", cls, hex(text)), em);
    }
    // the oracle's own position function against the model, for every index of the text
    if n <= 120 {
        let all: Vec<String> = (0..=n).map(|i| { let (l, c) = ix.line_col(i); format!("{}.{}.{}", l, c - 1, ix.byte_of[i]) }).collect();
        sink.case(&format!("locs posall {}", hex(text)), &all.join(" "));
    }
    // conversions on pairs of real marks, with the text (as `LiveEvents` does for string input) and without
    if *conv_budget > 0 && marks.len() >= 2 {
        for _ in 0..3 {
            let i = rng.below(marks.len() - 1);
            let (s, e) = (marks[i], marks[i + 1]);
            if e.index() >= s.index() { conv_case(sink, if rng.chance(1, 5) { None } else { Some(text) }, &s, &e); *conv_budget -= 1; }
        }
        let m = marks[rng.below(marks.len())];
        scanerr_case(sink, Some(text), &m, rng.chance(1, 4));
        // the last marks of the stream (where the scanner has forced its new line), and a mark of the text
        // against a different text (the conversion must not trust what it cannot see)
        let last = marks[marks.len() - 1];
        conv_case(sink, Some(text), &last, &last);
        scanerr_case(sink, Some(text), &last, false);
        if let Some(em) = end_mark { conv_case(sink, Some(text), em, em); conv_case(sink, None, em, em); *conv_budget = conv_budget.saturating_sub(2); }
        if rng.chance(1, 4) {
            let other: String = text.chars().rev().collect();
            conv_case(sink, Some(&other), &last, &last);
            let cut: String = text.chars().take(text.chars().count() / 2).collect();
            conv_case(sink, Some(&cut), &last, &last);
        }
    }
}

fn synthetic_conv(sink: &mut Sink, rng: &mut Rng, thorough: bool) {
    let edge: [usize; 12] = [0, 1, 2, 255, 65535, 4294967294, 4294967295, 4294967296, 4294967297, 8589934591, 8589934592, 1 << 40];
    let n = if thorough { 60000 } else { 6000 };
    for k in 0..n {
        let pick = |rng: &mut Rng| -> usize { if rng.chance(1, 3) { rng.below(300) } else { edge[rng.below(edge.len())] + rng.below(3) } };
        let si = pick(rng);
        let len = if rng.chance(1, 2) { rng.below(40) } else { pick(rng) };
        let (sl, sc) = (1 + pick(rng), pick(rng));
        let sb = if rng.chance(1, 8) { None } else { Some(si + if rng.chance(1, 2) { 0 } else { pick(rng) }) };
        let eb = if rng.chance(1, 8) { None } else { Some(sb.unwrap_or(si) + if rng.chance(1, 10) { 0 } else { len + if rng.chance(1, 2) { 0 } else { pick(rng) } }) };
        // one in sixteen: an end byte offset before the start (saturating_sub)
        let eb = if rng.chance(1, 16) { sb.map(|b| b.saturating_sub(1 + rng.below(3))) } else { eb };
        let s = mark_of(si, sl, sc, sb);
        let e = mark_of(si + len, sl + rng.below(3), rng.below(50), eb);
        conv_case(sink, None, &s, &e);
        if k % 5 == 0 { scanerr_case(sink, None, &s, k % 10 == 0); }
        if k % 7 == 0 {
            // a synthetic mark against a small text: column 0 / byte offsets inside, at and beyond the end, on and off
            // character boundaries, after a break and after other characters
            let t = *rng.pick(&["a", "ab\n", "é", "a\r\nbé", "x\ry", "日本\n語", "", "a\n\n", "😀"]);
            let m = mark_of(rng.below(6), 1 + rng.below(4), if rng.chance(2, 3) { 0 } else { rng.below(3) }, if rng.chance(1, 8) { None } else { Some(rng.below(t.len() + 3)) });
            conv_case(sink, Some(t), &m, &m);
            scanerr_case(sink, Some(t), &m, false);
        }
        if k % 97 == 0 {
            // end before start: `Span::len` underflows
            let e2 = mark_of(si.saturating_sub(1 + rng.below(3)), sl, sc, sb);
            if e2.index() < s.index() { conv_case(sink, None, &s, &e2); sink.count("conv.end_before_start"); }
        }
    }
}

/// random short texts over a small alphabet: the model's walk against the oracle's position function
fn small_texts(sink: &mut Sink, rng: &mut Rng, thorough: bool) {
    let alpha: [&str; 9] = ["a", "é", "日", "😀", "\n", "\r", "\t", " ", "#"];
    // exhaustive up to length 4 over {a, é, \n, \r}
    let small: [&str; 4] = ["a", "é", "\n", "\r"];
    for len in 0..=(if thorough { 6 } else { 4 }) {
        let total = small.len().pow(len as u32);
        for code in 0..total {
            let mut c = code;
            let mut t = String::new();
            for _ in 0..len { t.push_str(small[c % small.len()]); c /= small.len(); }
            let ix = TextIndex::new(&t);
            let all: Vec<String> = (0..=ix.chars.len()).map(|i| { let (l, c) = ix.line_col(i); format!("{}.{}.{}", l, c - 1, ix.byte_of[i]) }).collect();
            sink.count("posall.exhaustive");
            sink.case(&format!("locs posall {}", hex(&t)), &all.join(" "));
        }
    }
    for _ in 0..(if thorough { 20000 } else { 2000 }) {
        let len = rng.below(24);
        let t: String = (0..len).map(|_| *rng.pick(&alpha)).collect();
        let ix = TextIndex::new(&t);
        let all: Vec<String> = (0..=ix.chars.len()).map(|i| { let (l, c) = ix.line_col(i); format!("{}.{}.{}", l, c - 1, ix.byte_of[i]) }).collect();
        sink.count("posall.random");
        sink.case(&format!("locs posall {}", hex(&t)), &all.join(" "));
    }
}

fn mismatch_for(t: &Ty, rng: &mut Rng, id: usize, extra_id: usize) -> N {
    if rng.chance(1, 4) {
        // a container where a scalar is wanted
        return N::Seq { id, anchor: None, items: vec![N::Scalar { id: extra_id, text: "zz".into(), style: 0, anchor: None }], flow: true };
    }
    let text = match t {
        Ty::Char => "ab é",
        Ty::Str => "~",
        _ => "oopsé",
    };
    N::Scalar { id, text: text.into(), style: 0, anchor: None }
}

fn generate(a: &Args) -> i32 {
    let mut rng = Rng::new(a.seed ^ 0xC16);
    let mut sink = Sink::new(&a.out, "locs");
    let mut o = Oracle { out: vec![], per_id: BTreeMap::new() };
    let mut distinct = BTreeSet::new();
    let mut conv_budget = if a.thorough { 200000 } else { 12000 };
    let n_docs = if a.thorough { 20000 } else { 1500 };
    let ra = ra_ty();

    small_texts(&mut sink, &mut rng, a.thorough);
    synthetic_conv(&mut sink, &mut rng, a.thorough);

    for i in 0..n_docs {
        // ---- family: 0 untyped tree, 1 the fixed derived family RA, 2 random typed
        let family = i % 3;
        let lay = random_layout(&mut rng);
        let mut g = G::new(&mut rng);
        let (sty, doc): (STy, N) = match family {
            0 => { let d = g.node(0, 4); (tree(), d) }
            1 => { let d = g.typed_doc(&ra); (ra.clone(), d) }
            _ => { let t = root_sty(g.rng); let d = g.typed_doc(&t); (t, d) }
        };
        let n_ids = g.next_id;
        let leaves = std::mem::take(&mut g.leaves);
        let nz_leaves = std::mem::take(&mut g.nz_leaves);
        let layout_rng = rng.clone();
        let rd = render(&doc, n_ids, lay, &mut rng);
        sink.count(&format!("family.{}", ["tree", "derived", "typed"][family]));
        sink.count(&format!("layout.breaks.{}{}{}", lay.breaks[0], lay.breaks[1], lay.breaks[2]));
        if lay.bom { sink.count("layout.bom"); }
        if !lay.final_break { sink.count("layout.no_final_break"); }
        if rd.text.chars().any(|c| c as u32 > 0x7f) { sink.count("layout.multibyte"); }
        if rd.text.contains('\t') { sink.count("layout.tab"); }
        if rd.text.contains('#') { sink.count("layout.comment_or_hash"); }

        let accepted = one_document(&mut sink, &mut o, &mut distinct, &mut conv_budget, &mut rng, &sty, &doc, &rd, true, family == 1);

        // ---- every (sampled) leaf in turn replaced by a mismatching scalar
        if family != 0 && accepted && !leaves.is_empty() {
            let k = if a.thorough { 6 } else { 3 };
            for _ in 0..k.min(leaves.len()) {
                let (leaf_id, lt) = leaves[rng.below(leaves.len())].clone();
                let mut m = doc.clone();
                let with = mismatch_for(&lt, &mut rng, leaf_id, n_ids);
                if !replace_leaf(&mut m, leaf_id, &with) { continue; }
                let mut lr = layout_rng.clone();
                let rdm = render(&m, n_ids + 1, lay, &mut lr);
                mutant(&mut sink, &mut o, &sty, &m, &rdm, leaf_id);
            }
        }

        // ---- every (sampled) `NonZero*` leaf in turn replaced by 0: a Serde error WITHOUT location raised while that
        // mapping value / sequence element is read must be reported where a span-carrying value at the leaf is
        if family == 2 && accepted && !nz_leaves.is_empty() {
            let k = if a.thorough { 6 } else { 3 };
            for _ in 0..k.min(nz_leaves.len()) {
                let leaf_id = nz_leaves[rng.below(nz_leaves.len())];
                let mut m = doc.clone();
                let with = N::Scalar { id: leaf_id, text: rng.pick(&["0", "0", "0x0"]).to_string(), style: 0, anchor: None };
                if !replace_leaf(&mut m, leaf_id, &with) { continue; }
                let mut lr = layout_rng.clone();
                let rdm = render(&m, n_ids + 1, lay, &mut lr);
                sink.count("static_error.mutant");
                mutant(&mut sink, &mut o, &sty, &m, &rdm, leaf_id);
                match run_impl(&rdm.input, &sty) {
                    Ok(Err(e)) => sink.count(&format!("static_error.mutant.{}", crate::errs::kind(crate::errs::unwrap_snippet(&e)))),
                    Ok(Ok(v)) => {
                        // not an error when the zero is not delivered to the NonZero type (the leaf sits in a merge source whose key is overridden)
                        sink.count("static_error.mutant.accepted");
                        if sink.samples.len() < 60 { sink.samples.push(format!("ZERO-ACCEPTED {:?} => {}", rdm.input, v.tokens().chars().take(200).collect::<String>())); }
                    }
                    Err(_) => {}
                }
            }
        }

        // ---- a damaged copy of the text: whatever is reported must still be a position of that text
        if i % 2 == 0 {
            let chars: Vec<char> = rd.text.chars().collect();
            if !chars.is_empty() {
                let mut c2 = chars.clone();
                let p = rng.below(c2.len());
                match rng.below(5) {
                    0 => c2.truncate(p),
                    1 => { c2.remove(p); }
                    2 => c2.insert(p, *rng.pick(&['[', '{', ':', '"', '\'', '*', '&', '\t', 'é', '\r', '-', ']', '}', '|', '%', '!'])),
                    3 => c2[p] = *rng.pick(&[']', '}', ':', '"', '*', '&', '\n', ',', '😀']),
                    _ => { let q = rng.below(c2.len()); c2.swap(p, q); }
                }
                let t2: String = c2.into_iter().collect();
                damaged(&mut sink, &mut o, &mut conv_budget, &mut rng, &t2);
            }
        }
    }

    enum_family(&mut sink, &mut o);
    static_error_family(&mut sink, &mut o);

    // the recorded witnesses of the findings, every run
    for (text, _) in [("%YAML 1.2", ()), ("# c", ()), ("%日本語 x\n---\na", ())] { damaged(&mut sink, &mut o, &mut conv_budget, &mut rng, text); }

    let nt = sink.stats.get("distinct_nontrivial").copied().unwrap_or(0);
    let mut f = std::io::BufWriter::new(std::fs::File::create(format!("{}/locs.oracle.jsonl", a.out)).unwrap());
    use std::io::Write;
    for v in &o.out { writeln!(f, "{}", serde_json::to_string(v).unwrap()).unwrap(); }
    for (id, n) in &o.per_id { sink.stats.insert(format!("oracle_fail.{id}"), *n as u64); }
    sink.finish(&a.out, "locs", serde_json::json!({
        "distinct_nontrivial": nt,
        "rule": "documents rendered by this module (it records the character offset and source text of every node): untyped trees whose every node is Spanned, the fixed derived family RA (Spanned<i32/String/bool/f64/u8/char/Option/Vec/struct> fields, cross-checked against the run-time seeds) and random typed targets; multi-byte characters in scalars, keys, anchors and comments; LF / CRLF / CR line breaks (uniform and mixed), tabs as separators and before comments, trailing and whole-line comments, flow and block layout, literal blocks, anchors, aliases (also inside anchored containers), merge keys (alias, inline mapping, sequence of sources, nested merges), leading BOM, with and without a final line break; every sampled leaf in turn replaced by a mismatching scalar or a container; damaged copies of the texts (truncated, one character deleted / inserted / replaced / swapped) for the error locations. Differential: posOf over the real parser's marks, the end-of-stream mark, location_from_span / from_scan_error through the hook on real and synthetic marks around the u32 boundary, and the span-carrying deserialization (value with both locations at every wrapper, or error kind with both locations) against the Lean model run on the real parser's items. Oracle (implementation only): coordinates of every reported location recomputed from the text; referenced / defined of every wrapper against the generator's positions; byte range against the node's source text; locations() of a provoked type error against the uses of the damaged leaf. Non-trivial = distinct (type, item stream) with more than 6 events and at least one span-carrying value or located error.",
    }));
    0
}

// ---- enum payloads: a span-carrying value / a type error inside the payload of a variant (every notation: `{V: p}`
// flow and block, `!V p`; newtype, tuple, struct variants), directly and through an alias, must name the alias token
// as use site and the anchored node as definition site (implementation-only oracle on fixed derived types)
#[derive(Debug, Deserialize)]
#[allow(dead_code)]
enum Sh { Circle(Spanned<u32>), Pair(Spanned<u32>, Spanned<u32>), Rec { w: Spanned<u32> } }
#[derive(Debug, Deserialize)]
#[allow(dead_code)]
struct EnumDoc { r: serde::de::IgnoredAny, s: Sh }

#[derive(Debug, Deserialize)]
#[allow(dead_code)]
struct NzDoc { a: u8, k: std::num::NonZeroU8 }

/// the type with every `NonZero*` replaced by the span-carrying plain integer (which accepts 0)
fn spanned_variant(t: &STy) -> STy {
    match t {
        STy::NonZero(s, bits) => sp(leaf(Ty::Int(*s, *bits))),
        STy::Spanned(x) => sp(spanned_variant(x)),
        STy::Option(x) => STy::Option(Box::new(spanned_variant(x))),
        STy::Seq(x) => STy::Seq(Box::new(spanned_variant(x))),
        STy::Map(x) => STy::Map(Box::new(spanned_variant(x))),
        STy::Struct(fs) => STy::Struct(fs.iter().map(|(n, x)| (*n, spanned_variant(x))).collect()),
        other => other.clone(),
    }
}

/// the (referenced, defined) pair of the first span-carrying value that holds the integer 0
fn zero_span(v: &SVal) -> Option<(Location, Location)> {
    match v {
        SVal::Spanned(r, d, x) => match &**x { SVal::Leaf(Val::Int(0)) => Some((*r, *d)), other => zero_span(other) },
        SVal::Some(x) => zero_span(x),
        SVal::Seq(xs) => xs.iter().find_map(zero_span),
        SVal::Map(es) => es.iter().find_map(|(_, x)| zero_span(x)),
        SVal::Struct(fs) => fs.iter().find_map(|(_, x)| zero_span(x)),
        _ => None,
    }
}

/// errors that Serde raises WITHOUT a location while a value is read (`invalid_value` of the `NonZero*` visitors): the
/// location attached to them must be that of the value node — where a span-carrying value at that node reports it: use
/// site and definition site, through aliases and merges —, in mappings as in sequences. Differential (the model's
/// fallback rule, `locs sp` with `Z` types) and oracle (against `Spanned<u8>` at the same node, and against the text).
fn static_error_family(sink: &mut Sink, o: &mut Oracle) {
    let off = |l: &Location| l.span().offset() as usize;
    for text in ["a: 1\nk:   0\n", "{a: 1, k: 0}\n", "a: 1\nk:\n  0\n", "k: 0 # c\na: 2\n"] {
        let want = text.find("0").map(|b| text[..b].chars().count()).unwrap();
        sink.count("static_error.map_value");
        match serde_saphyr::from_str::<NzDoc>(text) {
            Ok(d) => o.fail("C16-static-error-position", "zero accepted as NonZeroU8", text, format!("{d:?}"), "an error".into()),
            Err(e) => match e.location() {
                Some(l) if off(&l) == want => {}
                other => o.fail("C16-static-error-at-map-value-reported-at-key", "a Serde error without location raised while a MAPPING VALUE is read is reported at the key, not at the value node (a span-carrying value there reports the value)", text,
                                format!("{:?}", other.map(|l| show(&l))), format!("offset {want}")),
            },
        }
    }
    for text in ["[1, 0]\n", "- 1\n-   0\n"] {
        let want = text.find("0").map(|b| text[..b].chars().count()).unwrap();
        sink.count("static_error.seq_element");
        if let Err(e) = serde_saphyr::from_str::<Vec<std::num::NonZeroU8>>(text) {
            if e.location().map(|l| off(&l)) != Some(want) {
                o.fail("C16-static-error-position", "a Serde error without location raised while a sequence element is read is not reported at the element", text, format!("{:?}", e.location().map(|l| show(&l))), format!("offset {want}"));
            }
        }
    }

    // ---- the same through the run-time type descriptions: differential case + comparison with the span-carrying value
    let nz = || STy::NonZero(false, 8);
    let u8t = || leaf(Ty::Int(false, 8));
    let bx = |t: STy| Box::new(t);
    let ak = || STy::Struct(vec![("a", u8t()), ("k", nz())]);
    let cases: Vec<(&str, &str, STy)> = vec![
        ("map/block", "a: 1\nk:   0\n", ak()),
        ("map/flow", "{a: 1, k: 0}\n", ak()),
        ("map/next-line", "a: 1\nk:\n  0\n", ak()),
        ("map/first-comment", "k: 0 # c\na: 2\n", ak()),
        ("map/crlf-multibyte", "é: 1\r\na: 2\r\nk:   0x0\r\n", ak()),
        ("map/untyped-keys", "{p: 1, q: 0}\n", STy::Map(bx(nz()))),
        ("map/second-missing", "k: 0\n", ak()),
        ("seq/flow", "[1, 0]\n", STy::Seq(bx(nz()))),
        ("seq/block", "- 1\n-   0\n", STy::Seq(bx(nz()))),
        ("seq/in-map-in-map", "k: {p: [1, 0]}\n", STy::Struct(vec![("k", STy::Map(bx(STy::Seq(bx(nz())))))])),
        ("wrapped/spanned", "a: 1\nk:   0\n", STy::Struct(vec![("a", u8t()), ("k", sp(nz()))])),
        ("wrapped/option", "a: 1\nk:   0\n", STy::Struct(vec![("a", u8t()), ("k", STy::Option(bx(nz())))])),
        ("wrapped/option-spanned", "[~, 0]\n", STy::Seq(bx(STy::Option(bx(sp(nz())))))),
        ("alias/value", "a: &z 0\nk: *z\n", ak()),
        ("alias/element", "a: &z 0\nk: [1, *z]\n", STy::Struct(vec![("a", u8t()), ("k", STy::Seq(bx(nz())))])),
        ("alias/container", "s: &s [1, 0]\nk: *s\n", STy::Struct(vec![("k", STy::Seq(bx(nz())))])),
        ("alias/map-container", "s: &s {a: 1, k: 0}\nt: *s\n", STy::Struct(vec![("t", ak())])),
        ("merge/alias", "m: &m {k: 0}\nt: {<<: *m, a: 1}\n", STy::Struct(vec![("t", ak())])),
        ("merge/sequence", "m: &m {k: 0}\nn: &n {a: 1}\nt: {<<: [*n, *m]}\n", STy::Struct(vec![("t", ak())])),
        ("merge/inline", "t: {<<: {k: 0}, a: 1}\n", STy::Struct(vec![("t", ak())])),
        ("signed", "a: 1\nk: -0\n", STy::Struct(vec![("a", u8t()), ("k", STy::NonZero(true, 32))])),
        ("wide", "- 18446744073709551615\n- 0\n", STy::Seq(bx(STy::NonZero(false, 64)))),
    ];
    for (name, text, sty) in &cases {
        let (items, _, _, _) = items_tokens(text);
        let r = run_impl(text, sty);
        let ans = answer(&r);
        sink.count(&format!("static_error.typed.{}", ans.split(' ').take(2).collect::<Vec<_>>().join(".")));
        sink.case(&format!("locs sp {} {} {} | {}", cfg().tokens(false), sty.tokens(), hex(text), items), &ans);
        let spt = spanned_variant(sty);
        let r2 = run_impl(text, &spt);
        sink.case(&format!("locs sp {} {} {} | {}", cfg().tokens(false), spt.tokens(), hex(text), items), &answer(&r2));
        let want = match &r2 { Ok(Ok(v)) => zero_span(v), _ => None };
        let Some((wr, wd)) = want else {
            // `map/second-missing`: the span-carrying variant fails too (missing field `a`) — the zero is met first by the NonZero type
            if *name != "map/second-missing" { sink.count("HARNESS_FAULT.static_error_reference"); o.fail("C16-harness-seed", &format!("{name}: the span-carrying variant of the static-error case delivers no zero"), text, answer(&r2), "a span-carrying 0".into()); }
            continue;
        };
        match &r {
            Err(msg) => o.fail("C16-panic", "panic", text, msg.clone(), "no panic".into()),
            Ok(Ok(v)) => o.fail("C16-static-error-position", &format!("{name}: zero accepted by a NonZero type"), text, v.tokens(), "an error".into()),
            Ok(Err(e)) => match e.locations() {
                Some(ls) if ls.reference_location == wr && ls.defined_location == wd && e.location() == Some(wr) => {}
                other => o.fail(if name.starts_with("seq") { "C16-static-error-position" } else { "C16-static-error-at-map-value-reported-at-key" },
                                &format!("{name}: a Serde error without location raised while a value is read is not reported where a span-carrying value at that node is"), text,
                                format!("{} ; locations {:?}", err_tok(e), other.map(|l| (show(&l.reference_location), show(&l.defined_location)))), format!("referenced {} defined {}", show(&wr), show(&wd))),
            },
        }
    }
    // a top-level call has no guard of its own: the error carries no location at all (differential only)
    for (text, sty) in [("0\n", nz()), ("0\n", sp(nz())), ("--- 0\n", STy::Option(bx(nz())))] {
        let (items, _, _, _) = items_tokens(text);
        let r = run_impl(text, &sty);
        sink.count("static_error.toplevel");
        sink.case(&format!("locs sp {} {} {} | {}", cfg().tokens(false), sty.tokens(), hex(text), items), &answer(&r));
    }
}

fn enum_family(sink: &mut Sink, o: &mut Oracle) {
    // (document template with {P} for the anchored payload, how the variant uses `*r`)
    let forms: [(&str, &str); 16] = [
        ("tuple/tagged-direct", "r: 0\ns: !Pair [1, {P}]\n"), ("tuple/tagged-direct-first", "r: 0\ns: !Pair\n  - {P}\n  - 2\n"),
        ("tuple/tagged-anchored", "r: &r !Pair [1, {P}]\ns: *r\n"), ("struct/tagged-map-direct", "r: 0\ns: {Rec: {w: {P}}} # é\n"),
        ("newtype/flow-map", "r: &r {P}\ns: {Circle: *r}\n"), ("newtype/block-map", "r: &r {P}\ns:\n  Circle: *r\n"),
        ("newtype/block-map-crlf", "r: &r {P}\r\ns:\r\n  Circle: *r\r\n"), ("newtype/tagged", "r: &r !Circle {P}\ns: *r\n"),
        ("tuple/flow", "r: &r {P}\ns: {Pair: [1, *r]}\n"), ("tuple/block", "r: &r {P}\ns:\n  Pair:\n    - *r\n    - 2\n"),
        ("struct/flow", "r: &r {P}\ns: {Rec: {w: *r}}\n"), ("struct/block", "r: &r {P}\ns:\n  Rec:\n    w: *r\n"),
        ("newtype/direct-flow", "r: 0\ns: {Circle: {P}}\n"), ("newtype/direct-block", "r: 0\ns:\n  Circle: {P}\n"),
        ("struct/direct", "r: 0\ns: {Rec: {w: {P}}}\n"), ("newtype/multibyte", "r: &r {P} # é\ns: {Circle: *r} # ü\n"),
    ];
    let off = |l: &Location| l.span().offset() as usize;
    for (name, tpl) in forms {
        for (payload, good) in [("57", true), ("oops", false), ("-1", false), ("[1]", false)] {
            let text = tpl.replace("{P}", payload);
            // character offsets (the locations count characters)
            let cpos = |needle: &str| text.find(needle).map(|b| text[..b].chars().count());
            let def = cpos(payload).unwrap();
            let (want_ref, want_def) = match cpos("*r") { Some(a) => (a, def), None => (def, def) };
            let r = std::panic::catch_unwind(|| serde_saphyr::from_str::<EnumDoc>(&text));
            sink.count(&format!("enumsp.{name}.{}", if good { "value" } else { "type_error" }));
            match r {
                Err(_) => o.fail("C16-panic", "panic", &text, "panic".into(), "no panic".into()),
                Ok(Ok(d)) => {
                    if !good { o.fail("C16-enum-payload", &format!("{name}: mismatching payload accepted"), &text, format!("{d:?}"), "a type error".into()); continue; }
                    let sp = match &d.s { Sh::Circle(x) => x, Sh::Pair(a, b) => if cpos("[1, ").is_some() { b } else { a }, Sh::Rec { w } => w };
                    if off(&sp.referenced) != want_ref || off(&sp.defined) != want_def {
                        o.fail("C16-enum-payload-spanned", &format!("{name}: span-carrying payload of a variant"), &text,
                               format!("referenced offset {} defined offset {}", off(&sp.referenced), off(&sp.defined)), format!("referenced offset {want_ref} defined offset {want_def}"));
                    }
                }
                Ok(Err(e)) => {
                    if good { o.fail("C16-enum-payload", &format!("{name}: matching payload rejected"), &text, err_tok(&e), "a value".into()); continue; }
                    if payload == "[1]" && name.starts_with("newtype/tagged") { continue; }   // a tagged sequence is a tuple-variant payload: another error site
                    match e.locations() {
                        None => o.fail("C16-error-unlocated", &format!("{name}: type error inside a variant payload carries no location"), &text, err_tok(&e), "a location".into()),
                        Some(ls) => {
                            if off(&ls.reference_location) != want_ref || off(&ls.defined_location) != want_def {
                                o.fail("C16-enum-payload-error", &format!("{name}: a type error at the payload of a variant is not reported where a span-carrying value at that node is"), &text,
                                       format!("referenced offset {} defined offset {}", off(&ls.reference_location), off(&ls.defined_location)), format!("referenced offset {want_ref} defined offset {want_def}"));
                            }
                        }
                    }
                }
            }
        }
    }
}

#[allow(clippy::too_many_arguments)]
fn one_document(sink: &mut Sink, o: &mut Oracle, distinct: &mut BTreeSet<(String, String)>, conv_budget: &mut usize, rng: &mut Rng,
                sty: &STy, doc: &N, rd: &Rendered, expect_ok: bool, derived: bool) -> bool {
    let ix = TextIndex::new(&rd.text);
    let (items, nev, marks, end_mark) = items_tokens(&rd.text);
    text_cases(sink, &rd.text, &marks, &end_mark, &ix, conv_budget, rng);
    let r = run_impl(&rd.input, sty);
    let ans = answer(&r);
    sink.count(&format!("sp.{}", ans.split(' ').take(if ans.starts_with("err") { 2 } else { 1 }).collect::<Vec<_>>().join(".")));
    sink.case(&format!("locs sp {} {} {} | {}", cfg().tokens(false), sty.tokens(), hex(&rd.text), items), &ans);
    if nev > 6 && distinct.insert((sty.tokens(), items.clone())) && (ans.contains(" p L") || ans.starts_with("err")) { sink.count("distinct_nontrivial"); }
    let dc = DocCtx { input: &rd.input, ix: &ix, info: &rd.info };
    match &r {
        Err(msg) => o.fail("C16-panic", "panic", &rd.input, msg.clone(), "no panic".into()),
        Ok(Ok(v)) => {
            let mut anchors = BTreeMap::new();
            collect_anchors(doc, &mut anchors);
            let cx = Ctx { anchors };
            let e = cx.expect(sty, doc, None, 64);
            compare(o, sink, &dc, &e, v, "$");
            if derived {
                // the run-time seeds against the real derived family
                match catch(|| serde_saphyr::from_str_with_options::<RA>(&rd.input, cfg().options())) {
                    Ok(Ok(real)) => {
                        if normalize(&ra_val(&real)) != normalize(v) {
                            sink.count("HARNESS_FAULT.seed_vs_derive");
                            o.fail("C16-harness-seed", "the run-time seed and the derived type disagree (harness fault, not a property violation)", &rd.input, ra_val(&real).tokens().chars().take(400).collect(), v.tokens().chars().take(400).collect());
                        } else { sink.count("derive.agrees"); }
                    }
                    other => { sink.count("HARNESS_FAULT.seed_vs_derive"); o.fail("C16-harness-seed", "the derived type fails where the seed succeeds", &rd.input, format!("{:?}", other.map(|r| r.map(|_| ()).map_err(|e| e.to_string()))), "ok".into()); }
                }
            }
        }
        Ok(Err(e)) => {
            if expect_ok { sink.count("doc.rejected"); }
            if let Some(ls) = e.locations() {
                check_coords(o, sink, &dc, &ls.reference_location, "error reference location");
                check_coords(o, sink, &dc, &ls.defined_location, "error defined location");
            }
            if let Some(l) = e.location() { check_coords(o, sink, &dc, &l, "error location"); }
            if expect_ok && sink.samples.len() < 40 { sink.samples.push(format!("REJECTED {:?} => {}", rd.input, ans)); }
        }
    }
    matches!(r, Ok(Ok(_)))
}

fn mutant(sink: &mut Sink, o: &mut Oracle, sty: &STy, doc: &N, rd: &Rendered, leaf_id: usize) {
    let ix = TextIndex::new(&rd.text);
    let (items, _, _, _) = items_tokens(&rd.text);
    let r = run_impl(&rd.input, sty);
    let ans = answer(&r);
    sink.count(&format!("mutant.{}", ans.split(' ').take(2).collect::<Vec<_>>().join(".")));
    sink.case(&format!("locs sp {} {} {} | {}", cfg().tokens(false), sty.tokens(), hex(&rd.text), items), &ans);
    let dc = DocCtx { input: &rd.input, ix: &ix, info: &rd.info };
    let Ok(Err(e)) = &r else {
        if let Err(msg) = &r { o.fail("C16-panic", "panic", &rd.input, msg.clone(), "no panic".into()); }
        sink.count("mutant.no_error");
        return;
    };
    if matches!(crate::errs::unwrap_snippet(e), serde_saphyr::Error::ExternalMessage { .. } | serde_saphyr::Error::UnknownAnchor { .. }) {
        // the replacement made the text unparsable (e.g. a tab now sits where the parser rejects one): not a type error
        sink.count("mutant.syntax_error");
        if let Some(ls) = e.locations() { check_coords(o, sink, &dc, &ls.reference_location, "error location"); }
        return;
    }
    let mut anchors = BTreeMap::new();
    collect_anchors(doc, &mut anchors);
    let cx = Ctx { anchors };
    let ex = cx.expect(sty, doc, None, 64);
    let mut uses = Vec::new();
    // the damaged node is a leaf of the expectation only when it still is a scalar; a container is looked up by id
    uses_of_any(&ex, leaf_id, &mut uses, &cx, sty, doc);
    let Some(ls) = e.locations() else {
        sink.count("mutant.UNLOCATED");
        o.fail("C16-error-unlocated", "a type error at a known node carries no location", &rd.input, format!("{:?}", crate::errs::kind(e)), "a location".into());
        return;
    };
    check_coords(o, sink, &dc, &ls.reference_location, "type error reference location");
    check_coords(o, sink, &dc, &ls.defined_location, "type error defined location");
    if uses.is_empty() { sink.count("mutant.leaf_not_delivered"); return; }
    let start = |id: usize| rd.info[id].start;
    let (ro, dfo) = (ls.reference_location.span().offset() as usize, ls.defined_location.span().offset() as usize);
    let exact = uses.iter().any(|(r, d, _)| start(*r) == Some(ro) && start(*d) == Some(dfo));
    if exact {
        sink.count(if ro == dfo { "mutant.located.plain" } else { "mutant.located.alias_or_merge" });
        if e.location().map(|l| l.span().offset() as usize) != Some(ro) {
            o.fail("C16-error-primary", "location() of the error is not its use-site location", &rd.input, format!("{:?}", e.location().map(|l| show(&l))), show(&ls.reference_location));
        }
        return;
    }
    // the definition site is an anchored container around the leaf, the use site is right
    let container = uses.iter().any(|(r, _, via)| start(*r) == Some(ro) && via.iter().any(|a| start(*a) == Some(dfo)));
    let want: Vec<String> = uses.iter().map(|(r, d, _)| format!("(referenced offset {:?}, defined offset {:?})", start(*r), start(*d))).collect();
    if container {
        sink.count("mutant.defined_is_container");
        o.fail("C16-alias-error-defined-is-container", "a type error at a leaf inside a container reached through an alias reports the anchored container as definition site, not the leaf (a span-carrying value at that leaf reports the leaf)", &rd.input,
               format!("referenced: {} ; defined: {}", show(&ls.reference_location), show(&ls.defined_location)), want.join(" or "));
    } else {
        sink.count("mutant.MISLOCATED");
        o.fail("C16-error-position", "a type error at a known leaf is not reported where a span-carrying value at that leaf is", &rd.input,
               format!("{} referenced: {} ; defined: {}", crate::errs::kind(e), show(&ls.reference_location), show(&ls.defined_location)), want.join(" or "));
    }
}

/// uses of a damaged node: as a leaf when it still is a scalar, otherwise every delivery of the node id
fn uses_of_any(ex: &E, id: usize, out: &mut Vec<(usize, usize, Vec<usize>)>, cx: &Ctx, sty: &STy, doc: &N) {
    uses_of(ex, id, out);
    if out.is_empty() {
        // the node became a container: the expectation holds `Unknown` there; recompute with the node seen as a leaf
        fn as_leaf(n: &N, id: usize) -> N {
            if n.id() == id { return N::Scalar { id, text: "x".into(), style: 0, anchor: n.anchor().cloned() }; }
            match n {
                N::Seq { id: i, anchor, items, flow } => N::Seq { id: *i, anchor: anchor.clone(), items: items.iter().map(|x| as_leaf(x, id)).collect(), flow: *flow },
                N::Map { id: i, anchor, entries, flow } => N::Map { id: *i, anchor: anchor.clone(), entries: entries.iter().map(|(k, v)| (k.clone(), as_leaf(v, id))).collect(), flow: *flow },
                other => other.clone(),
            }
        }
        let d2 = as_leaf(doc, id);
        let mut anchors = BTreeMap::new();
        collect_anchors(&d2, &mut anchors);
        let cx2 = Ctx { anchors };
        let e2 = cx2.expect(sty, &d2, None, 64);
        uses_of(&e2, id, out);
        let _ = cx;
    }
}

fn damaged(sink: &mut Sink, o: &mut Oracle, conv_budget: &mut usize, rng: &mut Rng, text: &str) {
    let ix = TextIndex::new(text);
    let (items, _, marks, end_mark) = items_tokens(text);
    text_cases(sink, text, &marks, &end_mark, &ix, conv_budget, rng);
    let sty = tree();
    let r = run_impl(text, &sty);
    let ans = answer(&r);
    sink.count(&format!("damaged.{}", ans.split(' ').take(if ans.starts_with("err") { 2 } else { 1 }).collect::<Vec<_>>().join(".")));
    sink.case(&format!("locs sp {} {} {} | {}", cfg().tokens(false), sty.tokens(), hex(text.strip_prefix('\u{feff}').unwrap_or(text)), items), &ans);
    let info: Vec<Info> = vec![];
    let dc = DocCtx { input: text, ix: &ix, info: &info };
    match &r {
        Err(msg) => o.fail("C16-panic", "panic", text, msg.clone(), "no panic".into()),
        Ok(Ok(v)) => {
            let mut ls = Vec::new();
            all_locs(v, &mut ls);
            for l in &ls { check_coords(o, sink, &dc, l, "spanned value (damaged text)"); }
        }
        Ok(Err(e)) => {
            if let Some(ls) = e.locations() {
                check_coords(o, sink, &dc, &ls.reference_location, "error reference location");
                check_coords(o, sink, &dc, &ls.defined_location, "error defined location");
            } else { sink.count("damaged.unlocated_error"); }
        }
    }
}
