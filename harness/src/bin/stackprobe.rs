//! The stack probe of C01 as a program of its own.
//!
//! The deserializer is generic over the visitor: its recursion is monomorphized (and inlined) in the crate that names
//! the target type. Inside the big harness binary the frame sizes therefore moved with unrelated harness changes, and
//! serde-saphyr nested 2000 deep (the default depth budget) sits within a few KiB of an 8 MiB stack. This small
//! program is what a user's program looks like: the targets real programs use (`IgnoredAny`, `serde_json::Value`,
//! derived recursive types), every whole-input entry point, a thread with an 8 MiB stack. Protocol: the `total worker`
//! one (`<idx> d <hex>` per line, answer `done <idx> <status>`); an overflow aborts the process, which the parent sees.
use serde_saphyr::{Budget, Error, Options};
use std::io::{BufRead, Write};

#[derive(serde::Deserialize)]
#[allow(dead_code)]
#[serde(untagged)]
enum Nest { Seq(Vec<Nest>), Map(std::collections::BTreeMap<String, Nest>), Leaf(Option<String>) }
#[derive(serde::Deserialize)]
#[allow(dead_code)]
struct NestS { #[serde(default)] a: Option<Box<NestS>>, #[serde(default)] x: Option<Vec<NestS>> }

fn unhex(s: &str) -> Vec<u8> {
    let s = s.strip_prefix('x').unwrap_or(s);
    (0..s.len() / 2).filter_map(|i| u8::from_str_radix(&s[2 * i..2 * i + 2], 16).ok()).collect()
}

fn render(e: &Error) -> usize { e.to_string().len() + format!("{e:?}").len() + e.render().len() }

fn guarded<T>(f: impl FnOnce() -> T) -> bool { std::panic::catch_unwind(std::panic::AssertUnwindSafe(f)).is_err() }

#[inline(never)]
fn all<T: serde::de::DeserializeOwned>(name: &str, bytes: &[u8], opts: &Options) -> Option<String> {
    let tag = |ep: &str| Some(format!("panic {ep} deep {name}"));
    if guarded(|| serde_saphyr::from_slice_with_options::<T>(bytes, opts.clone()).map(|_| ()).map_err(|e| render(&e))) { return tag("slice"); }
    if guarded(|| serde_saphyr::from_reader_with_options::<_, T>(std::io::Cursor::new(bytes.to_vec()), opts.clone()).map(|_| ()).map_err(|e| render(&e))) { return tag("reader"); }
    if let Ok(text) = std::str::from_utf8(bytes) {
        if guarded(|| serde_saphyr::from_multiple_with_options::<T>(text, opts.clone()).map(|v| v.len()).map_err(|e| render(&e))) { return tag("multi"); }
    }
    let mut rd = std::io::Cursor::new(bytes.to_vec());
    if guarded(|| serde_saphyr::read_with_options::<_, T>(&mut rd, opts.clone()).take(10_000).map(|x| x.map(|_| ()).map_err(|e| render(&e))).count()) { return tag("iter"); }
    None
}

#[inline(never)]
fn probe(bytes: &[u8]) -> String {
    let mut second = Options::default();
    second.duplicate_keys = serde_saphyr::DuplicateKeyPolicy::FirstWins;
    second.legacy_octal_numbers = true;
    second.strict_booleans = true;
    second.no_schema = true;
    second.budget = Some(Budget::default());
    second.alias_limits = serde_saphyr::options::AliasLimits { max_total_replayed_events: 3, max_replay_stack_depth: 1, max_alias_expansions_per_anchor: 2 };
    for opts in [Options::default(), second] {
        if let Some(t) = all::<serde::de::IgnoredAny>("IgnoredAny", bytes, &opts) { return t; }
        if let Some(t) = all::<serde_json::Value>("Value", bytes, &opts) { return t; }
        if let Some(t) = all::<Nest>("Nest", bytes, &opts) { return t; }
        if let Some(t) = all::<NestS>("NestS", bytes, &opts) { return t; }
    }
    "ok".into()
}

fn main() {
    std::panic::set_hook(Box::new(|_| {}));
    let stack_kib: usize = std::env::var("VERIF_STACK_KIB").ok().and_then(|v| v.parse().ok()).unwrap_or(8 << 10);
    let stdin = std::io::stdin();
    let mut out = std::io::stdout();
    for line in stdin.lock().lines() {
        let Ok(line) = line else { break };
        let mut parts = line.split(' ');
        let idx = parts.next().unwrap_or("0").to_string();
        let _marker = parts.next();
        let bytes = unhex(parts.next().unwrap_or("x"));
        let h = std::thread::Builder::new().stack_size(stack_kib << 10).spawn(move || probe(&bytes)).unwrap();
        let status = h.join().unwrap_or_else(|_| "panic thread".into());
        let _ = writeln!(out, "done {idx} {status}");
        let _ = out.flush();
    }
}
