#![allow(dead_code)]
//! verif-harness: runs the real serde-saphyr code in-process and prints canonical result lines.
//! usage: verif-harness <area> gen --seed N --tier quick|thorough --out DIR
mod proto;
mod c06;
mod c07;
mod calls;
mod errs;
mod pathmap;
mod ioinst;
mod iofault;
mod reader;
mod pump;
mod tyseed;
mod e2e;
mod locs;
mod docs;
mod total;
mod bombs;

#[global_allocator]
static GLOBAL: bombs::Counting = bombs::Counting;
#[cfg(feature = "robotics")]
mod robotics;
mod snippet;
mod scalarrt;
mod emit;
mod yamlgen;
mod anchors;

pub struct Args {
    pub seed: u64,
    pub thorough: bool,
    pub out: String,
    pub rest: Vec<String>,
}

fn main() {
    std::panic::set_hook(Box::new(|_| {}));
    let argv: Vec<String> = std::env::args().collect();
    if argv.len() < 3 {
        eprintln!("usage: verif-harness <area> <mode> [--seed N] [--tier T] [--out DIR] ...");
        std::process::exit(2);
    }
    let mut a = Args { seed: 1, thorough: false, out: "/verif/tmp".into(), rest: vec![] };
    let mut i = 3;
    while i < argv.len() {
        match argv[i].as_str() {
            "--seed" => { a.seed = argv[i + 1].parse().unwrap_or(1); i += 2; }
            "--tier" => { a.thorough = argv[i + 1] == "thorough"; i += 2; }
            "--out" => { a.out = argv[i + 1].clone(); i += 2; }
            _ => { a.rest.push(argv[i].clone()); i += 1; }
        }
    }
    let code = match (argv[1].as_str(), argv[2].as_str()) {
        ("c06", m) => c06::run(m, &a),
        ("c07", m) => c07::run(m, &a),
        ("pump", m) => pump::run(m, &a),
        ("e2e", m) => e2e::run(m, &a),
        ("docs", m) => docs::run(m, &a),
        ("total", m) => total::run(m, &a),
        ("bombs", m) => bombs::run(m, &a),
        ("pathmap", m) => pathmap::run(m, &a),
        #[cfg(feature = "robotics")]
        ("robotics", m) => robotics::run(m, &a),
        ("iofault", m) => iofault::run(m, &a),
        ("reader", m) => reader::run(m, &a),
        ("snippet", m) => snippet::run(m, &a),
        ("scalarrt", m) => scalarrt::run(m, &a),
        ("calls", m) => calls::run(m, &a),
        ("locs", m) => locs::run(m, &a),
        ("anchors", m) => anchors::run(m, &a),
        ("emit", m) => emit::run(m, &a),
        _ => { eprintln!("unknown area/mode"); 2 }
    };
    std::process::exit(code);
}
