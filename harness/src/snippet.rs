//! C17: rendered error reports — function-by-function differential of the snippet helpers
//! (`src/de/snippet.rs`, region bookkeeping of `src/de_error.rs`, ring-reader trimming) against the
//! Lean model, plus an implementation-only oracle that renders real errors with every built-in
//! formatter, from string and reader entry points and through the miette adapter, and scans the
//! output (`snippet.oracle.jsonl`).
use crate::proto::*;
use crate::Args;
use serde::Deserialize;
use serde_saphyr::verif_hooks::snippet as h;
use serde_saphyr::{
    DefaultMessageFormatter, Error, MessageFormatter, Options, RenderOptions, SnippetMode, UserMessageFormatter,
};
use validator::Validate as _;
use std::borrow::Cow;
use std::collections::{BTreeMap, BTreeSet, HashMap};
use std::io::Write as _;
use std::panic::{catch_unwind, AssertUnwindSafe};

const HUGE: usize = usize::MAX;

thread_local! { static GUARD_DEPTH: std::cell::Cell<u32> = const { std::cell::Cell::new(0) }; }

/// run `f`, turning a panic into `None` (panics outside `guarded` are harness faults and are printed)
fn guarded<T>(f: impl FnOnce() -> T) -> Option<T> {
    GUARD_DEPTH.with(|d| d.set(d.get() + 1));
    let r = catch_unwind(AssertUnwindSafe(f)).ok();
    GUARD_DEPTH.with(|d| d.set(d.get() - 1));
    r
}

fn nums(v: &[usize]) -> String {
    if v.is_empty() { "-".into() } else { v.iter().map(|x| x.to_string()).collect::<Vec<_>>().join(",") }
}

fn map_tok(m: Option<usize>) -> String {
    match m { None => "id".into(), Some(n) => n.to_string() }
}

// ------------------------------------------------------------------------------------------------
// generators
// ------------------------------------------------------------------------------------------------

/// all strings over `alpha` of length 0..=maxlen
fn all_strings(alpha: &[char], maxlen: usize) -> Vec<String> {
    let mut out = vec![String::new()];
    let mut cur = vec![String::new()];
    for _ in 0..maxlen {
        let mut next = Vec::with_capacity(cur.len() * alpha.len());
        for c in &cur {
            for ch in alpha {
                let mut s = c.clone();
                s.push(*ch);
                next.push(s);
            }
        }
        out.extend(next.iter().cloned());
        cur = next;
    }
    out
}

const WORDS: [&str; 14] = ["a", "key", "value: 1", "- item", "  indented", "#c", "x: [1, 2]", "é", "ß…ü", "漢字", "😀", "a\tb", "q: \"z\"", ""];
const CTRL: [char; 10] = ['\u{1b}', '\u{7}', '\u{0}', '\u{7f}', '\u{85}', '\u{9b}', '\u{80}', '\u{9f}', '\u{8}', '\u{c}'];
const WIDE: [char; 9] = ['é', 'ß', '…', '漢', '😀', '\u{a0}', '\u{7ff}', '\u{800}', '\u{ffff}'];

fn gen_line(rng: &mut Rng, long: bool) -> String {
    let mut s = String::new();
    let segs = if long { 1 + rng.below(3) } else { rng.below(5) };
    for _ in 0..segs {
        match rng.below(10) {
            0..=3 => s.push_str(*rng.pick(&WORDS[..])),
            4 | 5 => s.push(*rng.pick(&WIDE)),
            6 => s.push(*rng.pick(&CTRL)),
            7 => s.push('\r'),
            8 => { s.push_str("\u{1b}[31m"); s.push_str(*rng.pick(&WORDS[..])); s.push_str("\u{1b}[0m"); }
            _ => { for _ in 0..rng.below(12) { s.push((b'a' + rng.below(26) as u8) as char); } }
        }
    }
    if long {
        // very long line: ≥ 4 KiB (storage-crop threshold) of ASCII or multi-byte filler
        let unit = *rng.pick(&["A", "é", "漢", "😀", "ab…"]);
        let target = *rng.pick(&[4090usize, 4096, 4097, 4200, 9000, 17000]);
        let at = rng.below(s.chars().count() + 1);
        let byte_at = s.char_indices().nth(at).map(|(i, _)| i).unwrap_or(s.len());
        let mut filler = String::new();
        while filler.len() < target { filler.push_str(unit); }
        s.insert_str(byte_at, &filler);
    }
    s
}

/// structured text: lines with mixed endings; returns the text
fn gen_text(rng: &mut Rng, allow_long: bool) -> String {
    let mut t = String::new();
    if rng.chance(1, 12) { t.push('\u{feff}'); }
    let n = match rng.below(8) { 0 => 0, 1 => 1, 2 => 2, _ => 1 + rng.below(9) };
    for i in 0..n {
        let long = allow_long && rng.chance(1, 6);
        t.push_str(&gen_line(rng, long));
        let last = i + 1 == n;
        match rng.below(8) {
            0 | 1 => t.push_str("\r\n"),
            2 if last => {}
            3 if last => t.push('\r'),
            _ => t.push('\n'),
        }
    }
    t
}

fn line_count(t: &str) -> usize { t.split('\n').count() }

fn pick_radius(rng: &mut Rng) -> usize {
    *rng.pick(&[0usize, 1, 1, 2, 3, 5, 8, 64, 64, HUGE, u32::MAX as usize, HUGE - 1])
}

fn pick_loc(rng: &mut Rng, t: &str) -> (u32, u32) {
    let lines: Vec<&str> = t.split('\n').collect();
    let line = match rng.below(10) { 0 => 0, 1 => lines.len() + 1 + rng.below(3), _ => 1 + rng.below(lines.len().max(1)) };
    let width = lines.get(line.wrapping_sub(1)).map(|l| l.chars().count()).unwrap_or(3);
    let col = match rng.below(10) { 0 => 0, 1 => width + 2 + rng.below(4), 2 => width + 1, 3 => width, _ => 1 + rng.below(width.min(4200) + 1) };
    (line as u32, col as u32)
}

fn pick_mapping(rng: &mut Rng, line: u32) -> Option<usize> {
    match rng.below(8) {
        0..=2 => None,
        3 => Some(1),
        4 => Some((line as usize).saturating_sub(rng.below(3))),
        5 => Some(line as usize + 1),
        6 => Some(1 + rng.below(6)),
        _ => Some(*rng.pick(&[0usize, HUGE, HUGE - 2, 1 << 40])),
    }
}

// ------------------------------------------------------------------------------------------------
// differential ops
// ------------------------------------------------------------------------------------------------

struct Diff<'a> {
    sink: &'a mut Sink,
    nontrivial: BTreeSet<u64>,
}

fn fnv(s: &str) -> u64 {
    let mut h = 0xcbf29ce484222325u64;
    for b in s.bytes() { h ^= b as u64; h = h.wrapping_mul(0x100000001b3); }
    h
}

impl Diff<'_> {
    fn emit(&mut self, op: String, ans: Option<String>, nontrivial: bool, stat: &str) {
        let a = ans.unwrap_or_else(|| "panic".to_string());
        if a == "panic" { self.sink.count(&format!("{stat}.panic")); }
        self.sink.count(stat);
        if nontrivial { self.nontrivial.insert(fnv(&op)); }
        self.sink.case(&op, &a);
    }

    fn text_ops(&mut self, t: &str) {
        let hx = hex(t);
        let r = guarded(|| h::sanitize(t));
        let changed = r.as_deref().map(|x| x != t).unwrap_or(true);
        if changed { self.sink.count("sanitize.changed"); }
        self.emit(format!("snippet sanitize {hx}"), r.map(|x| format!("ok {}", hex(&x))), changed, "sanitize");
        let c = guarded(|| h::is_clean(t));
        self.emit(format!("snippet clean {hx}"), c.map(|x| b(x).to_string()), c == Some(false), "clean");
        let s = guarded(|| h::line_starts(t));
        let nt = s.as_ref().map(|v| v.len() > 1).unwrap_or(true);
        self.emit(format!("snippet starts {hx}"), s.map(|v| nums(&v)), nt, "starts");
    }

    fn col2byte(&mut self, line: &str, col: usize) {
        let r = guarded(|| h::col_to_byte(line, col));
        let nt = matches!(r, Some(Some(x)) if x > 0);
        self.emit(format!("snippet col2byte {} {col}", hex(line)), r.map(|o| opt(&o, |v| v.to_string())), nt, "col2byte");
    }

    fn lc2byte(&mut self, t: &str, row: usize, col: usize) {
        let r = guarded(|| h::line_col_to_byte(t, row, col));
        let nt = matches!(r, Some(Some(_)));
        self.emit(format!("snippet lc2byte {} {row} {col}", hex(t)), r.map(|o| opt(&o, |v| v.to_string())), nt, "lc2byte");
    }

    fn nextb(&mut self, t: &str, start: usize) {
        let r = guarded(|| h::next_char_boundary(t, start));
        let nt = !matches!(r, Some(None));
        self.emit(format!("snippet nextb {} {start}", hex(t)), r.map(|o| opt(&o, |v| v.to_string())), nt, "nextb");
    }

    fn cropline(&mut self, line: &str, l: usize, r: usize) {
        let res = guarded(|| h::crop_line_by_cols(line, l, r));
        let nt = res.as_ref().map(|(s, _, _)| s != line).unwrap_or(true);
        if nt { self.sink.count("cropline.cropped"); }
        self.emit(format!("snippet cropline {} {l} {r}", hex(line)),
                  res.map(|(s, a, p)| format!("ok {} {a} {p}", hex(&s))), nt, "cropline");
    }

    #[allow(clippy::too_many_arguments)]
    fn cropwin(&mut self, w: &str, wsr: usize, erow: usize, ecol: usize, rad: usize, ls: usize, le: usize) {
        let res = guarded(|| h::crop_window_text(w, wsr, erow, ecol, rad, ls, le));
        let nt = res.as_ref().map(|(s, a, _)| s != w || *a != ls).unwrap_or(true);
        if nt { self.sink.count("cropwin.changed"); }
        self.emit(format!("snippet cropwin {} {wsr} {erow} {ecol} {rad} {ls} {le}", hex(w)),
                  res.map(|(s, a, e)| format!("ok {} {a} {e}", hex(&s))), nt, "cropwin");
    }

    fn cropsrc(&mut self, t: &str, line: u32, col: u32, m: Option<usize>, rad: usize) {
        let res = guarded(|| h::crop_source_window(t, line, col, m, rad));
        let nt = res.as_ref().map(|(s, _)| !s.is_empty()).unwrap_or(true);
        if let Some((s, _)) = &res {
            if !s.is_empty() { self.sink.count("cropsrc.window"); }
            if s.contains('…') && !t.contains('…') { self.sink.count("cropsrc.storage_cropped"); }
        }
        self.emit(format!("snippet cropsrc {} {line} {col} {} {rad}", hex(t), map_tok(m)),
                  res.map(|(s, sl)| format!("ok {} {sl}", hex(&s))), nt, "cropsrc");
    }

    fn fmtwin(&mut self, t: &str, line: u32, col: u32, sl: usize, msg: &str, rad: usize) {
        let res = guarded(|| h::fmt_window(t, line, col, sl, msg, rad));
        let nt = res.as_ref().map(|s| !s.is_empty()).unwrap_or(true);
        if nt { self.sink.count("fmtwin.rendered"); }
        self.emit(format!("snippet fmtwin {} {line} {col} {sl} {} {rad}", hex(t), hex(msg)),
                  res.map(|s| format!("ok {}", hex(&s))), nt, "fmtwin");
    }

    fn regions(&mut self, t: &str, line: u32, col: u32, m: Option<usize>, rad: usize) {
        let res = guarded(|| h::snippet_regions(line, col, t, m, rad));
        let nt = res.as_ref().map(|v| !v.is_empty()).unwrap_or(true);
        if nt { self.sink.count("regions.some"); }
        self.emit(format!("snippet regions {} {line} {col} {} {rad}", hex(t), map_tok(m)),
                  res.map(|v| {
                      let mut s = format!("ok {}", v.len());
                      for (t, a, e) in v { s.push_str(&format!(" {} {a} {e}", hex(&t))); }
                      s
                  }), nt, "regions");
    }

    fn ringtrim(&mut self, bytes: &[u8], so: u64, sl: usize) {
        let res = guarded(|| h::ring_trim(bytes.to_vec(), so, sl));
        let nt = res.as_ref().map(|(_, _, v)| v.len() != bytes.len()).unwrap_or(true);
        if nt { self.sink.count("ringtrim.trimmed"); }
        self.emit(format!("snippet ringtrim {} {so} {sl}", hex_bytes(bytes)),
                  res.map(|(a, l, v)| format!("ok {a} {l} {}", hex_bytes(&v))), nt, "ringtrim");
    }

    fn ringaligned(&mut self, data: &[u8], consume: usize, read_size: usize, inner_chunk: usize) {
        let res = guarded(|| h::ring_run_aligned(data, consume, read_size, inner_chunk)).flatten();
        let nt = res.as_ref().map(|(a, _, _)| !*a).unwrap_or(true);
        if nt { self.sink.count("ringaligned.partial_line_dropped"); }
        self.emit(format!("snippet ringaligned {} {consume} {read_size} {inner_chunk}", hex_bytes(data)),
                  res.map(|(a, t, l)| format!("ok {} {} {l}", b(a), hex(&t))), nt, "ringaligned");
    }

    fn ringrun(&mut self, data: &[u8], consume: usize, read_size: usize, inner_chunk: usize) {
        let res = guarded(|| h::ring_run(data, consume, read_size, inner_chunk)).flatten();
        let nt = res.as_ref().map(|(so, _, _, _)| *so > 0).unwrap_or(true);
        if nt { self.sink.count("ringrun.evicted"); }
        self.emit(format!("snippet ringrun {} {consume} {read_size} {inner_chunk}", hex_bytes(data)),
                  res.map(|(a, e, l, v)| format!("ok {a} {e} {l} {}", hex_bytes(&v))), nt, "ringrun");
    }
}

fn differential(a: &Args, rng: &mut Rng, sink: &mut Sink) -> u64 {
    let mut d = Diff { sink, nontrivial: BTreeSet::new() };
    let thorough = a.thorough;

    // ---- exhaustive short texts over a small alphabet (ASCII, newline, CR, 2/3/4-byte, ESC, C1)
    let alpha: Vec<char> = vec!['a', '\n', '\r', 'é', '…', '😀', '\u{1b}', '\u{85}'];
    let texts4 = all_strings(&alpha, if thorough { 5 } else { 4 });
    for t in &texts4 { d.text_ops(t); }
    let texts3 = all_strings(&alpha, if thorough { 4 } else { 3 });
    for t in &texts3 {
        let rows = line_count(t) + 1;
        for row in 0..=rows {
            for col in 0..=4 { d.lc2byte(t, row, col); }
        }
        for st in 0..=t.len() + 1 { d.nextb(t, st); }
    }
    // single lines (no newline) for the column helpers
    let line_alpha: Vec<char> = vec!['a', 'b', '\r', 'é', '…', '😀', '\u{1b}'];
    let lines3 = all_strings(&line_alpha, if thorough { 4 } else { 3 });
    for l in &lines3 {
        for col in 0..=5 { d.col2byte(l, col); }
        for left in 0..=5usize {
            for right in 0..=5usize { d.cropline(l, left, right); }
        }
        d.cropline(l, 1, HUGE);
        d.cropline(l, HUGE, HUGE);
        d.cropline(l, 2, HUGE);
    }
    // crop_window_text / crop_source_window / renderer / regions over all short texts, sampled parameters
    let radii_small = [0usize, 1, 2, 64, HUGE];
    for t in &texts3 {
        let rows = line_count(t);
        let per = if thorough { 12 } else { 4 };
        for _ in 0..per {
            let wsr = 1 + rng.below(3);
            let erow = wsr + rng.below(rows + 1);
            let ecol = rng.below(5);
            let rad = *rng.pick(&radii_small);
            let (ls, le) = if rng.chance(2, 3) {
                let s = guarded(|| h::line_col_to_byte(t, erow + 1 - wsr, ecol)).flatten().unwrap_or(0);
                (s, guarded(|| h::next_char_boundary(t, s)).flatten().unwrap_or(s))
            } else {
                (rng.below(t.len() + 2), rng.below(t.len() + 3))
            };
            d.cropwin(t, wsr, erow, ecol, rad, ls, le);
        }
        for _ in 0..per {
            let line = rng.below(rows + 2) as u32;
            let col = rng.below(5) as u32;
            let rad = *rng.pick(&radii_small);
            let m = match rng.below(4) { 0 | 1 => None, 2 => Some(1), _ => Some(rng.below(3)) };
            d.cropsrc(t, line, col, m, rad);
            d.regions(t, line, col, m, rad);
            let sl = match m { None => 1, Some(n) => n };
            let msg = *rng.pick(&["", "defined here", "m\u{1b}x"]);
            d.fmtwin(t, line, col, sl, msg, rad);
        }
    }

    // ---- generated structured texts (long lines, CRLF / lone CR, multi-byte around the column, controls)
    let n_gen = if thorough { 40000 } else { 2500 };
    for i in 0..n_gen {
        let allow_long = i % 5 == 0;
        let t = gen_text(rng, allow_long);
        if t.len() > 4096 { d.sink.count("gen.text_with_long_line"); }
        if t.contains("\r\n") { d.sink.count("gen.text_crlf"); }
        if !t.is_ascii() { d.sink.count("gen.text_multibyte"); }
        let (line, col) = pick_loc(rng, &t);
        let rad = pick_radius(rng);
        let m = pick_mapping(rng, line);
        if i % 4 == 0 { d.text_ops(&t); }
        d.cropsrc(&t, line, col, m, rad);
        d.regions(&t, line, col, m, rad);
        let sl = match m { None => 1, Some(n) => n };
        if sl < (1 << 41) {
            let msg = *rng.pick(&["", "defined here", "used \u{9b}here"]);
            d.fmtwin(&t, line, col, sl, msg, rad);
        }
        d.lc2byte(&t, line as usize, col as usize);
        // crop_window_text on the whole text as a window (rows beyond five lines are fine for the helper)
        let wsr = 1 + rng.below(3);
        let erow = wsr + (line as usize).saturating_sub(1);
        let (ls, le) = {
            let dflt = rng.below(t.len() + 2);
            let s = guarded(|| h::line_col_to_byte(&t, line as usize, col as usize)).flatten().unwrap_or(dflt);
            (s, guarded(|| h::next_char_boundary(&t, s)).flatten().unwrap_or(s))
        };
        d.cropwin(&t, wsr, erow, col as usize, rad, ls, le);
        // one line of it for crop_line_by_cols with the caller's column window
        if let Some(l) = t.split('\n').nth((line as usize).saturating_sub(1)) {
            let l = l.strip_suffix('\r').unwrap_or(l);
            let c = col as usize;
            let left = c.saturating_sub(rad).max(1);
            let right = c.saturating_add(rad);
            d.cropline(l, left, right);
            d.col2byte(l, c);
            if rng.chance(1, 4) { d.cropline(l, rng.below(9), rng.below(9)); }
        }
    }

    // ---- ring reader trimming: all byte strings up to length 3/4 over a UTF-8-structure alphabet
    let balpha: [u8; 9] = [0x61, 0x0a, 0x80, 0xbf, 0xc2, 0xe2, 0xf0, 0xf5, 0xff];
    let maxlen = if thorough { 5 } else { 4 };
    let mut cur: Vec<Vec<u8>> = vec![vec![]];
    d.ringtrim(&[], 7, 3);
    for _ in 0..maxlen {
        let mut next = Vec::new();
        for c in &cur {
            for x in balpha {
                let mut s = c.clone();
                s.push(x);
                next.push(s);
            }
        }
        for s in &next { d.ringtrim(s, 5, 2); }
        cur = next;
    }
    // windows cut out of valid UTF-8 streams at arbitrary byte positions
    for _ in 0..(if thorough { 20000 } else { 2000 }) {
        let t = gen_text(rng, false);
        let bs = t.as_bytes();
        let a0 = rng.below(bs.len() + 1);
        let b0 = a0 + rng.below(bs.len() - a0 + 1);
        d.ringtrim(&bs[a0..b0], a0 as u64, 1 + bs[..a0].iter().filter(|x| **x == b'\n').count());
    }
    // the real RingReader around the capacity boundary
    let n_ring = if thorough { 400 } else { 36 };
    for i in 0..n_ring {
        let target = match i % 6 {
            0 => rng.below(40),
            1 => h::RING_BUFFER_SIZE - 3 + rng.below(7),
            2 => h::RING_BUFFER_SIZE + h::MAX_READ_AHEAD - 3 + rng.below(7),
            _ => 2000 + rng.below(3200),
        };
        let mut data = String::new();
        while data.len() < target {
            // every third stream also carries lone CR and CRLF line breaks (and LF right after CR)
            let crs = i % 3 == 1;
            match rng.below(if crs { 9 } else { 6 }) {
                0 => data.push('\n'),
                1 => data.push(*rng.pick(&WIDE)),
                2 => data.push_str("key: value\n"),
                6 => data.push('\r'),
                7 => data.push_str("\r\n"),
                8 => data.push_str("k: v\r"),
                _ => data.push((b'a' + rng.below(26) as u8) as char),
            }
        }
        if data.contains('\r') { d.sink.count("gen.ring_stream_with_cr"); }
        let consume = match rng.below(4) { 0 => 0, 1 => data.len() + 5, _ => rng.below(data.len() + 1) };
        let read_size = *rng.pick(&[1usize, 3, 7, 64, 1000, 8192]);
        let inner_chunk = *rng.pick(&[1usize, 2, 5, 100, 4096, 100000]);
        d.ringrun(data.as_bytes(), consume, read_size, inner_chunk);
        d.ringaligned(data.as_bytes(), consume, read_size, inner_chunk);
    }
    // the beginning of the first retained line is / is not evicted: long single line, line break
    // exactly at the eviction edge, multi-byte character cut at the edge
    for extra in [0usize, 1, 2, 3, 50] {
        let one_line = "A".repeat(h::RING_BUFFER_SIZE + extra);
        d.ringaligned(one_line.as_bytes(), one_line.len(), 64, 4096);
        let edge = format!("{}\n{}", "x".repeat(extra), "y".repeat(h::RING_BUFFER_SIZE - 1));
        d.ringaligned(edge.as_bytes(), edge.len(), 1000, 100000);
        let edge2 = format!("{}\n{}\nk: v\n", "x".repeat(extra + 1), "é".repeat(h::RING_BUFFER_SIZE / 2 - 3));
        d.ringaligned(edge2.as_bytes(), edge2.len(), 7, 5);
        d.ringrun(edge2.as_bytes(), edge2.len(), 7, 5);
        // the same edges with a lone CR, a CRLF pair (evicted together, or split: CR evicted and LF
        // retained as the first byte), CR CR LF, and CR as the very last byte read
        for brk in ["\r", "\r\n", "\r\r\n", "\n\r", "\r\r"] {
            for shift in 0..=3usize {
                let tail_len = (h::RING_BUFFER_SIZE + 1).saturating_sub(shift);
                let edge = format!("{}{brk}{}", "x".repeat(extra), "y".repeat(tail_len));
                d.ringaligned(edge.as_bytes(), edge.len(), 1000, 100000);
                d.ringrun(edge.as_bytes(), edge.len(), 1000, 100000);
                let edge3 = format!("a: 1{brk}{}{brk}k: v{brk}z: 2{brk}", "é".repeat((h::RING_BUFFER_SIZE - shift) / 2));
                d.ringaligned(edge3.as_bytes(), edge3.len(), 7, 5);
                d.ringrun(edge3.as_bytes(), edge3.len().saturating_sub(extra), 64, 4096);
            }
        }
        let cr_last = format!("{}\r", "z".repeat(h::RING_BUFFER_SIZE + extra));
        d.ringaligned(cr_last.as_bytes(), cr_last.len(), 64, 4096);
        d.ringrun(cr_last.as_bytes(), cr_last.len(), 64, 4096);
    }
    d.nontrivial.len() as u64
}

// ------------------------------------------------------------------------------------------------
// implementation-only oracle: real errors rendered through every channel
// ------------------------------------------------------------------------------------------------

#[derive(Debug, Deserialize)]
#[serde(deny_unknown_fields)]
#[allow(dead_code)]
struct Strict { name: Option<String>, count: Option<i32>, flag: Option<bool>, kind: Option<Kind> }

#[derive(Debug, Deserialize)]
#[allow(dead_code)]
enum Kind { Alpha, Beta }

/// custom `Deserialize` that reflects the scalar text in a `serde::de::Error::custom` message
#[derive(Debug)]
#[allow(dead_code)]
struct Picky(String);
impl<'de> Deserialize<'de> for Picky {
    fn deserialize<D: serde::Deserializer<'de>>(d: D) -> Result<Self, D::Error> {
        let s = String::deserialize(d)?;
        Err(serde::de::Error::custom(format!("value {s} is not acceptable")))
    }
}

#[derive(Debug, Deserialize)]
#[allow(dead_code)]
struct HasPicky { p: Picky }

/// garde-validated type: two independently located issues in one report (multi-region errors)
#[derive(Debug, Deserialize, garde::Validate)]
#[allow(dead_code)]
struct Form {
    #[garde(length(min = 2))] a: String,
    #[garde(skip)] b: i32,
    #[garde(skip)] c: i32,
    #[garde(length(min = 2))] d: String,
    #[garde(skip)] e: i32,
}

/// garde- and validator-validated NESTED types: the paths of the issues run through attacker-controlled map keys,
/// sequence indices and nested structs — every place where a path segment can be reflected into a report
#[derive(Debug, Deserialize, garde::Validate, validator::Validate)]
#[allow(dead_code)]
struct VInner {
    #[garde(length(min = 2))] #[validate(length(min = 2))] name: String,
    #[garde(range(min = 1024))] #[validate(range(min = 1024))] port: u16,
}
#[derive(Debug, Deserialize, garde::Validate)]
#[allow(dead_code)]
struct VOuterG {
    #[garde(length(min = 2))] title: String,
    #[garde(dive)] #[serde(default)] listeners: HashMap<String, VInner>,
    #[garde(dive)] #[serde(default)] list: Vec<VInner>,
    #[garde(dive)] #[serde(default)] deep: HashMap<String, HashMap<String, Vec<VInner>>>,
}
#[derive(Debug, Deserialize, validator::Validate)]
#[allow(dead_code)]
struct VOuterV {
    #[validate(length(min = 2))] title: String,
    #[validate(nested)] #[serde(default)] listeners: HashMap<String, VInner>,
    #[validate(nested)] #[serde(default)] list: Vec<VInner>,
}

struct CustomFmt;
impl MessageFormatter for CustomFmt {
    fn format_message<'a>(&self, err: &'a Error) -> Cow<'a, str> {
        Cow::Owned(format!("custom<{}>", UserMessageFormatter.format_message(err)))
    }
}

fn is_forbidden(c: char) -> bool {
    let n = c as u32;
    (n < 0x20 && c != '\n' && c != '\t') || n == 0x7f || (0x80..=0x9f).contains(&n)
}

fn first_forbidden(s: &str) -> Option<char> { s.chars().find(|c| is_forbidden(*c)) }

/// numbered source lines of every snippet block of a rendering: (line number, content)
fn gutter_blocks(out: &str, bar: char) -> Vec<Vec<(usize, String)>> {
    let mut blocks = Vec::new();
    let mut cur: Vec<(usize, String)> = Vec::new();
    let mut in_block = false;
    for l in out.lines() {
        let t = l.trim_start();
        let digits: String = t.chars().take_while(|c| c.is_ascii_digit()).collect();
        let rest = &t[digits.len()..];
        let rest_t = rest.trim_start();
        let is_gutter = rest_t.starts_with(bar) && (digits.is_empty() || rest.starts_with(' '));
        if is_gutter {
            in_block = true;
            // a gutter line that carries TEXT of the report (not a marker line, not empty) — `| This value comes indirectly
            // from the anchor at …` — is the heading of the next window: the windows of a two-location error are two blocks
            if digits.is_empty() {
                let text = rest_t[bar.len_utf8()..].trim();
                if !text.is_empty() && !text.starts_with('^') && !text.starts_with('-') && !text.starts_with('=') && !cur.is_empty() {
                    blocks.push(std::mem::take(&mut cur));
                }
            }
            if !digits.is_empty() {
                let content = rest_t[bar.len_utf8()..].strip_prefix(' ').unwrap_or(&rest_t[bar.len_utf8()..]);
                cur.push((digits.parse().unwrap_or(0), content.to_string()));
            }
        } else if in_block {
            // `-->`/`= note` lines and blank lines end a block
            if !cur.is_empty() { blocks.push(std::mem::take(&mut cur)); }
            in_block = false;
        }
    }
    if !cur.is_empty() { blocks.push(cur); }
    blocks
}

struct Oracle {
    out: std::io::BufWriter<std::fs::File>,
    seen: BTreeMap<String, u64>,
    checks: u64,
    stats: BTreeMap<String, u64>,
}

impl Oracle {
    fn fail(&mut self, id: &str, what: &str, input: &str, observed: &str, expected: &str) {
        let n = self.seen.entry(id.to_string()).or_insert(0);
        *n += 1;
        if *n > 3 && std::env::var_os("VERIF_ORACLE_ALL").is_none() { return; } // a few witnesses per class are enough
        let j = serde_json::json!({"id": id, "what": what, "input": input, "observed": observed, "expected": expected});
        writeln!(self.out, "{}", j).unwrap();
    }
    fn count(&mut self, k: &str) { *self.stats.entry(k.to_string()).or_insert(0) += 1; }

    /// Classify control characters of a rendering by the channel they came through: inside a shown
    /// (numbered) source line, or in the message part (title / label / notes).
    fn control_scan(&mut self, prefix: &str, chan: &str, src: &str, out: &str, bar: char) {
        let mut in_source: Option<char> = None;
        let mut in_message: Option<char> = None;
        for l in out.split('\n') {
            let Some(c) = first_forbidden(l) else { continue };
            let t = l.trim_start();
            let digits = t.chars().take_while(|c| c.is_ascii_digit()).count();
            let numbered = (digits > 0 && t[digits..].trim_start().starts_with(bar)) || l.starts_with("snippet line ");
            if numbered { in_source.get_or_insert(c); } else { in_message.get_or_insert(c); }
        }
        if let Some(c) = in_source {
            self.fail(&format!("{prefix}-source-line-control"),
                      &format!("channel {chan}: a shown source line contains control character U+{:04X}", c as u32),
                      &hex(src), &hex(out), "no C0 (except \\n, \\t), DEL or C1 character in the rendered report");
        }
        if let Some(c) = in_message {
            let class = if (c as u32) < 0x20 { "c0" } else if c as u32 == 0x7f { "del" } else { "c1" };
            self.fail(&format!("{prefix}-message-{class}"),
                      &format!("channel {chan}: title/label text of the report contains control character U+{:04X} (reflected input text)", c as u32),
                      &hex(src), &hex(out), "no C0 (except \\n, \\t), DEL or C1 character in the rendered report");
        }
    }

    /// checks on one rendering `out` of `err` (entry `chan`); `radius` = crop radius in force,
    /// `src` = the document (line numbers of `err` refer to it).
    fn scan(&mut self, chan: &str, src: &str, err: &Error, out: &str, radius: usize) {
        self.checks += 1;
        let blocks = gutter_blocks(out, '|');
        let with_snippet = !blocks.is_empty();
        self.count(if with_snippet { "render.with_snippet" } else { "render.plain" });
        if !with_snippet {
            // scope note of the property: without a snippet only totality is required
            if first_forbidden(out).is_some() { self.count("render.plain_with_control_chars(out of scope)"); }
            return;
        }
        self.control_scan("C17-snippet", chan, src, out, '|');
        let loc = err.location();
        let col = loc.map(|l| l.column() as usize).unwrap_or(0);
        let mut cols: Vec<usize> = vec![col];
        for (i, _) in out.match_indices(" column ") {
            let digits: String = out[i + 8..].chars().take_while(|c| c.is_ascii_digit()).collect();
            if let Ok(c) = digits.parse::<usize>() { cols.push(c); }
        }
        for bl in &blocks {
            if bl.len() > 5 {
                self.fail("C17-window-more-than-5-lines", &format!("channel {chan}: snippet block shows {} source lines", bl.len()),
                          &hex(src), &hex(out), "at most 5 source lines (2 of context either side)");
            }
            if radius < 1000 && !src.contains('\t') {
                for (_, content) in bl {
                    let n = content.chars().count();
                    // a context line that ends left of the crop window is kept whole (documented)
                    // (a report with several located issues — validation errors — has one window per issue, each cropped
                    // around ITS column: the columns are read off the `line L column C` headers of the report)
                    let kept_whole = cols.iter().any(|c| n < c.saturating_sub(radius).max(1));
                    if n > 2 * radius + 3 && !kept_whole {
                        self.fail("C17-line-wider-than-crop", &format!("channel {chan}: shown line has {n} characters with radius {radius}"),
                                  &hex(src), &hex(out), "≤ 2·radius+1 source characters plus two ellipses");
                    }
                }
            }
        }
        if let Some(loc) = loc {
            let line = loc.line() as usize;
            let shown = blocks.iter().any(|bl| bl.iter().any(|(n, _)| *n == line));
            if !shown {
                // class: the location is on an empty last line (after the final line break, or a last
                // line consisting of a lone CR): annotate-snippets draws the marker at the end of the
                // previous line and does not show the empty line
                let body = src.strip_prefix('\u{feff}').unwrap_or(src);
                let ls: Vec<&str> = body.split('\n').collect();
                let empty_last = line == ls.len() && ls[line - 1].trim_end_matches('\r').is_empty() && ls[line - 1].len() <= 1;
                let id = if empty_last { "C17-location-on-empty-last-line" } else { "C17-reported-line-not-shown" };
                self.fail(id, &format!("channel {chan}: location line {line} is not among the shown lines"),
                          &hex(src), &hex(out), "the line the location refers to is shown");
            } else {
                self.count("render.line_shown");
                self.caret(chan, src, out, line, loc.column() as usize, radius);
            }
        }
    }

    /// the marker line under the reported line must put its first `^` under the reported column
    fn caret(&mut self, chan: &str, src: &str, out: &str, line: usize, col: usize, radius: usize) {
        let src = src.strip_prefix('\u{feff}').unwrap_or(src);
        // lines as YAML (and the reported location) counts them: LF, CRLF and a lone CR all end a line
        let yl = yaml_lines(src);
        let Some(&(line_start_byte, src_line)) = yl.get(line - 1) else { return };
        let lone_cr_before = { let b = src.as_bytes(); (0..b.len()).any(|i| b[i] == b'\r' && b.get(i + 1) != Some(&b'\n') && i < line_start_byte + src_line.len() + 1) };
        let narrow = |c: char| (c.is_ascii() && !c.is_ascii_control()) || "éßü…\u{a0}".contains(c);
        if !src_line.chars().all(|c| narrow(c) || is_forbidden(c)) { self.count("caret.skipped_wide"); return; }
        // annotate-snippets trims lines wider than its terminal width itself (`...`): out of our hands
        if src_line.chars().count() > 100 && radius > 48 { self.count("caret.skipped_renderer_trim"); return; }
        let lines: Vec<&str> = out.lines().collect();
        let prefix = format!("{line} |");
        let Some(i) = lines.iter().position(|l| l.trim_start().starts_with(&prefix)) else {
            if lone_cr_before && out.contains(" | ") {
                self.fail("C17-lone-cr-line-break", &format!("channel {chan}: the reported line {line} is not among the lines shown"), &hex(src), &hex(out), "the line the location refers to");
            }
            return
        };
        let shown = lines[i];
        let Some(marker) = lines.get(i + 1) else { return };
        let Some(bar_shown) = shown.find('|') else { return };
        let Some(bar_marker) = marker.find('|') else { return };
        if !marker.contains('^') { self.count("caret.no_marker_line"); return; }
        let content: Vec<char> = shown[bar_shown + 1..].chars().skip(1).collect();
        let mk: Vec<char> = marker[bar_marker + 1..].chars().skip(1).collect();
        let Some(pos) = mk.iter().position(|c| *c == '^') else { return };
        // expected position: col-1 rebased by the left crop
        let left = col.saturating_sub(radius).max(1);
        let n = src_line.chars().count();
        if col == 0 || col > n + 1 { return; }
        let cropped_left = left > 1 && left <= n;
        let expected = if cropped_left { 1 + (col - left) } else { col - 1 };
        // class: reader entry point whose recent-bytes window no longer contains the start of the
        // reported line (the window starts in the middle of that line)
        let evicted = chan.starts_with("reader/") && src.len() > h::RING_BUFFER_SIZE && line_start_byte < src.len() - h::RING_BUFFER_SIZE;
        self.checks += 1;
        if pos != expected {
            let id = if lone_cr_before { "C17-lone-cr-line-break" } else if evicted { "C17-reader-window-starts-mid-line" } else { "C17-caret-column" };
            self.fail(id, &format!("channel {chan}: marker at display offset {pos}, expected {expected} (line {line} column {col} radius {radius})"),
                      &hex(src), &hex(out), "marker under the reported column");
        } else {
            self.count("caret.checked");
            // and the character above the marker is the (sanitised) source character
            if col <= n {
                let want = src_line.chars().nth(col - 1).unwrap();
                let want = if is_forbidden(want) { if (want as u32) < 0x80 { ' ' } else { '\u{a0}' } } else { want };
                if content.get(pos).copied() != Some(want) && want != '\t' {
                    let id = if lone_cr_before { "C17-lone-cr-line-break" } else if evicted { "C17-reader-window-starts-mid-line" } else { "C17-caret-character" };
                    self.fail(id, &format!("channel {chan}: character above the marker is {:?}, source has {:?} (line {line} column {col})", content.get(pos), want),
                              &hex(src), &hex(out), "marker under the character in the reported column");
                }
            }
        }
    }

    fn render_all(&mut self, entry: &str, src: &str, err: &Error, radius: usize, _reflects: bool) {
        let fmts: [(&str, &dyn MessageFormatter); 4] = [
            ("default", &DefaultMessageFormatter), ("developer", &serde_saphyr::DeveloperMessageFormatter::default()),
            ("user", &UserMessageFormatter), ("custom", &CustomFmt),
        ];
        // Display
        match guarded(|| err.to_string()) {
            Some(s) => self.scan(&format!("{entry}/display"), src, err, &s, radius),
            None => self.fail("C17-render-panic", &format!("{entry}/display panicked"), &hex(src), "panic", "a rendered string"),
        }
        for (name, f) in fmts {
            let r = guarded(|| { let mut ro = RenderOptions::new(f); ro.snippets = SnippetMode::Auto; err.render_with_options(ro) });
            match r {
                Some(s) => self.scan(&format!("{entry}/{name}"), src, err, &s, radius),
                None => self.fail("C17-render-panic", &format!("{entry}/{name} panicked"), &hex(src), "panic", "a rendered string"),
            }
            // snippets off: only totality
            if guarded(|| { let mut ro = RenderOptions::new(f); ro.snippets = SnippetMode::Off; err.render_with_options(ro) }).is_none() {
                self.fail("C17-render-panic", &format!("{entry}/{name}/snippets-off panicked"), &hex(src), "panic", "a rendered string");
            }
            // miette adapter
            let m = guarded(|| {
                let rep = serde_saphyr::miette::to_miette_report_with_formatter(err, src, "input.yaml", f);
                let mut g = String::new();
                let hnd = miette::GraphicalReportHandler::new_themed(miette::GraphicalTheme::unicode_nocolor());
                let _ = hnd.render_report(&mut g, rep.as_ref());
                let mut n = String::new();
                let _ = miette::NarratableReportHandler::new().render_report(&mut n, rep.as_ref());
                // the text each label covers in the source the adapter handed to miette
                let labelled: Vec<Option<String>> = match (rep.labels(), rep.source_code()) {
                    (Some(ls), Some(sc)) => ls.map(|l| sc.read_span(l.inner(), 0, 0).ok().and_then(|c| String::from_utf8(c.data().to_vec()).ok())).collect(),
                    _ => Vec::new(),
                };
                (g, n, labelled)
            });
            match m {
                Some((g, n, labelled)) => {
                    // the label sits on the text the location refers to: with a byte span in the location (string input)
                    // the labelled text is the source's own text at that span — whatever stands in front of it
                    if let Some(loc) = err.location() {
                        if let (Some(b), Some(len)) = (loc.span().byte_offset(), loc.span().byte_len()) {
                            let (b, len) = (b as usize, (len as usize).max(1));
                            if let Some(want) = src.get(b..(b + len).min(src.len())) {
                                if !want.is_empty() && first_forbidden(want).is_none() && !want.contains('\n') && !want.contains('\r') && labelled.len() == 1 {
                                    self.checks += 1;
                                    self.count("miette.label_text_checked");
                                    if labelled[0].as_deref() != Some(want) {
                                        self.fail("C17-miette-label-off-target", &format!("channel {entry}/miette/{name}: the label covers {:?}, the location's span holds {want:?}", labelled[0]),
                                                  &hex(src), &hex(&g), "the label covers the text at the location's byte span");
                                    }
                                }
                            }
                        }
                    }
                    self.scan_miette(&format!("{entry}/miette-graphical/{name}"), src, err, &g);
                    self.scan_miette(&format!("{entry}/miette-narratable/{name}"), src, err, &n);
                }
                None => self.fail("C17-miette-panic", &format!("{entry}/miette/{name} panicked"), &hex(src), "panic", "a rendered report"),
            }
        }
    }

    fn scan_miette(&mut self, chan: &str, src: &str, err: &Error, out: &str) {
        self.checks += 1;
        let has_source = out.contains("input.yaml");
        self.count(if has_source { "miette.with_source" } else { "miette.plain" });
        if !has_source { return; }
        self.control_scan("C17-miette", chan, src, out, '│');
        if let Some(loc) = err.location() {
            let line = loc.line() as usize;
            let blocks = gutter_blocks(out, '│');
            let shown = blocks.iter().any(|bl| bl.iter().any(|(n, _)| *n == line))
                || out.lines().any(|l| l.starts_with(&format!("snippet line {line}:"))); // narratable handler
            if shown { self.count("miette.line_shown"); } else {
                // class: the location's character offset (which the adapter uses) does not lie on the
                // location's line (inconsistent location data from the scanner), or the location is on
                // the empty last line
                let body = src.strip_prefix('\u{feff}').unwrap_or(src);
                let off = loc.span().offset() as usize;
                let line_of_off = 1 + body.chars().take(off).filter(|c| *c == '\n').count();
                let ls: Vec<&str> = body.split('\n').collect();
                let empty_last = line == ls.len() && ls[line - 1].trim_end_matches('\r').is_empty() && ls[line - 1].len() <= 1;
                let id = if line_of_off != line { "C17-miette-offset-line-mismatch" }
                         else if empty_last { "C17-miette-location-on-empty-last-line" }
                         else { "C17-miette-line-not-shown" };
                self.fail(id, &format!("channel {chan}: location line {line} (span offset {off} lies on line {line_of_off}) not shown"),
                          &hex(src), &hex(out), "the line the location refers to is shown");
            }
        }
    }
}

/// documents that make the typed deserializers fail; `true` = the error message reflects input text
/// (start byte, content without the break) of every line, with the YAML line breaks LF, CRLF and lone CR
fn yaml_lines(src: &str) -> Vec<(usize, &str)> {
    let b = src.as_bytes();
    let mut v = Vec::new();
    let (mut start, mut i) = (0usize, 0usize);
    while i < b.len() {
        if b[i] == b'\n' { v.push((start, &src[start..i])); i += 1; start = i; }
        else if b[i] == b'\r' { v.push((start, &src[start..i])); i += if b.get(i + 1) == Some(&b'\n') { 2 } else { 1 }; start = i; }
        else { i += 1; }
    }
    v.push((start, &src[start..]));
    v
}

fn oracle_documents(rng: &mut Rng, thorough: bool) -> Vec<(String, bool)> {
    let mut docs: Vec<(String, bool)> = Vec::new();
    // payloads: terminal escape sequences, raw and written as YAML escapes
    let raw: [&str; 8] = ["\u{1b}[31mred\u{1b}[0m", "\u{1b}]0;title\u{7}", "\u{9b}31m", "x\u{7f}y", "a\u{85}b", "\u{90}dcs\u{9c}", "bell\u{7}", "nul\u{0}"];
    let esc: [&str; 10] = ["\\e[31mred\\e[0m", "\\e]0;title\\a", "\\u009b31m", "x\\x7fy", "a\\Nb", "\\x90dcs\\x9c", "bell\\a", "nul\\0", "cr\\rlf", "\\b\\v\\f"];
    for p in esc {
        docs.push((format!("\"{p}\": 1\n"), true));                       // unknown field reflecting the key
        docs.push((format!("name: ok\n\"{p}\": 1\ncount: 2\n"), true));
        docs.push((format!("kind: \"{p}\"\n"), true));                    // unknown variant reflecting the value
        docs.push((format!("count: \"{p}\"\n"), true));                   // invalid int
        docs.push((format!("flag: \"{p}\"\n"), true));
        docs.push((format!("p: \"{p}\"\n"), true));                       // custom message reflecting the value
        docs.push((format!("\"{p}\": 1\n\"{p}\": 2\n"), true));           // duplicate key text
        docs.push((format!("a: 1\n# c\n\"k{p}\": 1\nz: 3\n\"k{p}\": 2\nq: 1\n"), true));
        docs.push((format!("name: \"{p}\"\nbogus: 1\n"), false));         // escape only in the source lines
        docs.push((format!("name: &a \"{p}\"\ncount: *a\n"), true));
    }
    for p in raw {
        docs.push((format!("{p}: 1\n"), true));
        docs.push((format!("name: {p}\ncount: x\n"), false));
        docs.push((format!("# {p}\ncount: zzz\n"), false));
        docs.push((format!("count: 1\nbogus{p}: 2\n"), true));
        docs.push((format!("'{p}': 1\n'{p}': 2\n"), true));
    }
    // CRLF, lone CR, multi-byte around the error column, long lines
    for body in ["count: é…x\r\nname: ok\r\n", "name: ok\r\ncount: 漢字\r\nflag: true\r\n", "a\rb: 1\n", "name: x\rcount: zz\nflag: true\nkind: Alpha\n", "name: x\rflag: true\rcount: zz\r", "name: x\r\nflag: true\rcount: [1\n", "name: é😀\ncount: ß…ü\n",
                 "\u{feff}count: bad\n", "\u{feff}name: x\r\ncount: [1\n", "count: [1, 2\n", "name: 'unterminated\n", "\tcount: 1\n",
                 "name: ok\ncount: 1\nflag: maybe\nkind: Alpha\n", "---\nname: a\n---\nname: b\n", "name: *missing\n", ""] {
        docs.push((body.to_string(), false));
    }
    for n in [100usize, 4095, 4096, 4097, 5000, 20000] {
        for unit in ["A", "é", "漢", "\u{1b}[1m", "\u{9b}"] {
            let blob: String = unit.repeat(n / unit.len() + 1);
            docs.push((format!("name: ok\ncount: {blob}\nflag: true\n"), false));
            docs.push((format!("{blob}: 1\n"), true));
            docs.push((format!("name: \"{blob}\"\ncount: x\n"), false));
        }
    }
    // generated documents carrying control characters and escapes in keys / values
    let n_gen = if thorough { 6000 } else { 400 };
    for _ in 0..n_gen {
        let mut d = String::new();
        let lines = 1 + rng.below(7);
        for _ in 0..lines {
            let key = match rng.below(6) {
                0 => format!("\"{}\"", rng.pick(&esc)),
                1 => rng.pick(&raw).to_string(),
                2 => "count".to_string(),
                3 => "kind".to_string(),
                4 => format!("\"k{}é\"", rng.pick(&esc)),
                _ => (*rng.pick(&["name", "flag", "bogus", "p"])).to_string(),
            };
            let val = match rng.below(6) {
                0 => format!("\"{}\"", rng.pick(&esc)),
                1 => rng.pick(&raw).to_string(),
                2 => "1".to_string(),
                3 => format!("é…{}", *rng.pick(&WORDS[..])),
                _ => (*rng.pick(&["true", "x", "Alpha", "[1", "'q", "~"])).to_string(),
            };
            d.push_str(&key);
            d.push_str(": ");
            d.push_str(&val);
            d.push_str(if rng.chance(1, 5) { "\r\n" } else { "\n" });
        }
        docs.push((d, true));
    }
    docs
}

/// reader inputs whose last line begins with `%` and runs to end of input make `from_reader` spin
/// (known finding of C01, recorded there); keep them out of this stream
fn reader_hang_class(doc: &str) -> bool {
    doc.rsplit('\n').next().map(|l| l.starts_with('%')).unwrap_or(false)
}

fn oracle(a: &Args, rng: &mut Rng, sink: &mut Sink) -> (u64, BTreeMap<String, u64>) {
    let f = std::fs::File::create(format!("{}/snippet.oracle.jsonl", a.out)).unwrap();
    let mut o = Oracle { out: std::io::BufWriter::new(f), seen: BTreeMap::new(), checks: 0, stats: BTreeMap::new() };
    let docs = oracle_documents(rng, a.thorough);
    let radii = [1usize, 3, 64, HUGE];
    for (i, (doc, reflects)) in docs.iter().enumerate() {
        let radius = if i % 3 == 0 { 64 } else { *rng.pick(&radii) };
        let opts = || { let mut op = Options::default(); op.crop_radius = radius; op.with_snippet = true; op };
        macro_rules! run { ($t:ty, $tn:expr) => {{
            match guarded(|| serde_saphyr::from_str_with_options::<$t>(doc, opts())) {
                Some(Err(e)) => { o.count(&format!("errors.str.{}", crate::errs::kind(&e))); o.render_all(concat!("str/", $tn), doc, &e, radius, *reflects); }
                Some(Ok(_)) => o.count("parsed_ok"),
                None => o.fail("C17-entry-panic", "from_str_with_options panicked", &hex(doc), "panic", "Ok or Err"),
            }
            if !reader_hang_class(doc) {
                match guarded(|| serde_saphyr::from_reader_with_options::<_, $t>(std::io::Cursor::new(doc.as_bytes()), opts())) {
                    Some(Err(e)) => { o.count(&format!("errors.reader.{}", crate::errs::kind(&e))); o.render_all(concat!("reader/", $tn), doc, &e, radius, *reflects); }
                    Some(Ok(_)) => o.count("parsed_ok"),
                    None => o.fail("C17-entry-panic", "from_reader_with_options panicked", &hex(doc), "panic", "Ok or Err"),
                }
            }
        }}}
        run!(Strict, "strict");
        if i % 2 == 0 { run!(HashMap<String, i32>, "map"); }
        if doc.starts_with("p:") || i % 7 == 0 { run!(HasPicky, "picky"); }
    }
    // long documents (longer than the reader's recent-bytes ring) whose lines end with a lone CR, CRLF, LF
    // or a mixture, with the error near the end: the reader's window has evicted most of the document, its
    // first line number comes from the ring's count of evicted line breaks
    for brk in ["\r", "\r\n", "\n", "mix"] {
        for pad in 0..4usize {
            let mut doc = String::new();
            let mut n = 0usize;
            let push_brk = |doc: &mut String, n: usize| match brk {
                "mix" => doc.push_str(["\r", "\r\n", "\n"][n % 3]),
                b => doc.push_str(b),
            };
            while doc.len() < h::RING_BUFFER_SIZE + h::MAX_READ_AHEAD + 700 + pad {
                doc.push_str(&format!("k{n}: {}", n % 10));
                if n == 3 { doc.push_str(&"0".repeat(pad)); }
                push_brk(&mut doc, n);
                n += 1;
            }
            doc.push_str("bad: zz");
            push_brk(&mut doc, n);
            for j in 0..3 { doc.push_str(&format!("t{j}: 1")); push_brk(&mut doc, n + 1 + j); }
            let radius = 64usize;
            let opts = || { let mut op = Options::default(); op.crop_radius = radius; op.with_snippet = true; op };
            match guarded(|| serde_saphyr::from_str_with_options::<HashMap<String, i32>>(&doc, opts())) {
                Some(Err(e)) => { o.count("errors.str.longcr"); o.render_all("str/longcr", &doc, &e, radius, false); }
                Some(Ok(_)) => o.count("parsed_ok"),
                None => o.fail("C17-entry-panic", "from_str_with_options panicked", &hex(&doc), "panic", "Ok or Err"),
            }
            match guarded(|| serde_saphyr::from_reader_with_options::<_, HashMap<String, i32>>(std::io::Cursor::new(doc.as_bytes()), opts())) {
                Some(Err(e)) => { o.count("errors.reader.longcr"); o.render_all("reader/longcr", &doc, &e, radius, false); }
                Some(Ok(_)) => o.count("parsed_ok"),
                None => o.fail("C17-entry-panic", "from_reader_with_options panicked", &hex(&doc), "panic", "Ok or Err"),
            }
        }
    }
    // multi-region errors: a validation report with two issues `gap` lines apart; every issue must be
    // shown with its own line
    for gap in 1..=6usize {
        let mut lines = vec!["b: 1".to_string(), "c: 2".to_string(), "e: 5".to_string(), "# x".to_string(), "# y".to_string(), "# z".to_string()];
        lines.truncate(gap - 1);
        let doc = format!("a: x\n{}d: y\n{}", lines.iter().map(|l| format!("{l}\n")).collect::<String>(),
                          ["b: 1\n", "c: 2\n", "e: 5\n"].iter().skip(gap.min(4) - 1).cloned().collect::<String>());
        let doc = if doc.contains("b: 1") { doc } else { format!("{doc}b: 1\n") };
        let doc = if doc.contains("c: 2") { doc } else { format!("{doc}c: 2\n") };
        let doc = if doc.contains("e: 5") { doc } else { format!("{doc}e: 5\n") };
        match guarded(|| serde_saphyr::from_str_valid::<Form>(&doc)) {
            Some(Err(e)) => {
                o.count("errors.valid.garde");
                match guarded(|| e.to_string()) {
                    None => o.fail("C17-render-panic", "valid/display panicked", &hex(&doc), "panic", "a rendered string"),
                    Some(out) => {
                        o.checks += 1;
                        o.control_scan("C17-snippet", "valid/display", &doc, &out, '|');
                        let blocks = gutter_blocks(&out, '|');
                        for want in [1usize, 1 + gap] {
                            if !blocks.iter().any(|bl| bl.iter().any(|(n, _)| *n == want)) {
                                // class: the issue lies on the line right after the last row of an earlier
                                // issue's region, whose end_line over-counts the empty line after its final break
                                let id = if want == 4 && gap == 3 { "C17-region-end-line-overcount" } else { "C17-reported-line-not-shown" };
                                o.fail(id, &format!("channel valid/display: issue on line {want} is rendered without its line"),
                                       &hex(&doc), &hex(&out), "every located issue is shown with the line it refers to");
                            }
                        }
                    }
                }
            }
            Some(Ok(_)) => o.count("parsed_ok"),
            None => o.fail("C17-entry-panic", "from_str_valid panicked", &hex(&doc), "panic", "Ok or Err"),
        }
    }
    // two-location (alias) errors: a type error inside an aliased value is rendered with two windows (use site, anchor
    // definition); the anchor sits on a LONG line, 0..4 lines away from the alias (one shared region / two regions);
    // both windows are subject to the width and the 5-line rule
    {
        #[derive(Debug, Deserialize)]
        #[allow(dead_code)]
        struct ASettings { note: String, limit: u64, other: String }
        #[derive(Debug, Deserialize)]
        #[allow(dead_code)]
        struct ADoc { settings: ASettings, #[serde(default)] a: i32, #[serde(default)] b: i32, #[serde(default)] c: i32, #[serde(default)] d: i32, enabled: bool }
        for long in [40usize, 300] {
            for dist in 0..5usize {
                let mut doc = format!("settings: {{note: \"{}\", limit: &lim 4096, other: \"{}é\"}}\n", "n".repeat(long), "o".repeat(long));
                for (i, k) in ["a", "b", "c", "d"].iter().take(dist).enumerate() { doc.push_str(&format!("{k}: {i}\n")); }
                doc.push_str("enabled: *lim\n");
                for radius in [1usize, 8, 64] {
                    let mk = || { let mut op = Options::default(); op.crop_radius = radius; op.with_snippet = true; op };
                    match guarded(|| serde_saphyr::from_str_with_options::<ADoc>(&doc, mk())) {
                        Some(Err(e)) => { o.count("errors.str.alias_two_windows"); o.render_all("str/alias", &doc, &e, radius, false); }
                        Some(Ok(_)) => o.count("parsed_ok"),
                        None => o.fail("C17-entry-panic", "from_str_with_options panicked", &hex(&doc), "panic", "Ok or Err"),
                    }
                    match guarded(|| serde_saphyr::from_reader_with_options::<_, ADoc>(std::io::Cursor::new(doc.as_bytes()), mk())) {
                        Some(Err(e)) => { o.count("errors.reader.alias_two_windows"); o.render_all("reader/alias", &doc, &e, radius, false); }
                        Some(Ok(_)) => o.count("parsed_ok"),
                        None => o.fail("C17-entry-panic", "from_reader_with_options panicked", &hex(&doc), "panic", "Ok or Err"),
                    }
                }
            }
        }
    }
    // validation reports whose issue paths run through hostile map keys (YAML escapes for ESC / CSI / DEL / NEL / NUL /
    // BEL), at one and at three levels of nesting, beside a top-level issue; garde and validator; every renderer
    {
        let keys: [&str; 9] = ["\\e[31mred\\e[0m", "\\e]0;t\\a", "\\u009b31m", "x\\x7fy", "a\\Nb", "\\x90d\\x9c", "nul\\0z", "cr\\rlf", "plain key"];
        for (ki, k) in keys.iter().enumerate() {
            for shape in 0..4u8 {
                let doc = match shape {
                    0 => format!("title: ok\nlisteners:\n  \"{k}\":\n    name: x\n    port: 80\n"),
                    1 => format!("title: t\nlisteners:\n  fine: {{name: good, port: 2000}}\n  \"{k}\": {{name: good, port: 1}}\nlist:\n- {{name: y, port: 3000}}\n"),
                    2 => format!("title: ok\ndeep:\n  \"{k}\":\n    \"in{k}\":\n    - {{name: good, port: 2000}}\n    - name: z\n      port: 9\n"),
                    _ => format!("title: ok\nlist:\n- name: good\n  port: 2000\n- name: \"{k}\"\n  port: 7\n"),
                };
                for radius in [1usize, 64] {
                    let mk = || { let mut op = Options::default(); op.crop_radius = radius; op.with_snippet = true; op };
                    match guarded(|| serde_saphyr::from_str_with_options_valid::<VOuterG>(&doc, mk())) {
                        Some(Err(e)) => { o.count("errors.valid.nested.garde"); o.render_all("valid-nested/garde", &doc, &e, radius, true); }
                        Some(Ok(_)) => o.count("parsed_ok"),
                        None => o.fail("C17-entry-panic", "from_str_with_options_valid panicked", &hex(&doc), "panic", "Ok or Err"),
                    }
                    if shape != 2 {
                        match guarded(|| serde_saphyr::from_str_with_options_validate::<VOuterV>(&doc, mk())) {
                            Some(Err(e)) => { o.count("errors.valid.nested.validator"); o.render_all("valid-nested/validator", &doc, &e, radius, true); }
                            Some(Ok(_)) => o.count("parsed_ok"),
                            None => o.fail("C17-entry-panic", "from_str_with_options_validate panicked", &hex(&doc), "panic", "Ok or Err"),
                        }
                    }
                }
                let _ = ki;
            }
        }
    }
    // the full pipeline on generated (text, location, radius) through a `Message` error: exercises
    // region storage + re-rendering for arbitrary positions, string (`with_snippet`) and reader-like
    // (`with_snippet_offset`) attachment
    let n = if a.thorough { 30000 } else { 3000 };
    for _ in 0..n {
        let long = rng.chance(1, 8);
        let t = gen_text(rng, long);
        let (line, col) = pick_loc(rng, &t);
        let radius = *rng.pick(&[1usize, 2, 5, 64, HUGE]);
        let start_line = if rng.chance(1, 3) { Some(1 + rng.below(4)) } else { None };
        let abs_line = line + start_line.map(|s| s as u32 - 1).unwrap_or(0);
        let msg = *rng.pick(&["bad value", "bad \u{1b}[31m value", "bad \u{9b} value", "bad \u{7f} value"]);
        let r = guarded(|| h::message_error_with_snippet(msg, abs_line, col, &t, start_line, radius));
        match r {
            None => o.fail("C17-with-snippet-panic", "with_snippet panicked", &hex(&t), "panic", "a wrapped error"),
            Some(e) => {
                o.count("pipeline.cases");
                let s = guarded(|| e.to_string());
                match s {
                    None => o.fail("C17-render-panic", "pipeline/display panicked", &hex(&t), "panic", "a rendered string"),
                    Some(s) => {
                        // the line numbering of `t` is offset for reader-like attachment: check against a
                        // document padded with empty lines in front
                        let padded = format!("{}{}", "\n".repeat(start_line.map(|s| s - 1).unwrap_or(0)),
                                             t.strip_prefix('\u{feff}').unwrap_or(&t));
                        o.scan("pipeline/display", &padded, &e, &s, radius);
                    }
                }
            }
        }
    }
    o.out.flush().unwrap();
    for (k, v) in &o.stats { *sink.stats.entry(format!("oracle.{k}")).or_insert(0) += *v; }
    for (k, v) in &o.seen { *sink.stats.entry(format!("oracle.fail.{k}")).or_insert(0) += *v; }
    (o.checks, o.seen)
}

pub fn run(mode: &str, a: &Args) -> i32 {
    match mode {
        "gen" => generate(a),
        _ => { eprintln!("snippet: unknown mode {mode}"); 2 }
    }
}

fn generate(a: &Args) -> i32 {
    // panics inside `guarded` are outcomes (reported in the answer); anything else is a harness fault
    std::panic::set_hook(Box::new(|info| {
        if GUARD_DEPTH.with(|d| d.get()) == 0 { eprintln!("harness panic: {info}"); }
    }));
    let mut rng = Rng::new(a.seed);
    let mut sink = Sink::new(&a.out, "snippet");
    let nontrivial = differential(a, &mut rng, &mut sink);
    let (checks, fails) = oracle(a, &mut rng, &mut sink);
    sink.finish(&a.out, "snippet", serde_json::json!({
        "distinct_nontrivial": nontrivial,
        "oracle_renderings_checked": checks,
        "oracle_failure_classes": fails,
        "rule": "hook-level, function by function (sanitize, is_clean, line_starts, col_to_byte, line_col_to_byte, next_char_boundary, crop_line_by_cols, crop_window_text, crop_source_window, own window renderer, with_snippet regions, ring trim, RingReader::get_recent): ALL texts up to length 4 (quick) / 5 (thorough) over {a, \\n, \\r, é, …, 😀, ESC, U+0085} for the per-text ops, all texts up to length 3/4 x rows x columns 0..4 for the position helpers, all lines up to length 3/4 x left,right in 0..5 (+huge) for crop_line_by_cols, sampled (row, col, radius in {0,1,2,64,usize::MAX}, mapping, span) for the window functions; generated structured texts with very long lines (4 KiB..17 KiB, ASCII and multi-byte), CRLF / lone CR, BOM, control characters, locations at / after end of text and line, radii {0,1,2,3,5,8,64,u32::MAX,usize::MAX}; all byte strings up to length 4/5 over {a,\\n,80,bf,c2,e2,f0,f5,ff} and random windows of valid streams for the ring trim. The real RingReader is driven over streams whose line breaks are LF, lone CR and CRLF (every third stream), with a lone CR / CRLF / CR CR LF / LF CR / CR CR placed at every offset around the eviction edge (CRLF pair evicted together or split) and CR as the last byte read. Non-trivial = distinct op whose implementation answer is not the identity/none/empty answer. Oracle (implementation only): every error of documents with control characters / YAML escapes in keys and values (unknown field, unknown variant, duplicate key, custom messages, scan errors, long lines, CRLF, BOM) from from_str and from_reader, plus documents longer than the reader's ring + read-ahead whose lines end with lone CR / CRLF / LF / a mixture and whose error is near the end (the reader window's first line number comes from the ring's count of evicted line breaks), rendered by Display, Default/Developer/User/custom formatter with snippets on (and off: totality only), and through the miette adapter (graphical no-colour + narratable); each output scanned for C0/DEL/C1, ≤ 5 shown lines, line width ≤ 2r+3, reported line shown, marker column.",
    }));
    0
}
