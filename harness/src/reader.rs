//! C09: reader glue. (i) op-level differential of `ChunkedChars` / `RingReader` against the Lean model;
//! (ii) implementation-only oracle: every entry point returns the same result under every chunking.
use crate::ioinst::*;
use crate::proto::*;
use crate::yamlgen::*;
use crate::Args;
use serde::Deserialize;
use serde_saphyr::verif_hooks::reader as h;
use serde_saphyr::Error;
use std::collections::BTreeMap;
use std::io::Write as _;

pub fn run(mode: &str, a: &Args) -> i32 {
    match mode {
        "gen" => generate(a),
        "pctprobe" => pct_probe_child(),
        _ => { eprintln!("reader: unknown mode {mode}"); 2 }
    }
}

const ALPHA: [u8; 16] = [0x61, 0xC3, 0xA9, 0xE2, 0x82, 0xAC, 0xF0, 0x9F, 0x98, 0x80, 0xEF, 0xBB, 0xBF, 0x0A, 0xFF, 0x25];

/// all compositions of `n` (ordered partitions into positive parts), i.e. the 2^(n-1) ways to cut
pub fn partitions(n: usize) -> Vec<Vec<usize>> {
    if n == 0 { return vec![vec![]]; }
    let mut out = Vec::new();
    for mask in 0..(1u32 << (n - 1)) {
        let mut parts = Vec::new();
        let mut cur = 1;
        for i in 0..n - 1 {
            if mask >> i & 1 == 1 { parts.push(cur); cur = 1; } else { cur += 1; }
        }
        parts.push(cur);
        out.push(parts);
    }
    out
}

fn data_items(bytes: &[u8], parts: &[usize]) -> Vec<RItem> {
    let mut v = Vec::new();
    let mut p = 0;
    for &k in parts {
        v.push(RItem::Data(bytes[p..p + k].to_vec()));
        p += k;
    }
    if p < bytes.len() { v.push(RItem::Data(bytes[p..].to_vec())); }
    v
}

fn steps_tok(steps: &[h::ChunkedStep], pulled: usize) -> String {
    let mut v: Vec<String> = steps.iter().map(|s| {
        let mut t = match s.ch { Some(c) => format!("c{}", hex(&c.to_string())), None => "n".to_string() };
        if let Some(k) = s.err { t.push_str(&format!("/e{k}")); }
        t
    }).collect();
    v.push(format!("pulled={pulled}"));
    v.join(" ")
}

fn cc_case(sink: &mut Sink, cap: Option<usize>, max_none: usize, items: &[RItem]) -> Vec<h::ChunkedStep> {
    let mut rd = ItemReader::new(items);
    let max_calls = 4096;
    let steps = h::chunked_chars_run(&mut rd, cap, max_none, max_calls);
    let capt = match cap { Some(c) => c.to_string(), None => "-".to_string() };
    sink.case(&format!("reader cc {capt} {max_none} {max_calls} {}", items_tok(items)), &steps_tok(&steps, rd.pulled));
    if rd.max_req > 3 { sink.count("cc.request_gt3"); }
    steps
}

fn ring_tok(steps: &[h::RingStep]) -> String {
    steps.iter().map(|s| {
        let o = match &s.out {
            h::RingOut::Read(Ok(b)) => format!("r:{}", hex_bytes(b)),
            h::RingOut::Read(Err(k)) => format!("r!{k}"),
            h::RingOut::Recent(Ok(sn)) => format!("g:{}:{}:{}:{}", sn.start_offset, sn.end_offset, sn.start_line, hex_bytes(&sn.bytes)),
            h::RingOut::Recent(Err(k)) => format!("g!{k}"),
        };
        format!("{o}@{}+{}", s.offset, s.read_ahead)
    }).collect::<Vec<_>>().join(" ")
}

fn ring_case(sink: &mut Sink, items: &[RItem], ops: &[h::RingOp]) {
    let rd = ItemReader::new(items);
    let steps = h::ring_run(rd, ops);
    let ops_t: Vec<String> = ops.iter().map(|o| match o { h::RingOp::Read(n) => format!("r{n}"), h::RingOp::Recent => "g".to_string() }).collect();
    // implementation-side invariants of the property (also proved on the model)
    let mut returned: Vec<u8> = Vec::new();
    for s in &steps {
        if let h::RingOut::Read(Ok(b)) = &s.out { returned.extend_from_slice(b); }
        if s.read_ahead > h::MAX_READ_AHEAD_HOOK { sink.count("ring.READAHEAD_EXCEEDED"); }
    }
    let flat: Vec<u8> = items.iter().flat_map(|i| match i { RItem::Data(b) => b.clone(), _ => vec![] }).collect();
    if !flat.starts_with(&returned) { sink.count("ring.NOT_A_PREFIX"); }
    sink.count("ring.cases");
    sink.case(&format!("reader ring {} {}", items_tok(items), ops_t.join(",")), &ring_tok(&steps));
}

fn rand_partition(rng: &mut Rng, n: usize, maxpart: usize) -> Vec<usize> {
    let mut v = Vec::new();
    let mut left = n;
    while left > 0 {
        let k = 1 + rng.below(maxpart.min(left));
        v.push(k);
        left -= k;
    }
    v
}

fn rand_bytes(rng: &mut Rng, n: usize) -> Vec<u8> {
    let pieces: [&[u8]; 12] = [b"a", b"\n", "é".as_bytes(), "€".as_bytes(), "😀".as_bytes(), "\u{feff}".as_bytes(), b"key: ", b"- ",
        &[0xFF], &[0xC3], &[0xE2, 0x82], &[0xED, 0xA0, 0x80]];
    let mut v = Vec::new();
    while v.len() < n {
        let p = if rng.chance(1, 12) { &pieces[8 + rng.below(4)][..] } else { &pieces[rng.below(8)][..] };
        v.extend_from_slice(p);
    }
    v
}

// ------------------------------------------------------------------------------------------------
// (ii) oracle: entry points agree
// ------------------------------------------------------------------------------------------------

#[derive(Debug, Deserialize, PartialEq)]
struct Cfg { name: String, n: i32 }
#[derive(Debug, Deserialize, PartialEq)]
enum En { A, B(i32), C { x: String } }

/// a tag token that is only a handle (`!!`, `!a!`) — nothing between the closing `!` and the next blank, break,
/// flow indicator or the end of the input.  The external scanner has two tag-scanning code paths (borrowing
/// for string input, owned for reader input) that treat it differently: known finding C09-reader-empty-tag-suffix.
fn empty_tag_suffix(bytes: &[u8]) -> bool {
    let n = bytes.len();
    let mut i = 0;
    while i < n {
        if bytes[i] == b'!' {
            let mut j = i + 1;
            while j < n && !b" \t\r\n!,[]{}".contains(&bytes[j]) { j += 1; }
            if j < n && bytes[j] == b'!' {
                let after = j + 1;
                if after == n || b" \t\r\n,[]{}".contains(&bytes[after]) { return true; }
            }
            i = j.max(i + 1);
        } else { i += 1; }
    }
    false
}

fn reader_diff_id(bytes: &[u8], double_bom: bool, both_err: bool) -> &'static str {
    if double_bom { "C09-double-bom" }
    else if bytes.contains(&0) { "C09-nul-ends-string-input" }
    else if empty_tag_suffix(bytes) { "C09-reader-empty-tag-suffix" }
    else if both_err { "C09-reader-error-differs" } else { "C09-reader-disagrees" }
}

fn err_tok(e: &Error) -> String {
    let l = crate::errs::loc(e);
    format!("err {} {}:{}", crate::errs::kind(e), l >> 20, l & 0xFFFFF)
}

fn res_tok<T: std::fmt::Debug>(r: &Result<T, Error>) -> String {
    match r {
        Ok(v) => format!("ok {v:?}"),
        Err(e) => err_tok(e),
    }
}

struct Oracle {
    out: std::io::BufWriter<std::fs::File>,
    fails: u64,
    per_id: BTreeMap<String, u64>,
}
impl Oracle {
    fn fail(&mut self, id: &str, what: &str, input: &[u8], observed: &str, expected: &str) {
        self.fails += 1;
        let n = self.per_id.entry(id.to_string()).or_insert(0);
        *n += 1;
        if *n > std::env::var("VERIF_ORACLE_CAP").ok().and_then(|v| v.parse().ok()).unwrap_or(40u64) { return; }
        let j = serde_json::json!({"id": id, "what": what, "input": String::from_utf8_lossy(input), "input_hex": &hex_bytes(input)[1..],
            "observed": observed, "expected": expected});
        writeln!(self.out, "{j}").unwrap();
    }
}

/// chunk schedules for one document: name + sizes (then `rest`-sized pieces)
fn schedules(rng: &mut Rng, bytes: &[u8]) -> Vec<(String, Vec<usize>, usize)> {
    let n = bytes.len();
    let mut v: Vec<(String, Vec<usize>, usize)> = vec![
        ("whole".into(), vec![], usize::MAX), ("1".into(), vec![], 1), ("2".into(), vec![], 2), ("3".into(), vec![], 3), ("7".into(), vec![], 7),
    ];
    v.push(("rand".into(), rand_partition(rng, n, 5), 1));
    // cut inside every multi-byte character and after every line break / `-` / `:`
    let mut cuts: Vec<usize> = Vec::new();
    for i in 1..n {
        let b = bytes[i];
        if b & 0xC0 == 0x80 || bytes[i - 1] == b'\n' || bytes[i - 1] == b'-' || bytes[i - 1] == b':' || bytes[i - 1] == b'\r' { cuts.push(i); }
    }
    let mut sizes = Vec::new();
    let mut last = 0;
    for c in cuts { sizes.push(c - last); last = c; }
    v.push(("adversarial".into(), sizes, usize::MAX));
    v
}

fn check_family<T>(o: &mut Oracle, sink: &mut Sink, tname: &str, text: &str, bytes: &[u8], scheds: &[(String, Vec<usize>, usize)], reader_ok: bool)
where T: serde::de::DeserializeOwned + std::fmt::Debug + PartialEq {
    let s = res_tok(&serde_saphyr::from_str::<T>(text));
    let sl = res_tok(&serde_saphyr::from_slice::<T>(bytes));
    let c1 = res_tok(&serde_saphyr::with_deserializer_from_str(text, |d| T::deserialize(d)));
    let c2 = res_tok(&serde_saphyr::with_deserializer_from_slice(bytes, |d| T::deserialize(d)));
    sink.count(if s.starts_with("ok") { "oracle.str.ok" } else { "oracle.str.err" });
    for (name, got) in [("from_slice", &sl), ("with_deserializer_from_str", &c1), ("with_deserializer_from_slice", &c2)] {
        if got != &s { o.fail("C09-str-family-disagree", &format!("{name} vs from_str, target {tname}"), bytes, got, &s); }
    }
    // the same under tight budgets (document count, event count around the total): all entry points of the family agree
    // on value / error kind / position under EVERY option vector, not only the default one
    {
        let nev = crate::pump::items_tokens(text).1;
        let mut buds: Vec<serde_saphyr::budget::Budget> = Vec::new();
        buds.push(serde_saphyr::budget::Budget { max_documents: 1, ..Default::default() });
        for d in [0usize, 1, 2, 3] { if nev + 4 > d { buds.push(serde_saphyr::budget::Budget { max_events: nev + 4 - d, ..Default::default() }); } }
        buds.push(serde_saphyr::budget::Budget { max_nodes: 1, ..Default::default() });
        for b in buds {
            let mk = || { let mut op = serde_saphyr::Options::default(); op.budget = Some(b.clone()); op };
            let s2 = res_tok(&serde_saphyr::from_str_with_options::<T>(text, mk()));
            let sl2 = res_tok(&serde_saphyr::from_slice_with_options::<T>(bytes, mk()));
            let c12 = res_tok(&serde_saphyr::with_deserializer_from_str_with_options(text, mk(), |d| T::deserialize(d)));
            let c22 = res_tok(&serde_saphyr::with_deserializer_from_slice_with_options(bytes, mk(), |d| T::deserialize(d)));
            sink.count("oracle.str.budgeted");
            let mut all = vec![("from_slice_with_options", sl2), ("with_deserializer_from_str_with_options", c12), ("with_deserializer_from_slice_with_options", c22)];
            if reader_ok {
                all.push(("from_reader_with_options", res_tok(&serde_saphyr::from_reader_with_options::<_, T>(std::io::Cursor::new(bytes.to_vec()), mk()))));
                all.push(("with_deserializer_from_reader_with_options", res_tok(&serde_saphyr::with_deserializer_from_reader_with_options(std::io::Cursor::new(bytes.to_vec()), mk(), |d| T::deserialize(d)))));
            }
            for (name, got) in all {
                if got != s2 && !bytes.contains(&0) && !empty_tag_suffix(bytes) && !text.starts_with("\u{feff}\u{feff}") {
                    o.fail("C09-family-disagrees-under-budget", &format!("{name} vs from_str_with_options (budget {b:?}), target {tname}"), bytes, &got, &s2);
                }
            }
        }
    }
    if !reader_ok { return; }
    let double_bom = text.starts_with("\u{feff}\u{feff}");
    for (sname, sizes, rest) in scheds {
        beat(&format!("{tname}/{sname}: {}", hex_bytes(bytes)));
        let r = res_tok(&serde_saphyr::from_reader::<_, T>(SchedReader::new(bytes, sizes, *rest, bytes.len(), Tail::Eof)));
        let rc = res_tok(&serde_saphyr::with_deserializer_from_reader(SchedReader::new(bytes, sizes, *rest, bytes.len(), Tail::Eof), |d| T::deserialize(d)));
        sink.count("oracle.reader_runs");
        for (name, got) in [("from_reader", &r), ("with_deserializer_from_reader", &rc)] {
            if got != &s {
                let id = reader_diff_id(bytes, double_bom, s.starts_with("err") && got.starts_with("err"));
                o.fail(id, &format!("{name} (chunking {sname}) vs from_str, target {tname}"), bytes, got, &s);
            }
        }
    }
}

fn check_all_targets(o: &mut Oracle, sink: &mut Sink, rng: &mut Rng, bytes: &[u8], exhaustive_parts: bool) {
    let Ok(text) = std::str::from_utf8(bytes) else {
        // Not UTF-8 text (outside the statement, which is about "the same UTF-8 text"): the slice entry points
        // refuse it; the decoder passes UTF-8 bytes through — with a byte-order mark too since fix cbb7ef9 (before, it
        // transcoded marked input lossily: U+FFFD) — and `ChunkedChars` must refuse it.
        let sl = serde_saphyr::from_slice::<serde_json::Value>(bytes);
        if sl.is_ok() { o.fail("C09-invalid-utf8-accepted", "from_slice accepted invalid UTF-8", bytes, "ok", "err InvalidUtf8Input"); }
        {
            let bom = bytes.starts_with(&[0xEF, 0xBB, 0xBF]);
            for (sname, sizes, rest) in schedules(rng, bytes) {
                beat(&format!("invalid/{sname}: {}", hex_bytes(bytes)));
                let r = serde_saphyr::from_reader::<_, serde_json::Value>(SchedReader::new(bytes, &sizes, rest, bytes.len(), Tail::Eof));
                sink.count("oracle.invalid_utf8_reader_runs");
                if bom { sink.count("oracle.invalid_utf8_after_bom_runs"); }
                if r.is_ok() { o.fail("C09-invalid-utf8-accepted", &format!("from_reader ({sname}) accepted invalid UTF-8{}", if bom { " after a byte-order mark" } else { "" }), bytes, &res_tok(&r), "err"); }
            }
        }
        return;
    };
    // (reader input that stops inside a `%` line used to hang the external scanner; fixed by bfd6267)
    let reader_ok = true;
    if hang_risk(bytes) { sink.count("oracle.docs_with_percent_line"); }
    let mut scheds = schedules(rng, bytes);
    if exhaustive_parts && bytes.len() <= 10 {
        for (i, p) in partitions(bytes.len()).into_iter().enumerate() { scheds.push((format!("part{i}"), p, usize::MAX)); }
    }
    check_family::<serde_json::Value>(o, sink, "Value", text, bytes, &scheds, reader_ok);
    let few: Vec<(String, Vec<usize>, usize)> = scheds.iter().take(7).cloned().collect();
    check_family::<String>(o, sink, "String", text, bytes, &few, reader_ok);
    check_family::<Vec<String>>(o, sink, "Vec<String>", text, bytes, &few, reader_ok);
    check_family::<BTreeMap<String, String>>(o, sink, "Map<String,String>", text, bytes, &few, reader_ok);
    check_family::<i64>(o, sink, "i64", text, bytes, &few, reader_ok);
    check_family::<f64>(o, sink, "f64", text, bytes, &few, reader_ok);
    check_family::<bool>(o, sink, "bool", text, bytes, &few, reader_ok);
    check_family::<Option<String>>(o, sink, "Option<String>", text, bytes, &few, reader_ok);
    check_family::<Vec<i32>>(o, sink, "Vec<i32>", text, bytes, &few, reader_ok);
    check_family::<Cfg>(o, sink, "Cfg", text, bytes, &few, reader_ok);
    check_family::<En>(o, sink, "En", text, bytes, &few, reader_ok);
    check_family::<Vec<BTreeMap<String, Option<i32>>>>(o, sink, "Vec<Map>", text, bytes, &few, reader_ok);
    borrow_checks(o, sink, text, bytes, reader_ok);
}

#[derive(Debug, Deserialize)]
#[serde(untagged)]
enum AnyStr<'a> { #[serde(borrow)] S(&'a str) }

/// Borrowed targets: `&str` succeeds exactly when the owned parse succeeds and the parser handed the scalar
/// out as a slice of the input (then the text is equal and lies inside the input); reader input never lends.
fn borrow_checks(o: &mut Oracle, sink: &mut Sink, text: &str, bytes: &[u8], reader_ok: bool) {
    let owned = serde_saphyr::from_str::<String>(text);
    let bor = serde_saphyr::from_str::<&str>(text);
    // the event stream `from_str` works on: `LiveEvents::from_str` strips one BOM (the entry points no longer
    // strip another one, fix 7921d77)
    let d = serde_saphyr::verif_hooks::events::live_events_from_str(text, Some(serde_saphyr::Budget::default()), serde_saphyr::options::AliasLimits::default(), false, 64);
    // the parser lends the scalar AND the tag leaves the text as it is (`!!binary` decodes: nothing to lend)
    let parser_borrowed = d.events.first().map(|e| e.kind == 0 && e.borrowed && owned.as_ref().map(|o| *o == e.value).unwrap_or(true)).unwrap_or(false);
    let tagged = d.events.iter().any(|e| e.raw_tag.is_some());
    let iff_id = if tagged { "C09-borrowed-str-ignores-tag" } else { "C09-borrow-iff" };
    match (&owned, &bor) {
        (Ok(os), Ok(bs)) => {
            sink.count("borrow.ok");
            let lo = text.as_ptr() as usize;
            let inside = (bs.as_ptr() as usize) >= lo && (bs.as_ptr() as usize) + bs.len() <= lo + text.len();
            if os.as_str() != *bs { o.fail(if tagged { "C09-borrowed-str-ignores-tag" } else { "C09-borrow-text-differs" }, "&str result differs from String result", bytes, bs, os); }
            if !inside { o.fail("C09-borrow-not-in-input", "&str result does not point into the input", bytes, bs, "slice of the input"); }
            if !text.contains(*bs) { o.fail("C09-borrow-not-verbatim", "&str result is not verbatim in the input", bytes, bs, "substring of the input"); }
            if !parser_borrowed { o.fail("C09-borrow-iff", "&str succeeded although the parser did not hand out a borrowed scalar", bytes, "ok", "err"); }
        }
        (Ok(os), Err(e)) => {
            sink.count("borrow.refused");
            // refused although the owned parse succeeds: must be because the parser's Cow is owned
            if parser_borrowed { o.fail(iff_id, "&str refused although the parser handed out a borrowed scalar", bytes, &err_tok(e), &format!("ok {os:?}")); }
        }
        (Err(_), Ok(bs)) => o.fail(iff_id, "&str succeeded although String fails", bytes, bs, &res_tok(&owned)),
        (Err(_), Err(_)) => sink.count("borrow.both_err"),
    }
    // containers of borrowed strings agree with the owned variant whenever they succeed
    let ov = serde_saphyr::from_str::<Vec<String>>(text);
    let bv = serde_saphyr::from_str::<Vec<&str>>(text);
    if let (Ok(a), Ok(b)) = (&ov, &bv) {
        if a.iter().map(|s| s.as_str()).collect::<Vec<_>>() != *b { o.fail(if tagged { "C09-borrowed-str-ignores-tag" } else { "C09-borrow-text-differs" }, "Vec<&str> differs from Vec<String>", bytes, &format!("{b:?}"), &format!("{a:?}")); }
    }
    if bv.is_ok() && ov.is_err() { o.fail(iff_id, "Vec<&str> succeeded although Vec<String> fails", bytes, "ok", "err"); }
    // a flat sequence of untagged scalars and aliases to such scalars: every element can be lent exactly when the
    // RAW parser lent the defining scalar (an alias delivers the anchored scalar, which is verbatim in the input)
    if let (Ok(_), Some(all_lent)) = (&ov, flat_seq_all_lent(text.strip_prefix('\u{feff}').unwrap_or(text))) {
        sink.count(if all_lent { "borrow.seq_all_lent" } else { "borrow.seq_not_all_lent" });
        if all_lent != bv.is_ok() {
            o.fail("C09-borrow-iff-seq", "Vec<&str> over a flat sequence of scalars / aliases: success differs from what the raw parser lends", bytes, if bv.is_ok() { "ok" } else { "err" }, if all_lent { "ok" } else { "err" });
        }
    }
    // the untyped path (`deserialize_any`, reached through untagged enums / flattened fields): a root scalar that the
    // untyped reading takes for a STRING is lent exactly when the parser lent it (fix 3ad3e50: plain scalars used to
    // be handed over owned, so `hello` was refused where `"hello"` was accepted)
    if d.events.len() == 1 {
        if let Ok(serde_json::Value::String(vs)) = serde_saphyr::from_str::<serde_json::Value>(text) {
            let e = &d.events[0];
            let canon_float = [".inf", "-.inf", ".nan"].contains(&vs.as_str());
            if e.kind == 0 && !canon_float {
                let lent = e.borrowed && e.value == vs;
                let r = serde_saphyr::from_str::<AnyStr>(text);
                sink.count(if lent { "borrow.any_lent" } else { "borrow.any_not_lent" });
                match (&r, lent) {
                    (Ok(AnyStr::S(b)), true) => { if *b != vs.as_str() { o.fail("C09-borrow-text-differs", "untagged &str differs from the untyped string", bytes, b, &vs); } }
                    (Ok(_), false) => o.fail("C09-borrow-iff-any", "untagged enum of &str succeeded although the parser did not lend the scalar", bytes, "ok", "err"),
                    (Err(e2), true) => o.fail("C09-borrow-iff-any", "untagged enum of &str refused a scalar that the parser lent (verbatim in the input)", bytes, &err_tok(e2), &format!("ok {vs:?}")),
                    (Err(_), false) => {}
                }
            }
        }
    }
    // reader input never lends: asking the reader-side deserializer for a borrowed str is refused
    if reader_ok && owned.is_ok() {
        beat(&format!("lend: {}", hex_bytes(bytes)));
        let r = serde_saphyr::with_deserializer_from_reader(SchedReader::whole(bytes), |d| <&str as Deserialize>::deserialize(d).map(|s| s.len()));
        sink.count("borrow.reader_asked");
        if let Ok(n) = r { o.fail("C09-reader-lends", "the reader-side deserializer lent a borrowed str", bytes, &format!("ok len {n}"), "err (cannot borrow)"); }
    }
}

/// `Some(all elements lent)` when `text` is one document holding a flat sequence of untagged scalars and aliases to
/// earlier anchored scalars of that sequence (decided on the RAW parser's events, not on serde-saphyr's)
fn flat_seq_all_lent(text: &str) -> Option<bool> {
    use saphyr_parser::{Event, Parser};
    let mut lent: BTreeMap<usize, bool> = BTreeMap::new();
    let mut all = true;
    let mut n = 0;
    let mut state = 0; // 0 before seq, 1 inside, 2 after
    for item in Parser::new_from_str(text) {
        let (ev, _) = item.ok()?;
        match (state, ev) {
            (0, Event::StreamStart) | (0, Event::DocumentStart(_)) => {}
            (0, Event::SequenceStart(0, None)) => state = 1,
            (1, Event::Scalar(v, _, anchor, None)) => {
                let b = matches!(v, std::borrow::Cow::Borrowed(_));
                if anchor != 0 { lent.insert(anchor, b); }
                all &= b;
                n += 1;
            }
            (1, Event::Alias(id)) => { all &= *lent.get(&id)?; n += 1; }
            (1, Event::SequenceEnd) => state = 2,
            (2, Event::DocumentEnd) | (2, Event::StreamEnd) => {}
            _ => return None,
        }
    }
    if state == 2 && n > 0 { Some(all) } else { None }
}

fn corpus_docs(rng: &mut Rng, thorough: bool) -> Vec<Vec<u8>> {
    let mut v: Vec<Vec<u8>> = Vec::new();
    for s in ["", "~", "a", "a\n", "a: 1\n", "- a\n- b\n", "k: v\nk2: [1, 2]\n", "---\na\n...\n", "a\n...\n", "a\n...\njunk: [\n", "a\n---\nb\n",
        "é: ü\n", "- €\n- 😀\n", "name: x\nn: 3\n", "name: é€😀\nn: -7\n", "A", "B: 5", "C: {x: y}", "[1, 2, 3]", "[1, 2", "{a: 1", "a: b: c", "\"esc\\u00e9\\n\"",
        "'it''s'", ">\n folded\n text\n", "|\n lit\n eral\n", "k: >-\n  a\n  b\n", "true", "1.5", "-3", "0x1F", "null", "&a x", "- &a x\n- *a\n", "*x", "[&a hello, *a, *a]", "- &a 'q'\n- *a\n- b\n", "- &a \"e\\n\"\n- *a\n", "- x\n- &b é€\n- *b\n- *b\n", "- &a \"plain\"\n- *a\n",
        "a: 1\r\nb: 2\r\n", "a:\t1\n", "# only comment\n", "a: 1 # c\n", "? a\n: b\n", "!!str 5", "key: 'é'\n", "\"a\\\n  b\"", "- \n- ~\n", "a: |\n  é\n  €\n",
        "x: \"\\ud83d\\ude00\"", "%YAML", "%TAG", "%YAML 1.2", "%YAML 1.2\n---\na\n", "a\n...\n%x", "%TAG ! tag:x,2000:\n--- !a b\n", "a\n%", "%\n", "--- a\n...\n%YAML 1.2\n--- b", "!!binary aGk=", "!!float 007", "- !!binary aGk=\n- b\n", "!!str plain", "a\u{85}b: 1\n", "a\u{2028}b\n", "\u{feff}", "\u{feff}\u{feff}", "a\u{feff}b\n", "k: \u{feff}\n",
        // errors at the START of an unterminated last line after non-ASCII text in a comment / directive line (fix 08f5b65: the
        // reader path took such a token for the scanner's closing mark), and real closing marks after such lines
        // U+0000 in the text: the external scanner's string input takes NUL for the end of the input, its buffered (reader)
        // input keeps reading — class C09-nul-ends-string-input
        "---\0", "# c\0...", "a: 1\0\nb: x", "a\0b", "- x\0\n- y\n", "k: \"q\0r\"\n",
        // CRLF / lone CR / mixed breaks with NO final line break and the error (or the closing mark) at the end of the input:
        // the reader's own account of lines (one break per CRLF pair) places the scanner's closing mark
        "# x\r\n# y", "---\r\n# y", "a: 1\r\nb: 2\r\n---\r\n# y", "# x\r# y", "# x\r\n\r\n# y", "a: 1\r\n# c\r\n[", "k: [1\r\n# é", "x\r\n---\r\n", "# x\r\n# y\r", "# x\n\r# y",
        "#é\n[", "# é\n]", "a: 1 # é\n]", "#é\n---\n[", "%?é,\n}", "#é\r[x", "a: [1\r\n# é\r]", "# é", "k: 1 # é\n# €😀", "#é\n&x", "#é\nk: &a", "a\n...\n%x é"] {
        v.push(s.as_bytes().to_vec());
        // with one / two byte-order marks in front
        v.push(format!("\u{feff}{s}").into_bytes());
        if s.len() < 12 { v.push(format!("\u{feff}\u{feff}{s}").into_bytes()); }
    }
    let ndocs = if thorough { 1500 } else { 150 };
    for i in 0..ndocs {
        let mut g = Gen::new(rng, GenCfg { max_depth: 1 + i % 4, ..Default::default() });
        let d = g.document();
        let mut text = render_doc(&d);
        if rng.chance(1, 3) { text = format!("---\n{text}"); }
        if !text.ends_with('\n') && rng.chance(1, 2) { text.push('\n'); }
        if rng.chance(1, 10) { text = format!("\u{feff}{text}"); }
        if rng.chance(1, 8) && !text.is_empty() {
            let mut cs: Vec<char> = text.chars().collect();
            let p = rng.below(cs.len());
            match rng.below(3) { 0 => { cs.remove(p); } 1 => cs.insert(p, *rng.pick(&['[', '}', '*', '&', ':', '\t', '"', 'é'])), _ => cs.truncate(p) }
            text = cs.into_iter().collect();
        }
        v.push(text.into_bytes());
    }
    // invalid UTF-8: damage a valid document
    let base: Vec<Vec<u8>> = v.iter().filter(|d| d.len() > 3).take(40).cloned().collect();
    for mut d in base {
        let p = rng.below(d.len());
        match rng.below(3) { 0 => d[p] = 0xFF, 1 => d.insert(p, 0xC3), _ => { d.truncate(p); d.extend_from_slice(&[0xE2, 0x82]); } }
        v.push(d);
    }
    v
}

/// child side of the directive-line probe: one hex document per stdin line; parse it through the reader entry
/// point (whole and byte-wise) and acknowledge it on stdout
fn pct_probe_child() -> i32 {
    use std::io::BufRead;
    let stdin = std::io::stdin();
    for line in stdin.lock().lines() {
        let Ok(line) = line else { break };
        let Some(bytes) = unhex(line.trim()) else { continue };
        for rest in [usize::MAX, 1usize] {
            let _ = serde_saphyr::from_reader::<_, serde_json::Value>(SchedReader::new(&bytes, &[], rest, bytes.len(), Tail::Eof));
        }
        println!("ok {}", line.trim());
    }
    0
}

/// Reader input that stops inside a `%` line made the external scanner spin for ever before fix bfd6267.
/// Documents of that class are first sent through a killable child process; returns the first document the
/// child did not return from within the time limit (then the in-process generators leave the class out).
fn pct_probe(docs: &[Vec<u8>]) -> Option<Vec<u8>> {
    use std::io::{BufRead, Write};
    let exe = std::env::current_exe().ok()?;
    let mut child = std::process::Command::new(exe).args(["reader", "pctprobe"])
        .stdin(std::process::Stdio::piped()).stdout(std::process::Stdio::piped()).stderr(std::process::Stdio::null()).spawn().ok()?;
    {
        let mut si = child.stdin.take()?;
        for d in docs { let _ = writeln!(si, "{}", hex_bytes(d)); }
    }
    let out = child.stdout.take()?;
    let (tx, rx) = std::sync::mpsc::channel::<String>();
    std::thread::spawn(move || { for l in std::io::BufReader::new(out).lines().map_while(Result::ok) { if tx.send(l).is_err() { break; } } });
    let mut acked = 0usize;
    loop {
        match rx.recv_timeout(std::time::Duration::from_secs(8)) {
            Ok(_) => { acked += 1; if acked == docs.len() { break; } }
            Err(std::sync::mpsc::RecvTimeoutError::Timeout) => { let _ = child.kill(); let _ = child.wait(); return docs.get(acked).cloned(); }
            Err(_) => break,
        }
    }
    let _ = child.wait();
    if acked < docs.len() { docs.get(acked).cloned() } else { None }
}

/// byte strings whose unterminated last line starts with `%` (a directive line to the scanner), optionally
/// after other lines, byte-order marks, and with multi-byte / malformed tails
fn pct_tail_bytes(rng: &mut Rng) -> Vec<u8> {
    let mut v = Vec::new();
    for _ in 0..rng.below(3) {
        v.extend_from_slice(*rng.pick(&[&b"a: 1\n"[..], b"%YAML 1.2\n", b"---\n", b"x\r", "é\n".as_bytes(), b"\n", b"%\n"]));
    }
    for _ in 0..rng.below(3) { if rng.chance(1, 3) { v.extend_from_slice("\u{feff}".as_bytes()); } }
    v.extend_from_slice(*rng.pick(&[&b"%"[..], b"%YAML", b"%YAML 1.2", b"%TAG ! tag:x,2000:", b"%x y", "%é€".as_bytes(), b"%%", b"% "]));
    match rng.below(6) { 0 => v.push(0xFF), 1 => v.extend_from_slice(&[0xE2, 0x82]), 2 => v.extend_from_slice(&[0xC3]), _ => {} }
    v
}

/// the unterminated last line of the decoded prefix starts with `%` (byte-order marks in front ignored)
fn last_line_is_directive(chars: &[char]) -> bool {
    let start = chars.iter().rposition(|c| *c == '\n' || *c == '\r').map(|i| i + 1).unwrap_or(0);
    chars[start..].iter().find(|c| **c != '\u{feff}') == Some(&'%')
}

fn generate(a: &Args) -> i32 {
    start_watchdog(20);
    let mut rng = Rng::new(a.seed);
    let mut sink = Sink::new(&a.out, "reader");
    let mut nontrivial: u64 = 0;

    // ---- (i) ChunkedChars: every byte string up to length 4 over the alphabet x partitions
    let maxlen = 4;
    let mut strings: Vec<Vec<u8>> = vec![vec![]];
    let mut cur: Vec<Vec<u8>> = vec![vec![]];
    for _ in 0..maxlen {
        let mut next = Vec::new();
        for c in &cur { for b in ALPHA { let mut s = c.clone(); s.push(b); next.push(s); } }
        strings.extend(next.iter().cloned());
        cur = next;
    }
    for s in &strings {
        let parts = partitions(s.len());
        // quick: all partitions up to length 3, one random partition for length 4; thorough: all
        let chosen: Vec<Vec<usize>> = if a.thorough || s.len() <= 3 { parts } else { vec![parts[rng.below(parts.len())].clone()] };
        for p in chosen {
            beat("cc exhaustive");
            let steps = cc_case(&mut sink, None, 2, &data_items(s, &p));
            if steps.iter().any(|x| x.ch.map(|c| c.len_utf8() > 1).unwrap_or(false)) { nontrivial += 1; sink.count("cc.multibyte_char_produced"); }
            if steps.iter().any(|x| x.err.is_some()) { sink.count("cc.error_recorded"); } else { sink.count("cc.clean"); }
        }
    }
    // random longer strings with adversarial splits, fault items, empty reads and caps
    let nrand = if a.thorough { 30000 } else { 3000 };
    for i in 0..nrand {
        beat("cc random");
        let n = 1 + rng.below(24);
        let bytes = rand_bytes(&mut rng, n);
        let mp = 1 + rng.below(4);
        let part = rand_partition(&mut rng, bytes.len(), mp);
        let mut items = data_items(&bytes, &part);
        match i % 4 {
            0 => {}
            1 => { let p = rng.below(items.len() + 1); items.insert(p, RItem::Fail(*rng.pick(&[0u8, 1, 2, 3, 5, 7]))); sink.count("cc.with_fail_item"); }
            2 => { let p = rng.below(items.len() + 1); items.insert(p, RItem::Data(vec![])); sink.count("cc.with_empty_read"); }
            _ => { let p = rng.below(items.len() + 1); items.insert(p, RItem::Fail(2)); let q = rng.below(items.len() + 1); items.insert(q, RItem::Fail(*rng.pick(&[0u8, 1, 7]))); sink.count("cc.with_two_fails"); }
        }
        let cap = match rng.below(3) { 0 => None, 1 => Some(rng.below(bytes.len() + 3)), _ => Some(bytes.len()) };
        if cap.is_some() { sink.count("cc.with_cap"); }
        let steps = cc_case(&mut sink, cap, 3, &items);
        if steps.iter().filter(|x| x.ch.is_some()).count() >= 2 { nontrivial += 1; }
    }

    // schedules that stop inside a `%` line: by end of input, by a failing read, by the byte cap, inside a
    // code point (fix bfd6267: exactly one synthetic line break, then None for ever)
    let npct = if a.thorough { 20000 } else { 2500 };
    for i in 0..npct {
        beat("cc pct");
        let bytes = pct_tail_bytes(&mut rng);
        let mp = 1 + rng.below(4);
        let part = rand_partition(&mut rng, bytes.len(), mp);
        let mut items = data_items(&bytes, &part);
        let mut cap = None;
        match i % 5 {
            0 => sink.count("cc.pct.eof"),
            1 => { items.push(RItem::Fail(*rng.pick(&[0u8, 1, 5, 7]))); if rng.chance(1, 2) { items.push(RItem::Data(b"more\n%z".to_vec())); } sink.count("cc.pct.fail_after"); }
            2 => { let p = rng.below(items.len() + 1); items.insert(p, RItem::Fail(*rng.pick(&[0u8, 1, 2, 7]))); sink.count("cc.pct.fail_inside"); }
            3 => { cap = Some(rng.below(bytes.len() + 2)); sink.count("cc.pct.cap"); }
            _ => { let p = rng.below(items.len() + 1); items.insert(p, RItem::Data(vec![])); sink.count("cc.pct.empty_read"); }
        }
        let steps = cc_case(&mut sink, cap, 4, &items);
        // distribution: does the run contain a line break that was not in the input (the synthetic one)?
        let produced: String = steps.iter().filter_map(|x| x.ch).collect();
        let breaks_in = bytes.iter().filter(|b| **b == b'\n').count() + items.iter().map(|i| match i { RItem::Data(d) if d == b"more\n%z" => 1, _ => 0 }).sum::<usize>();
        if produced.matches('\n').count() > breaks_in { sink.count("cc.pct.synthetic_break_emitted"); nontrivial += 1; }
    }

    // ---- (i) RingReader: interleavings of read / get_recent
    let nring = if a.thorough { 4000 } else { 400 };
    for i in 0..nring {
        beat("ring");
        let long = i % 8 == 0;
        let n = if long { 3000 + rng.below(6000) } else { rng.below(80) };
        let mut bytes = rand_bytes(&mut rng, n);
        if long { for j in (0..bytes.len()).step_by(37 + rng.below(60)) { bytes[j] = b'\n'; } }
        let mp = if long { 1 + rng.below(5000) } else { 1 + rng.below(9) };
        let part = rand_partition(&mut rng, bytes.len(), mp);
        let mut items = data_items(&bytes, &part);
        if i % 5 == 1 && !items.is_empty() { let p = rng.below(items.len() + 1); items.insert(p, RItem::Fail(*rng.pick(&[0u8, 2, 7]))); sink.count("ring.with_fail_item"); }
        let nops = 1 + rng.below(if long { 40 } else { 14 });
        let ops: Vec<h::RingOp> = (0..nops).map(|_| {
            if rng.chance(1, 3) { h::RingOp::Recent } else {
                h::RingOp::Read(if long { *rng.pick(&[1usize, 7, 100, 1000, 1024, 1025, 3072, 4000, 8192, 9000]) } else { rng.below(12) })
            }
        }).collect();
        if long { sink.count("ring.long_input"); nontrivial += 1; }
        ring_case(&mut sink, &items, &ops);
    }

    // ---- (ii) oracle: entry points agree on documents x chunk schedules x targets
    let oracle_file = std::fs::File::create(format!("{}/reader.oracle.jsonl", a.out)).unwrap();
    let mut o = Oracle { out: std::io::BufWriter::new(oracle_file), fails: 0, per_id: BTreeMap::new() };
    let docs = corpus_docs(&mut rng, a.thorough);
    // the class "a line starts with `%`" goes through a killable child first (regression guard for fix bfd6267)
    let probe: Vec<Vec<u8>> = docs.iter().filter(|d| hang_risk(d)).cloned()
        .chain(["%", "%Y", "a\n%", "%%", "% ", "\n%a", "[%", "%\u{e9}"].iter().map(|s| s.as_bytes().to_vec())).collect();
    sink.count("oracle.pct_probe_docs");
    let pct_safe = match pct_probe(&probe) {
        None => true,
        Some(d) => {
            o.fail("C09-reader-hangs-in-directive-line", "from_reader does not return (killed after 8 s in a child process)", &d, "no result", &res_tok(&serde_saphyr::from_str::<serde_json::Value>(&String::from_utf8_lossy(&d))));
            false
        }
    };
    let mut short_budget = if a.thorough { 200 } else { 30 };
    for d in &docs {
        let exhaustive = d.len() <= 10 && short_budget > 0;
        if exhaustive { short_budget -= 1; sink.count("oracle.docs_all_partitions"); }
        sink.count("oracle.docs");
        if d.len() > 2 { nontrivial += 1; }
        if !pct_safe && hang_risk(d) { sink.count("oracle.skipped_percent_line"); continue; }
        check_all_targets(&mut o, &mut sink, &mut rng, d, exhaustive);
    }
    // every short document over the indicator alphabet: str vs reader (whole and 1-byte chunks), untyped target
    let ind: Vec<char> = "!&*a:- \n[]{}'\"|>#,?~.%".chars().collect();
    let maxl = if a.thorough { 4 } else { 3 };
    let mut cur: Vec<String> = vec![String::new()];
    for _ in 0..maxl {
        let mut next = Vec::new();
        for c in &cur { for ch in &ind { let mut t = c.clone(); t.push(*ch); next.push(t); } }
        for t in &next {
            let bytes = t.as_bytes();
            if hang_risk(bytes) { if !pct_safe { continue; } sink.count("oracle.short_docs_with_percent_line"); }
            sink.count("oracle.short_indicator_docs");
            let sres = res_tok(&serde_saphyr::from_str::<serde_json::Value>(t));
            for (sname, rest) in [("whole", usize::MAX), ("1", 1usize)] {
                beat(&format!("short/{sname}: {}", hex_bytes(bytes)));
                let r = res_tok(&serde_saphyr::from_reader::<_, serde_json::Value>(SchedReader::new(bytes, &[], rest, bytes.len(), Tail::Eof)));
                if r != sres {
                    let id = reader_diff_id(bytes, false, sres.starts_with("err") && r.starts_with("err"));
                    o.fail(id, &format!("from_reader (chunking {sname}) vs from_str, target Value"), bytes, &r, &sres);
                }
            }
        }
        cur = next;
    }
    o.out.flush().unwrap();
    for (k, v) in &o.per_id { for _ in 0..*v { sink.count(&format!("oracle.FAIL.{k}")); } }
    sink.finish(&a.out, "reader", serde_json::json!({
        "distinct_nontrivial": nontrivial,
        "oracle_failures": o.fails,
        "rule": "(i) ChunkedChars hook over a schedule reader: ALL byte strings of length <= 4 over {61,C3,A9,E2,82,AC,F0,9F,98,80,EF,BB,BF,0A,FF,25} x all partitions into read results (quick: all partitions up to length 3, one random partition per length-4 string), random strings up to ~28 bytes of multi-byte text with malformed pieces x random partitions x inserted failing reads (kinds Other/UnexpectedEof/Interrupted/InvalidData/BrokenPipe/ConnectionReset), empty reads and byte caps; 2500 (thorough 20000) schedules that stop inside a line starting with `%` (end of input / failing read after or inside the line / byte cap / empty read, with BOMs, earlier lines, multi-byte and truncated tails; counted as cc.pct.*); compared per `next` call: character, recorded error kind, and bytes pulled. RingReader hook: random read/get_recent interleavings over short and 3-9 KB inputs (ring eviction, read-ahead cap), compared: bytes returned, snapshot offsets/line/bytes, offset and read-ahead after every op. (ii) oracle: hand corpus + generated documents (valid/invalid, ASCII/multi-byte, 0/1/2 BOMs, damaged, invalid UTF-8) x chunk schedules (whole, 1, 2, 3, 7 bytes, random, cuts inside every code point and after every break/`-`/`:`, all 2^(n-1) partitions for n <= 10) x 12 owned target types: from_str = from_slice = closure helpers = from_reader = closure reader helper (value or error kind+line+column); borrowed &str iff parser-borrowed; reader never lends. Inputs with lines starting with `%` (directives, also unterminated at the end of input) are included since fix bfd6267; a watchdog kills the run if a case does not return. Non-trivial = op cases producing a multi-byte character or >= 2 characters, long ring inputs, oracle documents longer than 2 bytes.",
    }));
    0
}
