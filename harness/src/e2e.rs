//! End-to-end differential: real entry points (closure helper = from_str protocol, from_multiple via a
//! seed-carrying wrapper, read iterator) on generated (document, type, options) triples vs the Lean
//! model `pump ∘ typed deserializer ∘ entry protocol` fed with the real parser's items.
use crate::proto::*;
use crate::tyseed::*;
use crate::yamlgen::*;
use crate::Args;
use serde::de::DeserializeSeed;
use serde_saphyr::budget::Budget;
use serde_saphyr::options::{AliasLimits, DuplicateKeyPolicy};
use serde_saphyr::{Error, Options};

pub fn run(mode: &str, a: &Args) -> i32 {
    match mode {
        "gen" => generate(a, "e2e", 0),
        "gen_merge" => generate(a, "e2e_merge", 1),
        "gen_dup" => generate(a, "e2e_dup", 2),
        "gen_typed" => generate(a, "e2e_typed", 3),
        "gen_scalar" => generate_scalars(a),
        _ => 2,
    }
}

pub fn err_tok(e: &Error) -> String {
    let e = crate::errs::unwrap_snippet(e);
    match e {
        Error::SerdeInvalidType { .. } => "err invalid_type 0 0".into(),
        Error::SerdeInvalidValue { .. } => "err invalid_value 0 0".into(),
        Error::SerdeUnknownVariant { .. } => "err unknown_variant 0 0".into(),
        Error::SerdeUnknownField { .. } => "err unknown_field 0 0".into(),
        Error::SerdeMissingField { .. } => "err missing_field 0 0".into(),
        Error::Message { msg, location } => {
            let k = if msg.starts_with("invalid length") { "invalid_length" } else if msg.starts_with("duplicate field") { "duplicate_field" } else { "Message" };
            format!("err {} {} 0", k, loc_code(location))
        }
        Error::AliasError { locations, .. } => format!("err AliasError {} {}", loc_code(&locations.reference_location), loc_code(&locations.defined_location)),
        other => format!("err {} {} 0", crate::errs::kind(other), crate::errs::loc(other)),
    }
}

#[derive(Clone)]
pub struct Cfg {
    pub dup: u8,
    pub legacy_octal: bool,
    pub strict_bool: bool,
    pub ignore_binary: bool,
    pub no_schema: bool,
    pub budget: Option<Budget>,
    pub limits: AliasLimits,
}

impl Cfg {
    pub fn options(&self) -> Options {
        let mut o = Options::default();
        o.duplicate_keys = match self.dup { 0 => DuplicateKeyPolicy::Error, 1 => DuplicateKeyPolicy::FirstWins, _ => DuplicateKeyPolicy::LastWins };
        o.legacy_octal_numbers = self.legacy_octal;
        o.strict_booleans = self.strict_bool;
        o.ignore_binary_tag_for_string = self.ignore_binary;
        o.no_schema = self.no_schema;
        o.budget = self.budget.clone();
        o.alias_limits = self.limits;
        o.with_snippet = false;
        o
    }
    pub fn tokens(&self, perdoc: bool) -> String {
        let bt = match &self.budget { None => "-".to_string(), Some(bd) => format!("{} {}", b(perdoc), crate::c07::limits_tok(bd)) };
        format!("{} {} {} 0 {} {} {} {}", ["error", "first", "last"][self.dup as usize], b(self.legacy_octal), b(self.strict_bool),
                b(self.ignore_binary), b(self.no_schema), bt, crate::pump::alias_tok(&self.limits))
    }
    pub fn random(rng: &mut Rng) -> Cfg {
        Cfg {
            dup: rng.below(3) as u8,
            legacy_octal: rng.chance(1, 4),
            strict_bool: rng.chance(1, 4),
            ignore_binary: rng.chance(1, 4),
            no_schema: rng.chance(1, 5),
            budget: if rng.chance(1, 3) { None } else { Some(Budget::default()) },
            limits: AliasLimits::default(),
        }
    }
}

/// one plain run (no second passes): what the heap / work measurements of `bombs` time
pub fn run_single_plain(text: &str, ty: &Ty, cfg: &Cfg) -> String {
    let r = catch(|| serde_saphyr::with_deserializer_from_str_with_options(text, cfg.options(), |de| Seed(ty).deserialize(de)));
    match r {
        Err(msg) => format!("panic {}", hex(&msg)),
        Ok(Ok(v)) => format!("ok {}", v.tokens()),
        Ok(Err(e)) => err_tok(&e),
    }
}

pub fn run_single(text: &str, ty: &Ty, cfg: &Cfg) -> String {
    let once = || run_single_plain(text, ty, cfg);
    let ans = once();
    // a derived tuple struct (`deserialize_tuple_struct`) is the same fixed-size position as a tuple: same answer demanded
    if ty.tokens().contains("tup ") {
        crate::tyseed::TUPLE_AS_STRUCT.with(|f| f.set(true));
        let ans2 = once();
        crate::tyseed::TUPLE_AS_STRUCT.with(|f| f.set(false));
        if ans2 != ans { return format!("TUPLE-STRUCT-DIFFERS-FROM-TUPLE as tuple: {ans} ; as tuple struct: {ans2}"); }
    }
    // presentation wrappers deserialize transparently: the same document read with every type position wrapped
    // (LitString / FoldString, FlowSeq, FlowMap, Commented, SpaceAfter) gives the same answer as the bare types
    {
        let mode = 1 + ((text.len() + ty.tokens().len()) % 4) as u8;
        crate::tyseed::WRAP_MODE.with(|w| w.set(mode));
        let wrapped = once();
        crate::tyseed::WRAP_MODE.with(|w| w.set(0));
        if wrapped != ans { return format!("WRAPPED-TYPE-DIFFERS-FROM-BARE bare: {ans} ; wrapped (mode {mode}): {wrapped}"); }
    }
    // the validating entry points run the same pipeline with the path recorder attached: with a type whose validation
    // never objects they must answer exactly as the plain entry point does (value or error, kind and location)
    CUR_TY.with(|t| *t.borrow_mut() = Some(ty.clone()));
    let valid = match catch(|| serde_saphyr::from_str_with_options_valid::<Dyn>(text, cfg.options())) {
        Err(msg) => format!("panic {}", hex(&msg)),
        Ok(Ok(v)) => format!("ok {}", v.0.tokens()),
        Ok(Err(e)) => err_tok(&e),
    };
    if valid != ans { return format!("VALIDATING-ENTRY-DIFFERS plain: {ans} ; from_str_with_options_valid: {valid}"); }
    // and the whole-input entry point itself (`from_str_with_options` has its own copy of the single-document check; the runs
    // above go through the closure helper)
    let direct = match catch(|| serde_saphyr::from_str_with_options::<Dyn>(text, cfg.options())) {
        Err(msg) => format!("panic {}", hex(&msg)),
        Ok(Ok(v)) => format!("ok {}", v.0.tokens()),
        Ok(Err(e)) => err_tok(&e),
    };
    if direct != ans { return format!("FROM-STR-DIFFERS-FROM-CLOSURE-HELPER helper: {ans} ; from_str_with_options: {direct}"); }
    ans
}

/// validation that never objects (the recorder is attached all the same)
impl garde::Validate for Dyn {
    type Context = ();
    fn validate_into(&self, _ctx: &(), _parent: &mut dyn FnMut() -> garde::Path, _report: &mut garde::Report) {}
}

thread_local! {
    static CUR_TY: std::cell::RefCell<Option<Ty>> = const { std::cell::RefCell::new(None) };
}
/// `DeserializeOwned` wrapper that deserializes according to the thread-local current `Ty`
/// (from_multiple / read need a type, not a seed).
pub struct Dyn(pub Val);
impl<'de> serde::Deserialize<'de> for Dyn {
    fn deserialize<D: serde::Deserializer<'de>>(d: D) -> Result<Self, D::Error> {
        let ty = CUR_TY.with(|t| t.borrow().clone()).expect("CUR_TY");
        Ok(Dyn(Seed(&ty).deserialize(d)?))
    }
}

pub fn run_multi(text: &str, ty: &Ty, cfg: &Cfg) -> String {
    CUR_TY.with(|t| *t.borrow_mut() = Some(ty.clone()));
    let r = catch(|| serde_saphyr::from_multiple_with_options::<Dyn>(text, cfg.options()));
    match r {
        Err(msg) => format!("panic {}", hex(&msg)),
        Ok(Ok(vs)) => format!("ok {}{}", vs.len(), vs.iter().map(|v| format!(" ; {}", v.0.tokens())).collect::<String>()),
        Ok(Err(e)) => err_tok(&e),
    }
}

pub fn run_iter(text: &str, ty: &Ty, cfg: &Cfg) -> String {
    CUR_TY.with(|t| *t.borrow_mut() = Some(ty.clone()));
    let r = catch(|| {
        let mut rd = std::io::Cursor::new(text.as_bytes().to_vec());
        let mut o = cfg.options();
        if let Some(bd) = o.budget.as_mut() { bd.max_reader_input_bytes = None; }
        let it = serde_saphyr::read_with_options::<_, Dyn>(&mut rd, o);
        let mut out: Vec<String> = Vec::new();
        for item in it.take(10_000) {
            out.push(match item { Ok(v) => format!("ok {}", v.0.tokens()), Err(e) => err_tok(&e) });
        }
        out
    });
    match r {
        Err(msg) => format!("panic {}", hex(&msg)),
        Ok(items) => format!("items {}{}", items.len(), items.iter().map(|s| format!(" ; {s}")).collect::<String>()),
    }
}

// ---------------------------------------------------------------- type and document generators

const FIELD_NAMES: [&str; 6] = ["a", "b", "c", "k", "x", "m"];
const VARIANTS: [&str; 5] = ["A", "B", "Cee", "custom", "k"];
/// field / variant names that read as a bool / number / null when written plain
const LOOKALIKE_NAMES: [&str; 5] = ["true", "1", "~", "null", "1.5"];

thread_local! {
    /// distribution of the identifier-key forms written by the generators (drained into the sink by `generate`)
    static IDENT_STATS: std::cell::RefCell<std::collections::BTreeMap<String, u64>> = const { std::cell::RefCell::new(std::collections::BTreeMap::new()) };
}
fn ident_count(k: &str) {
    IDENT_STATS.with(|s| *s.borrow_mut().entry(k.to_string()).or_insert(0) += 1);
}

fn b64(bytes: &[u8]) -> String {
    const T: &[u8; 64] = b"ABCDEFGHIJKLMNOPQRSTUVWXYZabcdefghijklmnopqrstuvwxyz0123456789+/";
    let mut out = String::new();
    for ch in bytes.chunks(3) {
        let n = (ch[0] as u32) << 16 | (*ch.get(1).unwrap_or(&0) as u32) << 8 | *ch.get(2).unwrap_or(&0) as u32;
        out.push(T[(n >> 18) as usize & 63] as char);
        out.push(T[(n >> 12) as usize & 63] as char);
        out.push(if ch.len() > 1 { T[(n >> 6) as usize & 63] as char } else { '=' });
        out.push(if ch.len() > 2 { T[n as usize & 63] as char } else { '=' });
    }
    out
}

/// The key node written for a struct field / `{Variant: payload}` name (`deserialize_identifier` =
/// `deserialize_str` for fields): mostly the plain name; regularly (always when `force`) `!!str name`,
/// `!!binary <base64 of name>`, `!!binary name`, a tag that cannot be read as a string (`!!int name`, ...),
/// or the quoted name. Look-alike names (`true`, `1`, `~`, ...) written plain are the `no_schema` /
/// null cases.
fn ident_key(rng: &mut Rng, name: &str, force: bool) -> GNode {
    let mk = |text: &str, style: u8, tag: Option<&str>| GNode::Scalar { text: text.to_string(), style, anchor: None, tag: tag.map(|t| t.to_string()) };
    let r = if force { rng.below(6) } else { rng.below(24) };
    let (kind, node) = match r {
        0 => ("str_tag", mk(name, *rng.pick(&[0u8, 0, 1, 2]), Some("!!str"))),
        1 => ("binary_b64", mk(&b64(name.as_bytes()), *rng.pick(&[0u8, 0, 2]), Some("!!binary"))),
        2 => ("binary_raw", mk(name, 0, Some("!!binary"))),
        3 => ("nonstring_tag", mk(name, *rng.pick(&[0u8, 0, 1]), Some(*rng.pick(&["!!int", "!!null", "!!bool", "!!float", "!!timestamp"])))),
        4 => ("other_tag", mk(name, 0, Some(*rng.pick(&["!", "!custom", "!A"])))),
        5 => ("quoted", mk(name, *rng.pick(&[1u8, 2]), None)),
        _ => ("plain", sc(name)),
    };
    ident_count(&format!("ident.{kind}{}", if LOOKALIKE_NAMES.contains(&name) { ".lookalike" } else { "" }));
    node
}

/// an entry whose key is not a field name, in a form that matters to the identifier reader
fn unknown_ident_key(rng: &mut Rng) -> GNode {
    let mk = |text: &str, style: u8, tag: Option<&str>| GNode::Scalar { text: text.to_string(), style, anchor: None, tag: tag.map(|t| t.to_string()) };
    ident_count("ident.unknown_exotic");
    match rng.below(9) {
        0 => mk("1", 0, Some("!!int")),
        1 => sc("true"),
        2 => sc("1"),
        3 => sc("~"),
        4 => mk("YQ==", 0, Some("!!binary")),
        5 => mk("zz", 0, Some("!!str")),
        6 => mk("x", 0, Some("!!null")),
        7 => mk("/w==", 0, Some("!!binary")),
        _ => mk("null", *rng.pick(&[0u8, 1, 2]), None),
    }
}

pub fn gen_ty(rng: &mut Rng, depth: usize) -> Ty {
    let leaf = depth >= 3 || rng.chance(2, 5);
    if leaf {
        return match rng.below(12) {
            0 => Ty::Bool,
            1 => Ty::Int(true, *rng.pick(&[8, 16, 32, 64, 128])),
            2 => Ty::Int(false, *rng.pick(&[8, 16, 32, 64, 128])),
            3 => Ty::Float(*rng.pick(&[32, 64])),
            4 => Ty::Char,
            5 | 6 => Ty::Str,
            7 => Ty::Unit,
            8 => Ty::Bytes,
            _ => Ty::Any,
        };
    }
    match rng.below(9) {
        0 => Ty::Option(Box::new(gen_ty(rng, depth + 1))),
        1 | 2 => Ty::Seq(Box::new(gen_ty(rng, depth + 1))),
        3 => { let n = 1 + rng.below(3); Ty::Tuple((0..n).map(|_| gen_ty(rng, depth + 1)).collect()) }
        4 => Ty::Map(Box::new(if rng.chance(3, 4) { Ty::Str } else { gen_ty(rng, depth + 2) }), Box::new(gen_ty(rng, depth + 1))),
        5 | 6 => {
            let n = 1 + rng.below(4);
            let mut names: Vec<&'static str> = FIELD_NAMES.to_vec();
            let mut fs: Vec<(&'static str, Ty)> = (0..n).map(|_| { let i = rng.below(names.len()); (names.remove(i), gen_ty(rng, depth + 1)) }).collect();
            if rng.chance(1, 6) { let i = rng.below(fs.len()); fs[i].0 = *rng.pick(&LOOKALIKE_NAMES); }
            Ty::Struct(fs, rng.chance(1, 4))
        }
        7 => {
            let n = 1 + rng.below(4);
            let mut names: Vec<&'static str> = VARIANTS.to_vec();
            let mut vs: Vec<(&'static str, VTy)> = (0..n).map(|_| {
                let i = rng.below(names.len());
                let vt = match rng.below(4) {
                    0 => VTy::Unit,
                    1 => VTy::Newtype(gen_ty(rng, depth + 1)),
                    2 => { let k = 1 + rng.below(2); VTy::Tuple((0..k).map(|_| gen_ty(rng, depth + 2)).collect()) }
                    _ => { let k = 1 + rng.below(2); VTy::Struct((0..k).map(|j| (FIELD_NAMES[j], gen_ty(rng, depth + 2))).collect()) }
                };
                (names.remove(i), vt)
            }).collect();
            if rng.chance(1, 8) { let i = rng.below(vs.len()); vs[i].0 = *rng.pick(&LOOKALIKE_NAMES); }
            Ty::Enum(*rng.pick(&["E", "custom", "A"]), vs)
        }
        _ => Ty::Newtype(Box::new(gen_ty(rng, depth + 1))),
    }
}

fn sc(text: &str) -> GNode { plain(text) }

/// a document node that (mostly) matches `ty`
pub fn gen_value(rng: &mut Rng, ty: &Ty, depth: usize) -> GNode {
    let styled = |rng: &mut Rng, text: &str| GNode::Scalar { text: text.to_string(), style: *rng.pick(&[0u8, 0, 0, 1, 2]), anchor: None, tag: None };
    match ty {
        Ty::Bool => sc(*rng.pick(&["true", "false", "yes", "No", "on", "OFF", "y", "n", "TRUE"])),
        Ty::Int(s, w) => {
            let max: i128 = if *w >= 127 { i64::MAX as i128 } else if *s { (1i128 << (*w - 1)) - 1 } else { (1i128 << *w) - 1 };
            let v = match rng.below(6) { 0 => 0, 1 => max, 2 => max + 1, 3 if *s => -max - 1, 4 if *s => -(rng.below(100) as i128), _ => rng.below(200) as i128 };
            match rng.below(5) { 0 => sc(&format!("0x{:x}", v.unsigned_abs())), 1 => sc(&format!("{}_0", v)), 2 => sc(&format!("0o{:o}", v.unsigned_abs())), _ => sc(&v.to_string()) }
        }
        Ty::Float(_) => sc(*rng.pick(&["1.5", "-0.0", ".inf", "-.INF", ".NaN", "1e3", "3", "0.1", "1.00000005960464477540", "1e-320", "2.5e+10", ".5", "7."])),
        Ty::Char => { let t = *rng.pick(&["a", "é", "日", "1", "~", "ab", "-"]); styled(rng, t) }
        Ty::Str => { let t = *rng.pick(&["hello", "a b", "", "~", "null", "true", "12", "1.5", "é日", "x: y", "#no", "<<", "0x1F", "-"]); styled(rng, t) }
        Ty::Unit => sc(*rng.pick(&["~", "null", "", "Null"])),
        Ty::Bytes => if rng.chance(1, 2) {
            GNode::Scalar { text: rng.pick(&["AQID", "aGVsbG8=", "", "/w==", "AQ==", "A Q I D"]).to_string(), style: 0, anchor: None, tag: Some("!!binary".into()) }
        } else {
            GNode::Seq { anchor: None, tag: None, items: (0..rng.below(4)).map(|_| sc(&rng.below(300).to_string())).collect(), flow: true }
        },
        Ty::Option(t) => if rng.chance(1, 3) { sc(*rng.pick(&["~", "null", ""])) } else { gen_value(rng, t, depth + 1) },
        Ty::Seq(t) => GNode::Seq { anchor: None, tag: None, items: (0..rng.below(4)).map(|_| gen_value(rng, t, depth + 1)).collect(), flow: rng.chance(1, 2) },
        Ty::Tuple(ts) => GNode::Seq { anchor: None, tag: None, items: ts.iter().map(|t| gen_value(rng, t, depth + 1)).collect(), flow: rng.chance(1, 2) },
        Ty::Map(k, v) => {
            let n = rng.below(4);
            let mut entries = Vec::new();
            for i in 0..n {
                let key = match **k { Ty::Str => sc(&format!("{}{}", rng.pick(&["k", "a", "b", "key"]), i)), _ => gen_value(rng, k, depth + 2) };
                entries.push((key, gen_value(rng, v, depth + 1)));
            }
            GNode::Map { anchor: None, tag: None, entries, flow: rng.chance(1, 2) }
        }
        Ty::Struct(fs, _) => {
            let mut entries: Vec<(GNode, GNode)> = fs.iter().map(|(n, t)| (ident_key(rng, n, false), gen_value(rng, t, depth + 1))).collect();
            if rng.chance(1, 3) && entries.len() > 1 { let i = rng.below(entries.len()); let e = entries.remove(i); entries.push(e); }
            GNode::Map { anchor: None, tag: None, entries, flow: rng.chance(1, 2) }
        }
        Ty::Enum(_, vs) => {
            let (name, vt) = rng.pick(vs).clone();
            let payload = match &vt {
                VTy::Unit => None,
                VTy::Newtype(t) => Some(gen_value(rng, t, depth + 1)),
                VTy::Tuple(ts) => Some(GNode::Seq { anchor: None, tag: None, items: ts.iter().map(|t| gen_value(rng, t, depth + 1)).collect(), flow: true }),
                VTy::Struct(fs) => Some(GNode::Map { anchor: None, tag: None, entries: fs.iter().map(|(n, t)| (ident_key(rng, n, false), gen_value(rng, t, depth + 1))).collect(), flow: true }),
            };
            match payload {
                None => if rng.chance(1, 3) { GNode::Map { anchor: None, tag: None, entries: vec![(ident_key(rng, name, false), sc("~"))], flow: true } } else { sc(name) },
                Some(p) => {
                    // `{Variant: payload}` or `!Variant payload`
                    if rng.chance(1, 3) {
                        match p {
                            GNode::Scalar { text, style, anchor, .. } => GNode::Scalar { text, style, anchor, tag: Some(format!("!{name}")) },
                            GNode::Seq { anchor, items, flow, .. } => GNode::Seq { anchor, tag: Some(format!("!{name}")), items, flow },
                            other => GNode::Map { anchor: None, tag: None, entries: vec![(sc(name), other)], flow: true },
                        }
                    } else {
                        GNode::Map { anchor: None, tag: None, entries: vec![(ident_key(rng, name, false), p)], flow: rng.chance(1, 2) }
                    }
                }
            }
        }
        Ty::Newtype(t) => gen_value(rng, t, depth),
        Ty::Any => { let mut g = Gen::new(rng, GenCfg { max_depth: 2, max_width: 3, ..Default::default() }); g.node(0) }
    }
}

/// perturb a matching document: surplus / missing elements, wrong kinds, unknown fields, nulls, anchors+aliases, merges, dups
fn mutate(rng: &mut Rng, n: &mut GNode, depth: usize) {
    let choice = rng.below(12);
    match n {
        GNode::Seq { items, anchor, .. } => {
            match choice {
                0 => items.push(sc("extra")),
                1 if !items.is_empty() => { items.pop(); }
                2 => { *n = sc("scalar-instead"); return; }
                3 => { *anchor = Some("s".into()); }
                // shift an element across a nested boundary: the inner surplus equals the outer shortage (or the reverse)
                5 | 6 if items.len() >= 2 => {
                    if let Some(i) = (0..items.len() - 1).find(|&i| matches!(items[i], GNode::Seq { .. })) {
                        if choice == 5 {
                            let moved = items.remove(i + 1);
                            if let GNode::Seq { items: inner, .. } = &mut items[i] { inner.push(moved); }
                        } else if let GNode::Seq { items: inner, .. } = &mut items[i] {
                            if let Some(moved) = inner.pop() { items.insert(i + 1, moved); }
                        }
                    }
                }
                7 if !items.is_empty() => {
                    // the last element swallows nothing / a trailing nested sequence loses its last element to the parent
                    let last = items.len() - 1;
                    if let GNode::Seq { items: inner, .. } = &mut items[last] { if let Some(moved) = inner.pop() { items.push(moved); } }
                }
                4 if items.len() >= 2 => { items[0] = match &items[0] { GNode::Scalar { text, style, tag, .. } => GNode::Scalar { text: text.clone(), style: *style, anchor: Some("e".into()), tag: tag.clone() }, o => o.clone() }; let last = items.len() - 1; items[last] = GNode::Alias("e".into()); }
                _ => {}
            }
            if let GNode::Seq { items, .. } = n { if !items.is_empty() && depth < 3 { let i = rng.below(items.len()); mutate(rng, &mut items[i], depth + 1); } }
        }
        GNode::Map { entries, .. } => {
            match choice {
                0 => entries.push((sc("zz_unknown"), sc("1"))),
                1 if !entries.is_empty() => { entries.pop(); }
                2 if !entries.is_empty() => { let e = entries[0].clone(); entries.push(e); }
                3 => { *n = GNode::Seq { anchor: None, tag: None, items: vec![sc("1")], flow: true }; return; }
                4 if !entries.is_empty() => {
                    // move the first entry into a merge source
                    let e = entries.remove(0);
                    entries.insert(rng.below(entries.len() + 1), (sc("<<"), GNode::Map { anchor: None, tag: None, entries: vec![e], flow: true }));
                }
                5 => { *n = sc("~"); return; }
                // the key of an entry in another notation (tag, `!!binary`, quotes): same or different identifier
                6 if !entries.is_empty() => {
                    let i = rng.below(entries.len());
                    if let GNode::Scalar { text, .. } = &entries[i].0 { let t = text.clone(); ident_count("ident.mutated_key"); entries[i].0 = ident_key(rng, &t, true); }
                }
                7 => { let at = rng.below(entries.len() + 1); entries.insert(at, (unknown_ident_key(rng), sc("1"))); }
                _ => {}
            }
            if let GNode::Map { entries, .. } = n { if !entries.is_empty() && depth < 3 { let i = rng.below(entries.len()); mutate(rng, &mut entries[i].1, depth + 1); } }
        }
        GNode::Scalar { text, tag, style, .. } => match choice {
            0 => *text = "not-what-you-want".into(),
            1 => *n = GNode::Seq { anchor: None, tag: None, items: vec![], flow: true },
            2 => *n = GNode::Map { anchor: None, tag: None, entries: vec![], flow: true },
            3 => *tag = Some(rng.pick(&["!!str", "!!null", "!!int", "!", "!Unknown", "!A", "!!binary", "!Null", "!Binary", "!Int", "!Str", "!NULL", "!!Null", "!!merge", "!merge"]).to_string()),
            4 => *style = 2,
            5 => *text = "~".into(),
            _ => {}
        },
        GNode::Alias(_) => {}
    }
}

/// a merge SOURCE mapping: small, colliding keys, may itself contain merge entries (plain `<<`), and quoted / tagged
/// `<<` keys that must stay ordinary keys also when the mapping is reached as a merge source
fn merge_source_map(rng: &mut Rng, anchor: Option<String>, depth: u32, nd: usize, nl: usize) -> GNode {
    let keys = ["a", "b", "c", "d"];
    let n = 1 + rng.below(3);
    let mut entries: Vec<(GNode, GNode)> = (0..n).map(|_| (sc(*rng.pick(&keys)), sc(&rng.below(9).to_string()))).collect();
    if depth > 0 && rng.chance(1, 4) {
        let at = rng.below(entries.len() + 1);
        entries.insert(at, (sc("<<"), merge_value(rng, depth - 1, nd, nl)));
    }
    if rng.chance(1, 6) {
        let at = rng.below(entries.len() + 1);
        let k = GNode::Scalar { text: "<<".into(), style: *rng.pick(&[1u8, 2]), anchor: None, tag: if rng.chance(1, 3) { Some("!!str".into()) } else { None } };
        let v = if rng.chance(1, 2) { sc("q") } else { GNode::Map { anchor: None, tag: None, flow: true, entries: vec![(sc(*rng.pick(&keys)), sc("7"))] } };
        entries.insert(at, (k, v));
    }
    GNode::Map { anchor, tag: None, flow: true, entries }
}

/// a TAGGED scalar where a merge value / an element of a merge sequence stands: null by its tag (`!!null x`), a string
/// by its tag although the text looks null (`!!str null`, `! ~`), another type (`!!int 3`) or a custom tag over null text
/// (finding C03-tagged-null-merge-value: the null test of merge values ignored the tag)
fn tagged_merge_scalar(rng: &mut Rng) -> GNode {
    let (tag, text) = *rng.pick(&[("!!str", "null"), ("!!null", "x"), ("!", "~"), ("!!int", "3"), ("!custom", "null"), ("!!null", "null"), ("!!str", "~"),
        ("!", "null"), ("!!null", "3"), ("!!str", "x"), ("!custom", "x"), ("!null", "x"), ("!str", "Null"), ("!!", "~"), ("!!float", "~"), ("!!null", "")]);
    let style = if text.is_empty() || rng.chance(3, 4) { 0u8 } else { *rng.pick(&[1u8, 2]) };
    ident_count("merge.tagged_scalar");
    ident_count(&format!("merge.tagged_scalar.{}", tag.trim_start_matches('!')));
    GNode::Scalar { text: text.into(), style, anchor: None, tag: Some(tag.into()) }
}

/// the value of a `<<` entry: mapping, alias to a mapping / to a list of mappings, sequence (nested sequences included)
fn merge_value(rng: &mut Rng, depth: u32, nd: usize, nl: usize) -> GNode {
    match rng.below(8) {
        5 if rng.chance(1, 4) => tagged_merge_scalar(rng),
        0 | 1 if nd > 0 => GNode::Alias(format!("m{}", rng.below(nd))),
        2 if nl > 0 => GNode::Alias(format!("l{}", rng.below(nl))),
        3 | 4 if depth > 0 => {
            let k = 1 + rng.below(3);
            let items = (0..k).map(|_| merge_value(rng, depth - 1, nd, nl)).collect();
            GNode::Seq { anchor: None, tag: None, items, flow: true }
        }
        _ => merge_source_map(rng, None, depth, nd, nl),
    }
}

pub fn merge_doc(rng: &mut Rng) -> GNode {
    // mappings with merge entries: inline maps, aliases, sequences (nested too), nested merges, colliding own keys
    let keys = ["a", "b", "c", "d"];
    let mut defs: Vec<(GNode, GNode)> = Vec::new();
    let nd = rng.below(3);
    for i in 0..nd {
        let mut m = merge_source_map(rng, Some(format!("m{i}")), 0, 0, 0);
        if i > 0 && rng.chance(1, 2) {
            if let GNode::Map { entries, .. } = &mut m { entries.push((sc("<<"), GNode::Alias(format!("m{}", i - 1)))); }
        }
        defs.push((sc(&format!("def{i}")), m));
    }
    // anchored LISTS of mappings (two of them defining the same key more often than not)
    let nl = if rng.chance(1, 3) { 1 + rng.below(2) } else { 0 };
    for i in 0..nl {
        let k = 2 + rng.below(2);
        let items = (0..k).map(|_| merge_value(rng, 1, nd, i)).collect();
        defs.push((sc(&format!("list{i}")), GNode::Seq { anchor: Some(format!("l{i}")), tag: None, items, flow: true }));
    }
    let mut entries: Vec<(GNode, GNode)> = Vec::new();
    let n = 1 + rng.below(5);
    for _ in 0..n {
        match rng.below(8) {
            0 | 1 => entries.push((sc(*rng.pick(&keys)), sc(&rng.below(9).to_string()))),
            2 if nd > 0 => entries.push((sc("<<"), GNode::Alias(format!("m{}", rng.below(nd))))),
            3 => entries.push((sc("<<"), merge_source_map(rng, None, 2, nd, nl))),
            4 => {
                let k = 1 + rng.below(3);
                let items = (0..k).map(|_| merge_value(rng, 2, nd, nl)).collect();
                entries.push((sc("<<"), GNode::Seq { anchor: None, tag: None, items, flow: true }));
            }
            5 => entries.push((sc("<<"), match rng.below(7) { 5 | 6 => tagged_merge_scalar(rng), 0 => sc("~"), 1 => sc("scalar"), 2 => GNode::Seq { anchor: None, tag: None, items: vec![sc("x")], flow: true }, 3 => GNode::Scalar { text: "<<".into(), style: 2, anchor: None, tag: None }, _ => sc("") })),
            6 => entries.push((sc("<<"), merge_value(rng, 3, nd, nl))),
            _ => entries.push((GNode::Scalar { text: "<<".into(), style: *rng.pick(&[1u8, 2]), anchor: None, tag: if rng.chance(1, 2) { Some("!!str".into()) } else { None } }, sc("q"))),
        }
    }
    // the `<<` indicator itself may carry an anchor, be an alias to an anchored `<<`, or carry the YAML 1.1 merge tag
    // (an anchor must not change the meaning; a tagged `<<` is an ordinary key)
    let mut k_anchor_defined = false;
    for e in entries.iter_mut() {
        let is_plain_merge = matches!(&e.0, GNode::Scalar { text, style: 0, anchor: None, tag: None } if text == "<<");
        if !is_plain_merge { continue; }
        match rng.below(10) {
            0 if !k_anchor_defined => { e.0 = GNode::Scalar { text: "<<".into(), style: 0, anchor: Some("k".into()), tag: None }; k_anchor_defined = true; }
            1 if k_anchor_defined => { e.0 = GNode::Alias("k".into()); }
            2 => { e.0 = GNode::Scalar { text: "<<".into(), style: 0, anchor: None, tag: Some(rng.pick(&["!!merge", "!merge", "!!str", "!"]).to_string()) }; }
            _ => {}
        }
    }
    let mut target = GNode::Map { anchor: None, tag: None, entries, flow: rng.chance(1, 2) };
    let mut top = defs;
    // nested anchored containers around a merge through an alias, then the OUTER anchor is used again
    if nd > 0 && rng.chance(1, 5) {
        let inner = GNode::Map { anchor: Some("inner".into()), tag: None, flow: true, entries: vec![(sc("<<"), GNode::Alias("m0".into())), (sc("x"), sc("2"))] };
        let outer = GNode::Map { anchor: Some("outer".into()), tag: None, flow: true, entries: vec![(sc("db"), inner), (sc("a"), sc("8"))] };
        top.push((sc("svc"), outer));
        if let GNode::Map { entries, .. } = &mut target {
            let at = rng.below(entries.len() + 1);
            entries.insert(at, if rng.chance(1, 2) { (sc("<<"), GNode::Alias("outer".into())) } else { (sc("d"), GNode::Alias("outer".into())) });
        }
    }
    top.push((sc("t"), target));
    GNode::Map { anchor: None, tag: None, entries: top, flow: false }
}

fn dup_doc(rng: &mut Rng) -> GNode {
    let mk_key = |rng: &mut Rng| -> GNode {
        match rng.below(8) {
            0 => GNode::Seq { anchor: None, tag: None, items: vec![sc("a"), sc(&rng.below(2).to_string())], flow: true },
            1 => GNode::Map { anchor: None, tag: None, entries: vec![(sc("p"), sc(&rng.below(2).to_string()))], flow: true },
            2 => GNode::Scalar { text: "a".into(), style: *rng.pick(&[0u8, 1, 2]), anchor: None, tag: None },
            3 => GNode::Scalar { text: "a".into(), style: 0, anchor: None, tag: Some(rng.pick(&["!!str", "!x"]).to_string()) },
            4 => sc(*rng.pick(&["~", "null", ""])),
            _ => sc(*rng.pick(&["a", "b", "c", "1", "01"])),
        }
    };
    let n = 1 + rng.below(5);
    let mut entries = Vec::new();
    for _ in 0..n {
        // values that a schema-less read (`deserialize_any`) REJECTS — `!!binary` that is not base64 / not UTF-8, a quoted `!!int`,
        // an invalid merge inside — also nested: FirstWins must discard them unread when the key is a repeat
        let poison = |rng: &mut Rng| -> GNode { match rng.below(4) {
            0 => GNode::Scalar { text: "???".into(), style: 0, anchor: None, tag: Some("!!binary".into()) },
            1 => GNode::Scalar { text: "//4=".into(), style: 0, anchor: None, tag: Some("!!binary".into()) },
            2 => GNode::Scalar { text: "2".into(), style: 2, anchor: None, tag: Some("!!int".into()) },
            _ => GNode::Map { anchor: None, tag: None, entries: vec![(sc("<<"), sc("3"))], flow: true } } };
        let v = match rng.below(6) { 0 => GNode::Seq { anchor: None, tag: None, items: vec![sc("1"), GNode::Map { anchor: None, tag: None, entries: vec![(sc("n"), sc("2"))], flow: true }], flow: true }, 1 => GNode::Map { anchor: None, tag: None, entries: vec![(sc("i"), sc("j"))], flow: rng.chance(1, 2) },
            2 => poison(rng), 3 if rng.chance(1, 2) => GNode::Seq { anchor: None, tag: None, items: vec![sc("1"), GNode::Map { anchor: None, tag: None, entries: vec![(sc("n"), poison(rng))], flow: true }], flow: true },
            _ => sc(&rng.below(9).to_string()) };
        entries.push((mk_key(rng), v));
    }
    let flow = rng.chance(1, 3);
    if rng.chance(1, 4) {
        // the same mapping anchored (possibly one level down) and used again through an alias
        let m = GNode::Map { anchor: Some("d".into()), tag: None, entries, flow: true };
        let first = if rng.chance(1, 2) { m } else { GNode::Seq { anchor: Some("o".into()), tag: None, items: vec![m, sc("z")], flow: true } };
        let second = if matches!(first, GNode::Seq { .. }) && rng.chance(1, 2) { GNode::Alias("o".into()) } else { GNode::Alias("d".into()) };
        return GNode::Map { anchor: None, tag: None, flow: false, entries: vec![(sc("a"), first), (sc("b"), second)] };
    }
    GNode::Map { anchor: None, tag: None, entries, flow }
}

/// minimised past findings and hand-written edge cases: run first in every typed / general run
fn corpus() -> Vec<(Ty, String)> {
    let i32t = || Ty::Int(true, 32);
    let u8t = || Ty::Int(false, 8);
    let e = || Ty::Enum("E", vec![("A", VTy::Newtype(i32t())), ("B", VTy::Unit), ("C", VTy::Tuple(vec![i32t(), i32t()])), ("D", VTy::Struct(vec![("x", i32t())])), ("O", VTy::Newtype(Ty::Option(Box::new(i32t()))))]);
    let mut v: Vec<(Ty, String)> = Vec::new();
    for t in ["[A, 5]", "[A, 5, B]", "[C, [1, 2], B]", "[D, {x: 1}]", "[B, B]", "[O, B]", "[{A: 5}, B]", "[!A 5, B]", "[!C [1, 2], B]", "[!C [1, 2, 3], B]",
              "[!A [1], B]", "[!B x, !B [1, 2]]", "[{C: [1, 2, 3]}]", "[{C: [1]}]", "[{B: ~}, {B: }, {B: 1}]", "[{A: 1, B: 2}]", "[!D {x: 1, y: 2}]", "[!E A]", "[!X A]"] {
        v.push((Ty::Seq(Box::new(e())), t.to_string()));
    }
    for t in ["{[1,2,3]: 7}", "{[1,2]: 7}", "{[1]: 7}", "? [1, 2, 3]\n: 7\n"] {
        v.push((Ty::Map(Box::new(Ty::Tuple(vec![i32t(), i32t()])), Box::new(i32t())), t.replace("\\n", "\n")));
    }
    for t in ["{<<: {a: [1,2,3]}}", "{<<: {a: [1,2]}}", "{a: [1,2,3]}", "{<<: [{a: [1,2,3]}, {b: [1,2]}]}", "m: &m {a: [1,2,3]}\nt: {<<: *m}\n"] {
        v.push((Ty::Map(Box::new(Ty::Str), Box::new(Ty::Any)), t.replace("\\n", "\n")));
        v.push((Ty::Map(Box::new(Ty::Str), Box::new(Ty::Tuple(vec![i32t(), i32t()]))), t.replace("\\n", "\n")));
    }
    // surplus of an inner fixed-size position equals the shortage of the outer one: only closing events are left over
    for t in ["[[1, 2, 3]]", "[[1, 2], 3]", "[[1, 2, 3], 4]", "[[1], 2, 3]", "[[[1, 2, 3]]]", "- - 1\n  - 2\n  - 3\n"] {
        v.push((Ty::Tuple(vec![Ty::Tuple(vec![i32t(), i32t()]), i32t()]), t.replace("\\n", "\n")));
        v.push((Ty::Seq(Box::new(Ty::Tuple(vec![i32t(), i32t()]))), t.replace("\\n", "\n")));
        v.push((Ty::Tuple(vec![Ty::Seq(Box::new(i32t())), Ty::Option(Box::new(i32t()))]), t.replace("\\n", "\n")));
    }
    for t in ["{a: [1, 2, 3]}", "{a: [1, 2], b: 3}", "a: [[1, 2, 3]]\n", "a: [1, 2]\n"] {
        v.push((Ty::Struct(vec![("a", Ty::Tuple(vec![i32t(), i32t()])), ("b", Ty::Option(Box::new(i32t())))], false), t.replace("\\n", "\n")));
        v.push((Ty::Map(Box::new(Ty::Str), Box::new(Ty::Tuple(vec![Ty::Tuple(vec![i32t(), i32t()]), i32t()]))), t.replace("\\n", "\n")));
    }
    for t in ["{B: {}}", "{B: []}", "{B: ''}", "{B: ~}", "{B: 0}", "{B: {x: 1}}", "- B: {}\n", "!B {}", "!B []", "!Null ''", "!Null 7", "!Binary AQID", "!Int 5", "[!Null 7]", "{A: !Null 7}"] {
        v.push((e(), t.replace("\\n", "\n")));
        v.push((Ty::Seq(Box::new(e())), t.replace("\\n", "\n")));
        v.push((Ty::Option(Box::new(Ty::Enum("N", vec![("Null", VTy::Unit), ("Int", VTy::Newtype(i32t())), ("Binary", VTy::Newtype(Ty::Bytes))]))), t.replace("\\n", "\n")));
        v.push((Ty::Seq(Box::new(u8t())), t.replace("\\n", "\n")));
        v.push((Ty::Any, t.replace("\\n", "\n")));
    }
    for t in ["!!binary AAEC", "!!binary AAE=", "!!binary AA==", "!!binary \"\"", "!!binary AAECAw==", "[0, 1]", "[0, 1, 2]"] {
        v.push((Ty::Tuple(vec![u8t(), u8t()]), t.to_string()));
        v.push((Ty::Seq(Box::new(u8t())), t.to_string()));
        v.push((Ty::Seq(Box::new(Ty::Str)), t.to_string()));
        v.push((Ty::Bytes, t.to_string()));
    }
    for t in ["{~: 1}: 2", "? {~: 1}\n: 2\n", "{}: 2", "? \n: 2\n", ": 2", "{null: 1}: 2", "{a: 1}: 2"] {
        v.push((Ty::Map(Box::new(Ty::Option(Box::new(Ty::Str))), Box::new(i32t())), t.replace("\\n", "\n")));
        v.push((Ty::Map(Box::new(Ty::Any), Box::new(Ty::Any)), t.replace("\\n", "\n")));
    }
    // tag-selected variant payloads reached through an alias (fix e5db46c: the replayed payload keeps the alias token
    // as use site): values, and type errors inside the payload (error kind and both locations are compared)
    for t in ["r: &r !A 5\ns: *r\n", "r: &r !A oops\ns: *r\n", "r: &r !C [1, 2]\ns: *r\n", "r: &r !C [1, x]\ns: *r\n", "r: &r !C [1, 2, 3]\ns: *r\n",
              "r: &r !D {x: 1}\ns: *r\n", "r: &r !D {x: q}\ns: *r\n", "r: &r !O ~\ns: *r\n", "r: &r !A [1]\ns: *r\n", "q: &q 7\nr: !C [1, *q]\ns: !A *q\n",
              "q: &q x\nr: !C [1, *q]\ns: !B ~\n", "r: &r [!A 1, !A z]\ns: *r\n", "r: !A 5\ns: !C [1, z]\n"] {
        v.push((Ty::Map(Box::new(Ty::Str), Box::new(e())), t.replace("\\n", "\n")));
        v.push((Ty::Struct(vec![("r", Ty::Any), ("s", e())], false), t.replace("\\n", "\n")));
        v.push((Ty::Struct(vec![("r", Ty::Any), ("s", Ty::Seq(Box::new(e())))], false), t.replace("\\n", "\n")));
    }
    // the payload of a tag-selected variant keeps its scalar STYLE: quoted null-likes are strings / errors, never null
    for t in ["!S \"\"", "!S ''", "!S \"null\"", "!S '~'", "!S ~", "!S null", "!S", "!S |\n  null\n", "!L \"\"", "!L ''", "!L ~", "!L \"~\"", "!M \"\"", "!M ''", "!I \"\"", "!I \"1\"", "!I '1'", "!B \"true\"", "!B 'no'",
              "{S: \"\"}", "{S: ~}", "[!S \"\", !S ~]", "r: &r !S \"\"\ns: *r\n", "r: &r \"\"\ns: !S *r\n"] {
        let pe = Ty::Enum("P", vec![("S", VTy::Newtype(Ty::Option(Box::new(Ty::Str)))), ("L", VTy::Newtype(Ty::Seq(Box::new(i32t())))), ("M", VTy::Newtype(Ty::Map(Box::new(Ty::Str), Box::new(i32t())))),
            ("I", VTy::Newtype(Ty::Option(Box::new(i32t())))), ("B", VTy::Newtype(Ty::Option(Box::new(Ty::Bool))))]);
        v.push((pe.clone(), t.replace("\\n", "\n")));
        v.push((Ty::Seq(Box::new(pe.clone())), t.replace("\\n", "\n")));
        v.push((Ty::Map(Box::new(Ty::Str), Box::new(pe)), t.replace("\\n", "\n")));
    }
    for t in ["&a \"\"", "- &a ''\n- *a\n", "[1, 2, 3]", "[1]", "~", "", "[[1, 2], [3]]"] {
        v.push((Ty::Any, t.replace("\\n", "\n")));
        v.push((Ty::Tuple(vec![Ty::Any, Ty::Any]), t.replace("\\n", "\n")));
        v.push((Ty::Option(Box::new(Ty::Str)), t.replace("\\n", "\n")));
    }
    v
}

/// struct field identifiers in every notation (finding: `deserialize_str` = `deserialize_string` on scalars since
/// 7f69297): run under default options and under `no_schema` / `ignore_binary_tag_for_string`
fn ident_corpus() -> Vec<(Ty, String)> {
    let i32t = || Ty::Int(true, 32);
    let opt = || Ty::Option(Box::new(i32t()));
    let mut v: Vec<(Ty, String)> = Vec::new();
    for t in ["{a: 1}", "{!!str a: 1}", "{!!binary YQ==: 1}", "{!!binary a: 1}", "{!!binary /w==: 1}", "{!!int a: 1}", "{!!null a: 1}", "{! a: 1}", "{!custom a: 1}",
              "{'a': 1}", "{true: 1}", "{'true': 1}", "{!!str true: 1}", "{1: 1}", "{\"1\": 1}", "{~: 1}", "{'~': 1}", "{!!str ~: 1}", "{null: 1}", "{!!str : 1}",
              "{a: 1, !!binary YQ==: 2}", "{!!int 1: 1}", "{zz: 1, !!float x: 2}", "true: 1\n", "!!binary YQ==: 1\n"] {
        for deny in [false, true] {
            v.push((Ty::Struct(vec![("a", opt()), ("true", opt()), ("1", opt()), ("~", opt())], deny), t.to_string()));
        }
        v.push((Ty::Enum("E", vec![("a", VTy::Newtype(i32t())), ("true", VTy::Newtype(i32t())), ("1", VTy::Struct(vec![("a", opt())]))]), t.to_string()));
    }
    v
}

fn generate(a: &Args, name: &str, family: u8) -> i32 {
    let mut rng = Rng::new(a.seed ^ (family as u64) << 32);
    let mut sink = Sink::new(&a.out, name);
    IDENT_STATS.with(|s| s.borrow_mut().clear());
    if family == 0 || family == 3 {
        for (ty, text) in corpus() {
            for dup in 0..3u8 {
                let cfg = Cfg { dup, legacy_octal: false, strict_bool: false, ignore_binary: false, no_schema: false, budget: Some(Budget::default()), limits: AliasLimits::default() };
                let (items, _, _) = crate::pump::items_tokens(&text);
                let ans = run_single(&text, &ty, &cfg);
                sink.count("corpus");
                sink.case(&format!("e2e single {} {} | {}", cfg.tokens(false), ty.tokens(), items), &ans);
            }
        }
    }
    if family == 1 {
        // tagged scalars as merge values and as elements of merge sequences (finding C03-tagged-null-merge-value): null is
        // decided by tag AND text — `!!null x` is null, `!!str null` / `! ~` are strings and therefore rejected
        for t in ["<<: !!str null\nb: 1\n", "<<: !!null x\nb: 1\n", "<<: ! ~\nb: 1\n", "<<: ! null\nb: 1\n", "<<: !!int 3\nb: 1\n", "<<: !custom null\nb: 1\n", "<<: !custom x\nb: 1\n",
                  "<<: null\nb: 1\n", "<<: \"null\"\nb: 1\n", "<<: !!null \"x\"\nb: 1\n", "<<: !!str \"null\"\nb: 1\n", "<<: !!null\nb: 1\n", "<<: !!str\nb: 1\n", "<<: !!int null\nb: 1\n",
                  "{<<: [!!str null], b: 1}", "{<<: [!!null x], b: 1}", "{<<: [! ~, {a: 1}], b: 1}", "{<<: [{a: 1}, !!null x], b: 1}", "{<<: [[!!null x, {a: 2}], !custom null], b: 1}", "{<<: [[!!str ~]], b: 1}",
                  "m: &m !!str null\nt: {<<: *m, b: 1}\n", "m: &m !!null x\nt: {<<: *m, b: 1}\n", "m: &m {<<: !!str null, a: 1}\nt: {<<: *m, b: 1}\n", "m: &m {<<: !!null x, a: 1}\nt: {<<: [*m], b: 1}\n"] {
            let text = t.replace("\\n", "\n");
            for ty in [Ty::Any, Ty::Map(Box::new(Ty::Str), Box::new(Ty::Any)), Ty::Struct(vec![("a", Ty::Option(Box::new(Ty::Any))), ("b", Ty::Option(Box::new(Ty::Any))), ("t", Ty::Option(Box::new(Ty::Any))), ("m", Ty::Option(Box::new(Ty::Any)))], false)] {
                for dup in 0..3u8 {
                    let cfg = Cfg { dup, legacy_octal: false, strict_bool: false, ignore_binary: false, no_schema: false, budget: Some(Budget::default()), limits: AliasLimits::default() };
                    let (items, _, _) = crate::pump::items_tokens(&text);
                    let ans = run_single(&text, &ty, &cfg);
                    sink.count("corpus.merge_tagged_scalar");
                    sink.case(&format!("e2e single {} {} | {}", cfg.tokens(false), ty.tokens(), items), &ans);
                }
            }
        }
    }
    if family == 0 || family == 3 {
        // byte targets written as sequences of integers: every element is an ordinary u8 position (radix prefixes, `_`,
        // leading zeros under legacy_octal_numbers, quoted / tagged elements, out-of-range values)
        for text in ["[0010, 0017]\n", "[1, 0009]\n", "[\"1\", 2]\n", "['7']\n", "[0x1F, 0o17, 0b101, 1_0]\n", "[255, 256]\n", "[-1]\n", "[!!str 5]\n", "[!!int \"5\"]\n", "- 010\n- 08\n- 0\n- 00\n", "[1.0]\n", "[~]\n", "[+5, 05]\n"] {
            for ty in [Ty::Bytes, Ty::Struct(vec![("b", Ty::Bytes)], false), Ty::Seq(Box::new(Ty::Int(false, 8)))] {
                for legacy_octal in [false, true] {
                    let text = if matches!(ty, Ty::Struct(..)) { format!("b: {}", text.replace("\n- ", "\n   - ").replacen("- ", "\n   - ", if text.starts_with('-') { 1 } else { 0 })) } else { text.to_string() };
                    let cfg = Cfg { dup: 0, legacy_octal, strict_bool: false, ignore_binary: false, no_schema: false, budget: Some(Budget::default()), limits: AliasLimits::default() };
                    let (items, _, _) = crate::pump::items_tokens(&text);
                    let ans = run_single(&text, &ty, &cfg);
                    sink.count("corpus.bytes_as_int_seq");
                    sink.case(&format!("e2e single {} {} | {}", cfg.tokens(false), ty.tokens(), items), &ans);
                }
            }
        }
    }
    if family == 0 || family == 3 {
        for (ty, text) in ident_corpus() {
            for (no_schema, ignore_binary) in [(false, false), (true, false), (false, true)] {
                let cfg = Cfg { dup: 0, legacy_octal: false, strict_bool: false, ignore_binary, no_schema, budget: Some(Budget::default()), limits: AliasLimits::default() };
                let (items, _, _) = crate::pump::items_tokens(&text);
                let ans = run_single(&text, &ty, &cfg);
                sink.count("corpus.ident");
                sink.case(&format!("e2e single {} {} | {}", cfg.tokens(false), ty.tokens(), items), &ans);
            }
        }
    }
    let n = if a.thorough { 30000 } else { 2500 };
    let mut distinct = std::collections::BTreeSet::new();
    for i in 0..n {
        let (ty, doc): (Ty, GNode) = match family {
            1 if i % 5 == 4 => {
                // merge sources contributing COMPOSITE keys (sequences / mappings as keys) to maps keyed by tuples, structs or
                // untyped keys: several distinct composite keys per source, own composite keys that collide with merged ones
                let ck = |rng: &mut Rng| -> GNode { match rng.below(4) {
                    0 | 1 => GNode::Seq { anchor: None, tag: None, flow: true, items: vec![sc(&rng.below(3).to_string()), sc(&rng.below(2).to_string())] },
                    2 => GNode::Map { anchor: None, tag: None, flow: true, entries: vec![(sc("x"), sc(&rng.below(3).to_string())), (sc("y"), sc("1"))] },
                    _ => sc(*rng.pick(&["a", "b"])) } };
                let src = |rng: &mut Rng, anchor: Option<String>| -> GNode {
                    let n = 2 + rng.below(3);
                    GNode::Map { anchor, tag: None, flow: rng.chance(1, 2), entries: (0..n).map(|_| (ck(rng), sc(&rng.below(9).to_string()))).collect() } };
                let mut top: Vec<(GNode, GNode)> = vec![(sc("base"), src(&mut rng, Some("m0".into())))];
                let mut t: Vec<(GNode, GNode)> = Vec::new();
                for _ in 0..rng.below(3) { t.push((ck(&mut rng), sc("own"))); }
                t.push((sc("<<"), match rng.below(3) { 0 => GNode::Alias("m0".into()), 1 => src(&mut rng, None),
                    _ => GNode::Seq { anchor: None, tag: None, flow: true, items: vec![GNode::Alias("m0".into()), src(&mut rng, None)] } }));
                for _ in 0..rng.below(2) { t.push((ck(&mut rng), sc("late"))); }
                top.push((sc("t"), GNode::Map { anchor: None, tag: None, flow: false, entries: t }));
                let kt = match rng.below(3) { 0 => Ty::Tuple(vec![Ty::Int(true, 32), Ty::Int(true, 32)]), 1 => Ty::Any,
                    _ => Ty::Struct(vec![("x", Ty::Int(true, 32)), ("y", Ty::Int(true, 32))], false) };
                let ty = Ty::Struct(vec![("t", Ty::Map(Box::new(kt), Box::new(Ty::Any)))], false);
                (ty, GNode::Map { anchor: None, tag: None, flow: false, entries: top })
            }
            1 => {
                let ty = match rng.below(3) { 0 => Ty::Any, 1 => Ty::Map(Box::new(Ty::Str), Box::new(Ty::Any)),
                    _ => Ty::Struct(vec![("t", Ty::Struct(vec![("a", Ty::Option(Box::new(Ty::Any))), ("b", Ty::Option(Box::new(Ty::Any))), ("c", Ty::Option(Box::new(Ty::Any))), ("d", Ty::Option(Box::new(Ty::Any)))], false))], false) };
                (ty, merge_doc(&mut rng))
            }
            2 => {
                let ty = match rng.below(3) { 0 => Ty::Any, 1 => Ty::Map(Box::new(Ty::Any), Box::new(Ty::Any)),
                    _ => Ty::Struct(vec![("a", Ty::Option(Box::new(Ty::Any))), ("b", Ty::Option(Box::new(Ty::Any)))], false) };
                let doc = match i % 5 {
                    // a mapping with many distinct keys and a repeat of the j-th one (set-implementation boundaries)
                    0 => {
                        let nkeys = 2 + rng.below(14);
                        let j = rng.below(nkeys);
                        let mut entries: Vec<(GNode, GNode)> = (0..nkeys).map(|k| (sc(&format!("k{k}")), sc(&k.to_string()))).collect();
                        let at = j + 1 + rng.below(nkeys - j);
                        entries.insert(at, (sc(&format!("k{j}")), sc("again")));
                        GNode::Map { anchor: None, tag: None, entries, flow: rng.chance(1, 2) }
                    }
                    // an unknown struct field (ignored value) that contains a mapping with a repeated key
                    1 => GNode::Map { anchor: None, tag: None, flow: false, entries: vec![
                        (sc("a"), sc("1")),
                        (sc("zz_unknown"), if rng.chance(1, 2) { dup_doc(&mut rng) } else { GNode::Seq { anchor: None, tag: None, flow: true, items: vec![dup_doc(&mut rng)] } }),
                        (sc("b"), sc("2")),
                    ] },
                    _ => dup_doc(&mut rng),
                };
                (ty, doc)
            }
            _ => {
                let ty = if family == 0 && i % 3 == 0 { Ty::Any } else { gen_ty(&mut rng, 0) };
                let mut doc = gen_value(&mut rng, &ty, 0);
                if rng.chance(1, 2) { mutate(&mut rng, &mut doc, 0); }
                if family == 0 && rng.chance(1, 8) { let mut g = Gen::new(&mut rng, GenCfg::default()); doc = g.document(); }
                (ty, doc)
            }
        };
        let mut text = render_doc(&doc);
        if !text.ends_with('\n') { text.push('\n'); }
        if rng.chance(1, 12) { text.push_str(*rng.pick(&["...\n", "---\nsecond\n", "...\n junk: [\n", "--- ~\n"])); }
        let cfg = if family == 0 || family == 3 { Cfg::random(&mut rng) } else { let mut c = Cfg::random(&mut rng); c.no_schema = false; c.strict_bool = false; c };
        let (items, nev, _) = crate::pump::items_tokens(&text);
        if distinct.insert((ty.tokens(), items.clone())) && nev > 4 { sink.count("distinct_nontrivial"); }
        let ans = run_single(&text, &ty, &cfg);
        sink.count(&format!("single.{}", ans.split(' ').take(2).collect::<Vec<_>>().join(".")));
        sink.case(&format!("e2e single {} {} | {}", cfg.tokens(false), ty.tokens(), items), &ans);
        if family == 0 && i % 4 == 0 {
            // multi-document variants of the same material
            let mut stream = text.clone();
            stream.push_str("---\n");
            stream.push_str(&text);
            let (items2, _, _) = crate::pump::items_tokens(&stream);
            let ans = run_multi(&stream, &ty, &cfg);
            sink.count(&format!("multi.{}", ans.split(' ').next().unwrap()));
            sink.case(&format!("e2e multi {} {} | {}", cfg.tokens(false), ty.tokens(), items2), &ans);
            let ans = run_iter(&stream, &ty, &cfg);
            sink.case(&format!("e2e iter {} {} | {}", cfg.tokens(true), ty.tokens(), items2), &ans);
        }
    }
    // implementation-only oracle of the duplicate-key family: the Error policy locates the error AT THE REPEATED KEY,
    // also when the repeated key is written as an alias of the first one
    if family == 2 {
        let mut fails: Vec<String> = Vec::new();
        use std::collections::BTreeMap;
        // target: 0 = untyped value, 1 = map keyed by sequences, 2 = map keyed by mappings
        for (text, line, col, target) in [("&k a: 1\n*k : 2\n", 2u64, 1u64, 0u8), ("a: 1\nb: 2\na: 3\n", 3, 1, 0), ("{&k a: 1, *k : 2}\n", 1, 11, 0),
            // composite alias key; the anchor in an EARLIER entry (as its key / as its value) with entries in between; the first
            // occurrence written as an alias and the repeat written out; a nested mapping; a flow mapping inside a sequence
            ("&k [1, 2]: x\n*k : z\n", 2, 1, 1), ("&k [1, 2]: x\n[3]: y\n*k : z\n", 3, 1, 1), ("&k {p: 1}: x\n{q: 2}: y\n*k : z\n", 3, 1, 2),
            ("[1, 2]: x\n[3]: y\n[1, 2]: z\n", 3, 1, 1), ("&k a: 1\nb: 2\n*k : 3\n", 3, 1, 0),
            ("x: &k a\nb: 2\n*k : 3\na: 4\n", 4, 1, 0), ("x: &k a\na: 1\nb: 2\n*k : 3\n", 4, 1, 0), ("t:\n  &k a: 1\n  *k : 2\n", 3, 3, 0),
            ("- &k a\n- {a: 1, b: 2, *k : 3}\n", 2, 16, 0)] {
            let r: Result<(), serde_saphyr::Error> = match target {
                0 => serde_saphyr::from_str::<serde_json::Value>(text).map(|_| ()),
                1 => serde_saphyr::from_str::<BTreeMap<Vec<i64>, String>>(text).map(|_| ()),
                _ => serde_saphyr::from_str::<BTreeMap<BTreeMap<String, i64>, String>>(text).map(|_| ()),
            };
            sink.count("dup_oracle.cases");
            match r {
                Err(e) if crate::errs::kind(&e) == "DuplicateMappingKey" => {
                    let l = e.location().map(|l| (l.line() as u64, l.column() as u64));
                    if l != Some((line, col)) {
                        let id = "C04-duplicate-key-location";
                        fails.push(serde_json::json!({"id": id, "what": "duplicate-key error is not located at the repeated key", "input": text, "observed": format!("{l:?}"), "expected": format!("({line}, {col})")}).to_string());
                    }
                }
                other => fails.push(serde_json::json!({"id": "C04-duplicate-key-not-reported", "what": "repeated key under the Error policy", "input": text, "observed": format!("{:?}", other.map_err(|e| crate::errs::kind(&e).to_string())), "expected": "DuplicateMappingKey"}).to_string()),
            }
        }
        // keys that differ ONLY in a custom tag are different key nodes: no duplicate, identical under all policies
        for text in ["!foo a: 1\n!bar a: 2\n", "{!x [1]: p, !y [1]: q}\n"] {
            sink.count("dup_oracle.cases");
            let run = |pol: u8| {
                let cfg = Cfg { dup: pol, legacy_octal: false, strict_bool: false, ignore_binary: false, no_schema: false, budget: Some(Budget::default()), limits: AliasLimits::default() };
                run_single_plain(text, &Ty::Map(Box::new(Ty::Any), Box::new(Ty::Any)), &cfg)
            };
            let (e, f, l) = (run(0), run(1), run(2));
            if !(e == f && f == l && e.starts_with("ok")) {
                fails.push(serde_json::json!({"id": "C04-custom-tags-collapse", "what": "keys that differ only in a custom tag are treated as the same key", "input": text,
                    "observed": format!("Error: {e} ; FirstWins: {f} ; LastWins: {l}"), "expected": "no repeated key: the same successful result under all three policies"}).to_string());
            }
        }
        std::fs::write(format!("{}/{}.oracle.jsonl", a.out, name), fails.join("\n")).unwrap();
    }
    let nt = sink.stats.get("distinct_nontrivial").copied().unwrap_or(0);
    for (k, v) in IDENT_STATS.with(|s| std::mem::take(&mut *s.borrow_mut())) { *sink.stats.entry(k).or_insert(0) += v; }
    sink.finish(&a.out, name, serde_json::json!({
        "distinct_nontrivial": nt,
        "rule": "generated (type description, document, options) triples: the document is generated FROM the type (mostly matching), then perturbed half of the time (surplus/missing elements, wrong kind, unknown field, duplicate entry, null for a container, tags, anchors+aliases, entries moved into merge sources, a key rewritten in another notation, an unknown key that is tagged / a look-alike); struct field and `{Variant: payload}` keys are written plain 3 times out of 4 and otherwise as `!!str name`, `!!binary <base64 of name>`, `!!binary name`, `!!int name` (and other non-string tags), `! name` / `!custom name`, or quoted, and 1 struct in 6 / 1 enum in 8 has a field / variant named `true`, `1`, `~`, `null` or `1.5` (plain look-alike keys under no_schema and default options) - counted as ident.<form>[.lookalike]; families: general (also untyped target and multi-document/iterator variants), merge-key documents (inline maps, aliases, sequences, nested merges, colliding own keys, invalid merge values, tagged scalars as merge values and merge-sequence elements (`!!str null`, `!!null x`, `! ~`, `!!int 3`, `!custom null`, ... - counted as merge.tagged_scalar), quoted/tagged <<), duplicate-key documents (scalar/sequence/mapping keys, quoted vs plain, tagged, null-like) x 3 policies. Implementation = with_deserializer_from_str_with_options / from_multiple_with_options / read_with_options with a DeserializeSeed that issues the derive calls; model = pump + typed deserializer + entry protocol on the real parser's items. Compared: value tree or error kind + location (+ definition location for alias errors). Non-trivial = distinct (type, item stream) with more than 4 events.",
    }));
    0
}


/// C06 end to end: one scalar (token x style x tag) as the root or as a mapping value, into every scalar-like
/// target under option vectors — the deserializer-level interpretation (`deserialize_*`, `deserialize_any`).
fn generate_scalars(a: &Args) -> i32 {
    let mut rng = Rng::new(a.seed ^ 0x5ca1a5);
    let mut sink = Sink::new(&a.out, "e2e_scalar");
    let tokens: Vec<&str> = vec![
        "", "~", "null", "Null", "NULL", "nul", "true", "True", "TRUE", "false", "yes", "No", "on", "OFF", "y", "n", "Y",
        "0", "-0", "+0", "1", "-1", "127", "128", "-128", "-129", "255", "256", "65535", "65536", "2147483647", "2147483648", "-2147483648",
        "9223372036854775807", "9223372036854775808", "-9223372036854775808", "18446744073709551615", "18446744073709551616",
        "170141183460469231731687303715884105727", "340282366920938463463374607431768211455", "340282366920938463463374607431768211456",
        // explicit sign at the i64 / u64 / i128 / u128 boundaries, in every radix
        "+9223372036854775807", "+9223372036854775808", "+18446744073709551615", "+18446744073709551616", "-9223372036854775809", "+170141183460469231731687303715884105728",
        "+0xFFFFFFFFFFFFFFFF", "0xFFFFFFFFFFFFFFFF", "+0x10000000000000000", "-0x8000000000000000", "-0x8000000000000001", "+0o1777777777777777777777", "+0b1111111111111111111111111111111111111111111111111111111111111111",
        "+0x7FFFFFFFFFFFFFFF", "+0x8000000000000000", "018446744073709551615", "+018446744073709551615",
        "-007", "-00", "-0123", "-0_1", "-0010", "-08", "+007", "-0x1F", "-0o17", "-0b11", "0x1F", "0X1f", "0o17", "0b101", "007", "00", "0o8", "0x", "1_000", "_1", "1_", "+5", "- 5", "0x-1", "-0x80", "0o400000000000000000000000000000000000000000000",
        "1.5", "-1.5", "1.", ".5", "1e3", "1E-3", "1e", ".inf", "-.INF", "+.Inf", ".nan", ".NaN", "inf", "infinity", "nan", "1.00000005960464477540", "1e400", "4.9e-324",
        "a", "é", "ab", "hello world", "<<", "-", "123abc", "AQID", "aGVsbG8=", "AB==", "/w==", "=AAA", "A=AA", "==A=", "QUJD=A==", "A===", "QQ==QQ==", "QUJD", "QUI=", " 12 ", "12 ", "\u{a0}12",
    ];
    let tags = ["", "!!str ", "!!int ", "!!float ", "!!bool ", "!!null ", "!!binary ", "! ", "!custom ", "!!timestamp "];
    let targets = vec![
        Ty::Bool, Ty::Int(true, 8), Ty::Int(true, 32), Ty::Int(true, 64), Ty::Int(true, 128), Ty::Int(false, 8), Ty::Int(false, 64), Ty::Int(false, 128),
        Ty::Float(64), Ty::Float(32), Ty::Char, Ty::Str, Ty::Unit, Ty::Bytes, Ty::Any, Ty::Option(Box::new(Ty::Str)), Ty::Option(Box::new(Ty::Int(true, 32))),
        Ty::Seq(Box::new(Ty::Int(false, 8))), Ty::Enum("E", vec![("a", VTy::Unit), ("true", VTy::Unit), ("1", VTy::Unit)]),
    ];
    let per = if a.thorough { 24 } else { 3 };
    let mut distinct = std::collections::BTreeSet::new();
    for tok in &tokens {
        let tok = tok.replace("\\u{a0}", "\u{a0}");
        for style in 0..5u8 {
            for tag in tags {
                let body = match style {
                    0 => tok.clone(),
                    1 => format!("'{}'", tok.replace('\'', "''")),
                    2 => format!("\"{}\"", tok.replace('\\', "\\\\").replace('"', "\\\"")),
                    3 => format!("|-\n  {}\n", tok),
                    _ => format!(">-\n  {}\n", tok),
                };
                if style >= 3 && (tok.is_empty() || tok.starts_with(' ')) { continue; }
                let text = if rng.chance(1, 2) { format!("--- {tag}{body}\n") } else { format!("k: {tag}{body}\n") };
                let in_map = text.starts_with("k:");
                let (items, nev, _) = crate::pump::items_tokens(&text);
                // plain untagged scalars meet EVERY target (the interpretation table of the property); other styles and
                // tags meet a random sample of targets
                let exhaustive = style == 0 && tag.is_empty();
                // null spellings in every OTHER style (quoted, literal, folded) always meet the Option / String / untyped targets:
                // only a plain scalar is null
                let nullish = matches!(tok.as_str(), "~" | "null" | "Null" | "NULL" | "");
                let forced: Vec<Ty> = if nullish && style > 0 && (tag.is_empty() || tag == "!!str " || tag == "!!null ") {
                    vec![Ty::Option(Box::new(Ty::Str)), Ty::Option(Box::new(Ty::Int(true, 32))), Ty::Str, Ty::Any, Ty::Unit] } else { Vec::new() };
                let rounds = if exhaustive { targets.len() } else { per + forced.len() };
                for ri in 0..rounds {
                    let t0 = if exhaustive { targets[ri].clone() } else if ri < forced.len() { forced[ri].clone() } else { rng.pick(&targets).clone() };
                    let ty = if in_map { Ty::Struct(vec![("k", t0)], false) } else { t0 };
                    let cfg = Cfg { dup: 0, legacy_octal: rng.chance(1, 2), strict_bool: rng.chance(1, 2), ignore_binary: rng.chance(1, 2), no_schema: rng.chance(1, 2),
                                    budget: None, limits: AliasLimits::default() };
                    let ans = run_single(&text, &ty, &cfg);
                    if distinct.insert((text.clone(), ty.tokens())) && nev > 2 && ans.starts_with("ok") { sink.count("distinct_nontrivial"); }
                    sink.count(&format!("scalar.{}", ans.split(' ').take(2).collect::<Vec<_>>().join(".").chars().take(40).collect::<String>()));
                    sink.case(&format!("e2e single {} {} | {}", cfg.tokens(false), ty.tokens(), items), &ans);
                }
            }
        }
    }
    let nt = sink.stats.get("distinct_nontrivial").copied().unwrap_or(0);
    sink.finish(&a.out, "e2e_scalar", serde_json::json!({
        "distinct_nontrivial": nt,
        "rule": "deserializer-level scalar interpretation: ~90 tokens (null/bool/int boundaries in every radix/float/look-alikes/base64) x 5 styles (plain, single, double, literal, folded) x 10 tags, as document root or mapping value, into random targets out of 19 (bool, ints of 5 widths, floats, char, String, unit, bytes, untyped, options, Vec<u8>, enum) under random option vectors (legacy_octal, strict_booleans, ignore_binary_tag_for_string, no_schema): implementation vs model (value or error kind + location) and vs the specification. Non-trivial = distinct (text, target) accepted.",
    }));
    0
}
