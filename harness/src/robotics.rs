//! C19 (area `robotics`): the robotics expression evaluator (`src/robotics.rs`) behind
//! `Options::angle_conversions`, its call site `parse_yaml12_float`, and the validation of the Lean
//! IEEE-754 model (`Model/F64.lean`) against the hardware.
//!
//! Differential lines (`robotics.ops` / `robotics.impl`):
//!   robotics eval   <tag> <hex>          -> ok <f64 bits> | err <code> | panic <site>
//!   robotics eval32 <tag> <hex>          -> ok <f32 bits> | err <code> | panic <site>
//!   robotics f64|f32 <tag> <angle> <hex> -> some <bits> | none | panic <site>
//!   robotics fadd|fsub|fmul|fdiv[32] a b, fneg a, narrow a, widen a, gt a b, tou32 a, u32tof n,
//!   robotics dec64|dec32 <hex>           -> some <bits> | none         (Rust `str::parse`)
//! NaN bit patterns are canonicalised (0x7ff8000000000000 / 0x7fc00000).
//!
//! Oracle stream (`robotics.oracle.jsonl`, implementation only): every evaluation runs under
//! `catch_unwind` with a time check (panic / slow = failure), every text the plain path accepts
//! must give the same bits with the option switched on (tags other than `!degrees`; f64 and f32), the
//! call site must be "plain reading, else evaluator", and the public API must agree with the hook.
//! Since the repairs bebcb49 / 78f916b no failure class is expected: the former finding witnesses
//! (`123é`, `1.00000005960464477540` as f32, `infinity`, U+00A0-wrapped literals, 1000001 digits) are in
//! the fixed corpora and would be reported again under their old ids.
use crate::proto::*;
use crate::Args;
use serde_saphyr::verif_hooks::robotics as h;
use std::cell::RefCell;
use std::collections::BTreeSet;
use std::io::Write;

const TAGS: [u8; 6] = [0, 2, 7, 11, 12, 13];
const QNAN64: u64 = 0x7ff8_0000_0000_0000;
const QNAN32: u32 = 0x7fc0_0000;

fn c64(b: u64) -> u64 {
    if f64::from_bits(b).is_nan() { QNAN64 } else { b }
}
fn c32(b: u32) -> u32 {
    if f32::from_bits(b).is_nan() { QNAN32 } else { b }
}

/// error message of robotics.rs -> code of `RErr.code` in Model/Robotics.lean
fn err_code(msg: &str) -> u32 {
    const T: [(&str, u32); 26] = [
        ("unexpected trailing characters in scalar", 1),
        ("ambiguous mix of unitized values and Degrees tag", 2),
        ("expression too deeply nested", 3),
        ("expected ')' after function argument", 16),
        ("expected ')'", 4),
        ("expected number, constant, function, or '('", 5),
        ("unexpected end of input", 6),
        ("invalid underscore placement in number", 7),
        ("too many digits in numeric literal", 8),
        ("invalid underscore placement in fraction", 9),
        ("expected exponent marker", 10),
        ("expected sign after exponent marker", 11),
        ("invalid underscore placement in exponent", 12),
        ("malformed exponent", 13),
        ("invalid float literal", 14),
        ("expected '(' after function name", 15),
        ("unknown identifier", 17),
        ("minutes out of range in sexagesimal literal", 18),
        ("seconds out of range in sexagesimal literal", 19),
        ("too many digits in sexagesimal literal", 20),
        ("invalid underscore placement in integer field", 21),
        ("too many digits in integer field", 22),
        ("expected digits after decimal point", 26),
        ("expected digits", 23),
        ("numeric field too large", 24),
        ("too many digits in fraction", 25),
    ];
    for (m, c) in T {
        if msg.starts_with(m) {
            return c;
        }
    }
    0
}

thread_local! {
    static LAST_PANIC: RefCell<String> = RefCell::new(String::new());
}

fn panic_site(msg: &str) -> &'static str {
    if msg.contains("is not a char boundary") {
        "str-slice"
    } else if msg.contains("index out of bounds") {
        "index-prev"
    } else if msg.contains("subtract with overflow") {
        "depth-underflow"
    } else if msg.contains("add with overflow") {
        "depth-overflow"
    } else {
        "other"
    }
}

/// Oracle sink: one JSON object per failing case, at most `cap` per id (plus a total per id in meta).
struct Oracle {
    out: std::io::BufWriter<std::fs::File>,
    per_id: std::collections::BTreeMap<String, u64>,
    cap: u64,
    checks: u64,
}
impl Oracle {
    fn new(dir: &str) -> Self {
        std::fs::create_dir_all(dir).unwrap();
        let f = std::fs::File::create(format!("{dir}/robotics.oracle.jsonl")).unwrap();
        Oracle { out: std::io::BufWriter::new(f), per_id: Default::default(), cap: 40, checks: 0 }
    }
    fn fail(&mut self, id: &str, what: &str, input: &str, observed: &str, expected: &str) {
        let n = self.per_id.entry(id.to_string()).or_insert(0);
        *n += 1;
        if *n <= self.cap {
            let shown: String = if input.len() > 300 {
                format!("{}…({} bytes)", &input[..input.char_indices().take_while(|(i, _)| *i < 120).last().map(|(i, c)| i + c.len_utf8()).unwrap_or(0)], input.len())
            } else {
                input.to_string()
            };
            let o = serde_json::json!({"id": id, "what": what, "input": shown, "observed": observed, "expected": expected});
            writeln!(self.out, "{}", o).unwrap();
        }
    }
}

/// Run `f` under catch_unwind + time check; `Err(site)` on panic.
fn guarded<T>(or: &mut Oracle, input: &str, what: &str, f: impl FnOnce() -> T + std::panic::UnwindSafe) -> Result<T, &'static str> {
    or.checks += 1;
    let t0 = std::time::Instant::now();
    let r = std::panic::catch_unwind(f);
    let dt = t0.elapsed();
    // generous: 1 s per MiB of input, at least 2 s (a hang or super-linear work trips this)
    let limit = std::time::Duration::from_millis(2000 + (input.len() as u64) / 1000);
    if dt > limit {
        or.fail("C19-slow-evaluation", what, input, &format!("{} ms", dt.as_millis()), &format!("<= {} ms", limit.as_millis()));
    }
    match r {
        Ok(v) => Ok(v),
        Err(_) => {
            let msg = LAST_PANIC.with(|m| m.borrow().clone());
            let site = panic_site(&msg);
            let id = if site == "str-slice" { "C19-panic-str-slice-char-boundary" } else { "C19-panic-other" };
            or.fail(id, what, input, &format!("panic: {msg}"), "Ok(value) or Err(error) - never a panic");
            Err(site)
        }
    }
}

fn eval64(or: &mut Oracle, s: &str, tag: u8) -> String {
    match guarded(or, s, "parse_yaml12_float_angle_converting::<f64>", || h::eval_expr_f64(s, tag)) {
        Ok(Ok(b)) => format!("ok {}", c64(b)),
        Ok(Err(m)) => format!("err {}", err_code(&m)),
        Err(site) => format!("panic {site}"),
    }
}
fn eval32(or: &mut Oracle, s: &str, tag: u8) -> String {
    match guarded(or, s, "parse_yaml12_float_angle_converting::<f32>", || h::eval_expr_f32(s, tag)) {
        Ok(Ok(b)) => format!("ok {}", c32(b)),
        Ok(Err(m)) => format!("err {}", err_code(&m)),
        Err(site) => format!("panic {site}"),
    }
}
fn site64(or: &mut Oracle, s: &str, tag: u8, angle: bool) -> Result<Option<u64>, &'static str> {
    guarded(or, s, "parse_yaml12_float::<f64>", || h::eval_f64(s, tag, angle)).map(|o| o.map(c64))
}
fn site32(or: &mut Oracle, s: &str, tag: u8, angle: bool) -> Result<Option<u32>, &'static str> {
    guarded(or, s, "parse_yaml12_float::<f32>", || h::eval_f32(s, tag, angle)).map(|o| o.map(c32))
}
fn site_tok<T: std::fmt::Display>(r: &Result<Option<T>, &'static str>) -> String {
    match r {
        Ok(Some(b)) => format!("some {b}"),
        Ok(None) => "none".into(),
        Err(site) => format!("panic {site}"),
    }
}

/* ------------------------------------------------------------------ big decimal helper */

/// little-endian base 10^9
#[derive(Clone)]
struct Big(Vec<u32>);
impl Big {
    fn from_u64(v: u64) -> Big {
        let mut d = vec![];
        let mut v = v;
        while v > 0 {
            d.push((v % 1_000_000_000) as u32);
            v /= 1_000_000_000;
        }
        Big(d)
    }
    fn mul_small(&mut self, x: u32) {
        let mut c = 0u64;
        for w in self.0.iter_mut() {
            let t = *w as u64 * x as u64 + c;
            *w = (t % 1_000_000_000) as u32;
            c = t / 1_000_000_000;
        }
        while c > 0 {
            self.0.push((c % 1_000_000_000) as u32);
            c /= 1_000_000_000;
        }
    }
    fn add_small(&mut self, x: u32) {
        let mut c = x as u64;
        for w in self.0.iter_mut() {
            let t = *w as u64 + c;
            *w = (t % 1_000_000_000) as u32;
            c = t / 1_000_000_000;
            if c == 0 { return; }
        }
        if c > 0 { self.0.push(c as u32); }
    }
    fn digits(&self) -> String {
        if self.0.is_empty() { return "0".into(); }
        let mut s = format!("{}", self.0[self.0.len() - 1]);
        for w in self.0.iter().rev().skip(1) {
            s.push_str(&format!("{:09}", w));
        }
        s
    }
}

/// exact decimal text of `n * 2^e2` (n > 0)
fn exact_decimal(n: u64, e2: i32) -> String {
    let mut b = Big::from_u64(n);
    if e2 >= 0 {
        for _ in 0..e2 { b.mul_small(2); }
        b.digits()
    } else {
        let k = (-e2) as usize;
        for _ in 0..k { b.mul_small(5); }
        let d = b.digits();
        if d.len() > k {
            format!("{}.{}", &d[..d.len() - k], &d[d.len() - k..])
        } else {
            format!("0.{}{}", "0".repeat(k - d.len()), d)
        }
    }
}

/// (m, e) with value = m * 2^e for a finite positive f64
fn decomp64(x: f64) -> (u64, i32) {
    let b = x.to_bits();
    let ex = ((b >> 52) & 0x7ff) as i32;
    let fr = b & ((1u64 << 52) - 1);
    if ex == 0 { (fr, -1074) } else { (fr | (1u64 << 52), ex - 1075) }
}
fn decomp32(x: f32) -> (u64, i32) {
    let b = x.to_bits();
    let ex = ((b >> 23) & 0xff) as i32;
    let fr = (b & ((1u32 << 23) - 1)) as u64;
    if ex == 0 { (fr, -149) } else { (fr | (1u64 << 23), ex - 150) }
}

/// tie between x and the next float above it, as exact decimal text, plus a neighbour just above / below
fn tie_texts(m: u64, e: i32) -> Vec<String> {
    let tie = exact_decimal(2 * m + 1, e - 1);
    let mut v = vec![tie.clone()];
    if tie.contains('.') {
        v.push(format!("{tie}0000000001"));
        // just below: decrement the last digit (the last digit of an exact tie is 5)
        let mut t = tie.clone();
        t.pop();
        v.push(format!("{t}4999999999"));
    } else {
        v.push(format!("{tie}.0000000001"));
        let mut big = Big::from_u64(0);
        // tie - 1 + .9999999: build from the digits
        big.0.clear();
        let _ = &big;
        let mut digits: Vec<u8> = tie.bytes().collect();
        // decrement decimal string
        let mut i = digits.len();
        while i > 0 {
            i -= 1;
            if digits[i] > b'0' { digits[i] -= 1; break; } else { digits[i] = b'9'; }
        }
        v.push(format!("{}.9999999999", String::from_utf8(digits).unwrap()));
    }
    v
}

/* ------------------------------------------------------------------ corpora */

fn boundary_f64() -> Vec<u64> {
    let mut v: Vec<u64> = vec![
        0, 1, 2, 3, 0x000f_ffff_ffff_ffff, 0x0010_0000_0000_0000, 0x0010_0000_0000_0001, 0x001f_ffff_ffff_ffff,
        0x0020_0000_0000_0000, 0x3ff0_0000_0000_0000, 0x3ff0_0000_0000_0001, 0x3fef_ffff_ffff_ffff, 0x4000_0000_0000_0000,
        0x3fe0_0000_0000_0000, 0x3fd5_5555_5555_5555, 0x4008_0000_0000_0000, 0x4024_0000_0000_0000, 0x404e_0000_0000_0000,
        0x40ac_2000_0000_0000, 0x4009_21fb_5444_2d18, 0x3f91_df46_a252_9d39, 0x4340_0000_0000_0000, 0x4340_0000_0000_0001,
        0x433f_ffff_ffff_ffff, 0x7fef_ffff_ffff_ffff, 0x7fe0_0000_0000_0000, 0x7fdf_ffff_ffff_ffff, 0x7ff0_0000_0000_0000,
        0x7ff8_0000_0000_0000, 0x41ef_ffff_ffe0_0000, 0x41f0_0000_0000_0000, 0x3ca0_0000_0000_0000, 0x3cb0_0000_0000_0000,
        0x36a0_0000_0000_0000, 0x3690_0000_0000_0000, 0x369f_ffff_ffff_ffff, 0x47ef_ffff_e000_0000, 0x47ef_ffff_f000_0000,
        0x47ef_ffff_efff_ffff, 0x3810_0000_0000_0000, 0x380f_ffff_ffff_ffff, 0x3ff0_0000_1000_0000, 0x3ff0_0000_3000_0000,
        0x3ff0_0000_1000_0001, 0x3ff0_0000_0fff_ffff, 0x1ff0_0000_0000_0000, 0x5fe0_0000_0000_0000, 0x2000_0000_0000_0000,
    ];
    let neg: Vec<u64> = v.iter().map(|b| b | (1 << 63)).collect();
    v.extend(neg);
    v
}

fn boundary_f32() -> Vec<u32> {
    let mut v: Vec<u32> = vec![
        0, 1, 2, 0x007f_ffff, 0x0080_0000, 0x0080_0001, 0x3f80_0000, 0x3f80_0001, 0x3f7f_ffff, 0x4000_0000, 0x3f00_0000,
        0x4049_0fdb, 0x7f7f_ffff, 0x7f00_0000, 0x7f80_0000, 0x7fc0_0000, 0x4b80_0000, 0x4b7f_ffff, 0x3400_0000, 0x0100_0000,
        0x3eaa_aaab, 0x4120_0000,
    ];
    let neg: Vec<u32> = v.iter().map(|b| b | (1 << 31)).collect();
    v.extend(neg);
    v
}

fn rand_f64_bits(rng: &mut Rng) -> u64 {
    match rng.below(8) {
        0 => rng.next() & 0x800f_ffff_ffff_ffff, // subnormal
        1 => (rng.next() & 0x800f_ffff_ffff_ffff) | ((0x3ff - 30 + rng.below(60) as u64) << 52),
        2 => (rng.next() & 0x8000_0000_0000_0000) | ((rng.below(2047) as u64) << 52) | (rng.below(4) as u64),
        3 => (rng.next() & 0x8000_0000_0000_0000) | ((rng.below(2047) as u64) << 52) | (0x000f_ffff_ffff_ffff - rng.below(4) as u64),
        _ => rng.next(),
    }
}

fn float_literals(rng: &mut Rng, thorough: bool) -> Vec<String> {
    let mut v: Vec<String> = Vec::new();
    for s in [
        "0", "-0", "+0", "0.0", "-0.0", "1", "1.0", "1.", ".5", "-.5", "+.5", "+1.5", "-1.5", "1e3", "1E3", "1e+3", "1e-3",
        ".5e+1", "5.e-1", "1e400", "-1e400", "1e-400", "-1e-400", "4.9e-324", "5e-324", "2.4703282292062327e-324",
        "2.4703282292062328e-324", "2.47032822920623272e-324", "2.2250738585072014e-308", "2.2250738585072011e-308",
        "2.2250738585072012e-308", "1.7976931348623157e308", "1.7976931348623158e308", "1.7976931348623159e308",
        "1.79769313486231580793e308", "1.79769313486231580794e308", "3.4028235e38", "3.4028236e38", "3.4028234e38",
        "3.40282356779733661637539395458142568447e38", "3.40282356779733661637539395458142568448e38",
        "3.40282356779733661637539395458142568449e38", "1.00000005960464477540", "1.0000000596046447754",
        "1.00000005960464477539", "1.00000005960464477541", "1.000000059604644775390625", "1.0000000596046448",
        "1.401298464324817e-45", "7.006492321624085e-46", "7.006492321624086e-46", "7.0064923216240853e-46", "1e-45", "1e-46",
        "0.1", "0.2", "0.3", "0.30000000000000004", "9007199254740993", "9007199254740992", "9007199254740991",
        "9007199254740993.0000000001", "16777217", "16777216", "16777218", "16777217.0000001", "33554435",
        "123456789012345678901234567890", "0.000000000000000000000000000001", "1e22", "1e23", "8.98846567431158e307",
        "0000000000000000000000001.5", "1e0000000000000000000005", "1e99999999999999999999", "1e-99999999999999999999",
        "0e99999999999999999999", "0.0e-99999", "1e65535", "1e-65535", "0.1e1", "100e-2", "6.02214076e23", "6.62607015e-34",
        "3.141592653589793", "3.1415927", "3.14159274101257324", "2.718281828459045", "4294967295", "4294967296", "1e10",
        "00", "007", "0.", ".0", "0e0", "1_000", "1_0.5", "1e1_0", "0x10", "0o7", "1e", "1e+", ".", "e5", ".e5", "1.e", "1..2", "1.2.3",
        "inf", "Inf", "INF", "+inf", "-inf", "infinity", "Infinity", "INFINITY", "-infinity", "+Infinity", "infinit", "infinityy",
        "nan", "NaN", "NAN", "+nan", "-nan", ".inf", ".Inf", ".INF", "+.inf", "-.inf", "-.INF", ".nan", ".NaN", ".NAN", "+.nan", "-.nan",
        ".infinity", ".nano", "..inf", "", " ", "+", "-", "+-1", "--1", "1 ", " 1", "\t1.5\n", "\u{a0}1.5", "1.5\u{a0}", "\u{b}1.5",
        "1.5\u{c}", "\u{2003}2.5\u{2003}", "\u{feff}1.5", "1.5\u{85}", " .inf ", "\u{a0}.nan", "1:30", "1:30:15.5", "pi", "1 + 1",
        "٣", "１", "1é", "12é", "1.5é",
    ] {
        v.push(s.to_string());
    }
    v.push(format!("0.{}1", "0".repeat(400)));
    v.push(format!("1{}", "0".repeat(400)));
    v.push(format!("1{}e-400", "0".repeat(400)));
    v.push(format!("0.{}1e400", "0".repeat(399)));
    v.push(format!("{}e-790", "1234567890".repeat(80)));
    v.push(format!("0.{}", "3".repeat(900)));
    v.push(format!("{}.{}", "9".repeat(330), "9".repeat(30)));
    v.push("179769313486231580793728971405303415079934132710037826936173778980444968292764750946649017977587207096330286416692887910946555547851940402630657488671505820681908902000708383676273854845817711531764475730270069855571366959622842914819860834936475292719074168444365510704342711559699508093042880177904174497792".to_string());
    v.push("179769313486231580793728971405303415079934132710037826936173778980444968292764750946649017977587207096330286416692887910946555547851940402630657488671505820681908902000708383676273854845817711531764475730270069855571366959622842914819860834936475292719074168444365510704342711559699508093042880177904174497791.9999".to_string());

    let n = if thorough { 6000 } else { 700 };
    for _ in 0..n {
        let x = f64::from_bits(rand_f64_bits(rng));
        if x.is_finite() {
            v.push(format!("{}", x));
            v.push(format!("{:e}", x));
            v.push(format!("{:.20e}", x));
            v.push(format!("{:.*e}", rng.below(30), x));
        }
        let y = f32::from_bits(rng.next() as u32);
        if y.is_finite() {
            v.push(format!("{}", y));
            v.push(format!("{:e}", y));
            v.push(format!("{:.25e}", y));
        }
    }
    // ties of binary32 (exactly representable in binary64): double rounding shows here
    for _ in 0..(if thorough { 3000 } else { 400 }) {
        let bits = (rng.next() as u32) & 0x7fff_ffff;
        let y = f32::from_bits(bits);
        if !y.is_finite() || bits >= 0x7f7f_ffff { continue; }
        let (m, e) = decomp32(y);
        if e < -100 || e > 60 { if !rng.chance(1, 8) { continue; } }
        for t in tie_texts(m, e) {
            if t.len() < 700 { v.push(t); }
        }
    }
    // ties of binary64
    for _ in 0..(if thorough { 2000 } else { 250 }) {
        let bits = rand_f64_bits(rng) & 0x7fff_ffff_ffff_ffff;
        let x = f64::from_bits(bits);
        if !x.is_finite() || bits >= 0x7fef_ffff_ffff_ffff { continue; }
        let (m, e) = decomp64(x);
        if e < -200 || e > 100 { if !rng.chance(1, 6) { continue; } }
        for t in tie_texts(m, e) {
            if t.len() < 1200 { v.push(t); }
        }
    }
    // boundary floats: shortest text, and the exact text
    for b in boundary_f64() {
        let x = f64::from_bits(b);
        if x.is_finite() {
            v.push(format!("{}", x));
            v.push(format!("{:e}", x));
            if x > 0.0 {
                let (m, e) = decomp64(x);
                if m > 0 && e > -300 && e < 300 { v.push(exact_decimal(m, e)); }
            }
        }
    }
    for b in boundary_f32() {
        let x = f32::from_bits(b);
        if x.is_finite() {
            v.push(format!("{}", x));
            v.push(format!("{:e}", x));
        }
    }
    // sign / case / whitespace variants of a sample
    let m = v.len();
    for _ in 0..(if thorough { 3000 } else { 500 }) {
        let s = v[rng.below(m)].clone();
        match rng.below(6) {
            0 => v.push(format!("-{s}")),
            1 => v.push(format!("+{s}")),
            2 => v.push(s.to_uppercase()),
            3 => v.push(format!(" {s} ")),
            4 => {
                let a: &str = ["\t", "\n", "\r", "\u{a0}", "\u{3000}", "\u{c}"][rng.below(6)];
                let b: &str = ["", " ", "\u{2028}"][rng.below(3)];
                v.push(format!("{a}{s}{b}"));
            }
            _ => {
                let mut t: Vec<char> = s.chars().collect();
                if !t.is_empty() {
                    let i = rng.below(t.len() + 1);
                    t.insert(i, *rng.pick(&['_', '.', 'e', '0', '-', ' ']));
                }
                v.push(t.iter().collect());
            }
        }
    }
    let mut seen = BTreeSet::new();
    v.retain(|s| seen.insert(s.clone()));
    v
}

/* ------------------------------------------------------------------ expression grammar */

fn ws(rng: &mut Rng) -> &'static str {
    match rng.below(16) {
        0..=8 => "",
        9..=11 => " ",
        12 => "\t",
        13 => "\n",
        14 => "  ",
        _ => *rng.pick(&["\r", "\u{a0}", "\u{b}", " \t "]),
    }
}

fn rand_case(rng: &mut Rng, w: &str) -> String {
    match rng.below(4) {
        0 => w.to_uppercase(),
        1 => w.chars().map(|c| if rng.chance(1, 2) { c.to_ascii_uppercase() } else { c }).collect(),
        _ => w.to_string(),
    }
}

fn digits(rng: &mut Rng, min: usize, max: usize, unders: bool) -> String {
    let n = min + rng.below(max - min + 1);
    let mut s = String::new();
    for i in 0..n {
        s.push((b'0' + rng.below(10) as u8) as char);
        if unders && i + 1 < n && rng.chance(1, 5) {
            s.push('_');
        }
    }
    s
}

fn gen_number(rng: &mut Rng) -> String {
    if rng.chance(1, 14) {
        return rng.pick(&["1__0", "1_", "_1", "1._5", "1_.5", "1e_5", "1e5_", "1e", "1e+", ".", "._5", ".e5", "1.e5", "1.5.5", "0x10", "1e1e1", "1_e5", "5_:30", "1.5:30"]).to_string();
    }
    let u = rng.chance(1, 3);
    let mut s = String::new();
    let with_int = rng.chance(7, 8);
    if with_int {
        { let mx = if rng.chance(1, 10) { 25 } else { 5 }; s.push_str(&digits(rng, 1, mx, u)); }
    }
    if !with_int || rng.chance(1, 2) {
        s.push('.');
        if !with_int || rng.chance(5, 6) {
            { let mx = if rng.chance(1, 10) { 25 } else { 5 }; s.push_str(&digits(rng, 1, mx, u)); }
        }
    }
    if rng.chance(1, 4) {
        s.push(*rng.pick(&['e', 'E']));
        s.push_str(["", "+", "-"][rng.below(3)]);
        let big = rng.chance(1, 12);
        { let mx = if big { 4 } else { 2 }; s.push_str(&digits(rng, 1, mx, u)); }
    }
    s
}

fn gen_sexagesimal(rng: &mut Rng) -> String {
    if rng.chance(1, 12) {
        return rng.pick(&["1:", "1:60", "1:2:60", "1:_5", "1_:5", "1:5_", "1:2:3.", "1:2:3._5", "1:2:3.5_", "1:2.5", "1::2", ":30", "1:4294967296", "1:4294967295", "1:99999999999999999999", "1:2:4294967297", "1:2:3:4", "1:-2", "1: 2"]).to_string();
    }
    let u = rng.chance(1, 4);
    let mut s = if rng.chance(1, 20) { digits(rng, 300, 420, false) } else { digits(rng, 1, 4, u) };
    s.push(':');
    s.push_str(&if rng.chance(1, 8) { digits(rng, 1, 3, u) } else { format!("{}", rng.below(60)) });
    if rng.chance(2, 3) {
        s.push(':');
        s.push_str(&if rng.chance(1, 8) { digits(rng, 1, 3, u) } else { format!("{:02}", rng.below(60)) });
        if rng.chance(1, 2) {
            s.push('.');
            let mx = if rng.chance(1, 6) { 30 } else { 6 };
            s.push_str(&digits(rng, 1, mx, u));
        }
    }
    s
}

fn gen_primary(rng: &mut Rng, depth: usize) -> String {
    let k = rng.below(20);
    match k {
        0..=7 => gen_number(rng),
        8..=10 => {
            let w: &str = ["pi", "tau", "inf", "nan", ".inf", ".nan", "pi", "tau"][rng.below(8)];
            rand_case(rng, w)
        }
        11 => ["infinity", "foo", "pi2", "_", "e", "deg", "rad", "p", "π", "degrees", "1pi", "é"][rng.below(12)].to_string(),
        12 | 13 => gen_sexagesimal(rng),
        14 | 15 | 16 if depth > 0 => format!("({}{}{})", ws(rng), gen_expr(rng, depth - 1), ws(rng)),
        17 | 18 | 19 if depth > 0 => {
            let w: &str = ["deg", "rad"][rng.below(2)];
            let f = rand_case(rng, w);
            format!("{f}{}({}{}{})", ws(rng), ws(rng), gen_expr(rng, depth - 1), ws(rng))
        }
        _ => gen_number(rng),
    }
}

fn gen_unary(rng: &mut Rng, depth: usize) -> String {
    let mut s = String::from(ws(rng));
    let n = if rng.chance(1, 3) { 1 + rng.below(3) } else { 0 };
    for _ in 0..n {
        s.push(*rng.pick(&['-', '-', '+']));
    }
    s.push_str(ws(rng));
    s.push_str(&gen_primary(rng, depth));
    s
}

fn gen_term(rng: &mut Rng, depth: usize) -> String {
    let mut s = gen_unary(rng, depth);
    let n = if rng.chance(2, 5) { 1 + rng.below(3) } else { 0 };
    for _ in 0..n {
        s.push_str(ws(rng));
        s.push(*rng.pick(&['*', '/']));
        s.push_str(&gen_unary(rng, depth));
    }
    s
}

fn gen_expr(rng: &mut Rng, depth: usize) -> String {
    let mut s = gen_term(rng, depth);
    let n = if rng.chance(2, 5) { 1 + rng.below(3) } else { 0 };
    for _ in 0..n {
        s.push_str(ws(rng));
        s.push(*rng.pick(&['+', '-']));
        s.push_str(&gen_term(rng, depth));
    }
    s
}

fn fixed_expressions() -> Vec<String> {
    let mut v: Vec<String> = [
        "0.15", "-1", "1e-3", ".5", "10.", "  42  ", ".inf", "+.inf", "-.inf", ".nan", "-.NaN", "+.nAn", "inf", "+INF", "-InF", "nan",
        "-NaN", "pi", "PI", "tau", "TAU", "2*pi", "pi/2", "1 + 2*(3 - 4/5)", "  3 + 4*2 / (1 - 5) ", "1_000.0", "0.1_5", "1e1_0",
        "1__0", "1_", "1._0", "1e_10", "90:0:0", "180:0", " -0:30:30.5 ", "deg(1:2:3)", "--1", "-- 1", "3--2", "3-+2", "- -1", "-(-1)",
        "deg(180)", "deg(90+45)", "rad(2*pi)", "deg ( 180 )", "rad( (pi) )", "deg( (45 + 45) )", "rad( 2 * (pi/2) )", "180", "-90",
        "3.141592653589793", "30:0:0 + 90", "deg(90) + 90", "rad(1) + pi/2", "deg(30:0:0) + 0.001", "1/0", "-1/0", "0/0", "nan + 1",
        "inf - inf", "0*inf", "1e308*10", "-1e308*10", "1e-320/1e10", "1e3", "1E-3", ".5e+1", "1e400", "1 2", "1pi", "1e", "1e+", ".", "foo",
        "10:60", "(", "(1+2", "deg(90", "deg 90)", "rad)", "deg()", "deg(1)", "rad(1)", "deg(deg(1))", "deg(rad(1))", "rad(deg(180))",
        "deg(1)+deg(2)", "deg(1)*2", "2*deg(1)", "deg(1:30)", "rad(1:30)", "1:30*2", "1:30+1", "-1:30", "(1:30)", "deg((1:30))", "deg(1)+1:30",
        "1-2-3", "1-(2-3)", "8/4/2", "8/(4/2)", "2*3+4", "2+3*4", "2*(3+4)", "-2*-3", "1--1", "1+-+-1", "0.1+0.2", "0.1+0.2-0.3", "1e16+1",
        "1e16+1+1", "1+1+1e16", "3*0.1", "0.3/0.1", "1/3", "2/3", "1/3*3", "pi*pi", "tau/pi", "-0", "0*-1", "-0+0", "0-0", "-0-0", "-(0)", "- 0",
        "1 +", "+", "-", "*1", "1*", "1/", "()", "(())", "1()", "(1)(2)", "1 (2)", "pi pi", "deg", "deg(", "deg(1", "deg(1))", "rad", "inf(1)",
        "pi(1)", "Deg(1)", "DEG(1)", "dEg(1)", "RAD(PI)", "degg(1)", "de(1)", "deg_(1)", "_deg(1)", "deg1(1)", "1deg", "1.inf", "1.nan", ".infx",
        ".inf1", ".nanny", ".infinity", ".in", ".na", ".i", "..", ".5.5", "1.5.", "1:2", "01:02:03", "1:2:3.123456789012345678", "1:2:3.1234567890123456789",
        "1:2:3.12345678901234567890123", "1:59:59.999", "0:0", "0:0:0", "0:0:0.0", "00:00", "4294967295:0", "99999999999999999999:1", "1:2:",
        "1:2:3:", "1e5:30", "1.:30", "1_0:3_0", "1_0:3__0", "1__0:30", "123é", ".abé", "12€", "1😀", "1é", "12é", "1:2é", "(1)é", "pié", "2*1234é",
        "2*123é", "é", "é1", "1+é", "deg(é)", "deg(123é)", ".iné", ".inf é", ".inf", ".infé", "1.5é", "1234é", "12345é", "1 é", "  123é",
        "1.00000005960464477540", "infinity", "Infinity", "-infinity", "1_000", "1_0e1_0", "\u{a0}1", "1\u{a0}", "\u{b}1", "1\u{c}", "\r1\r", "\n1\n",
    ].iter().map(|s| s.to_string()).collect();
    // nesting around the depth limit
    for n in [1usize, 2, 10, 100, 254, 255, 256, 257, 258, 300, 1000] {
        v.push(format!("{}1{}", "(".repeat(n), ")".repeat(n)));
        v.push(format!("{}1{}", "( ".repeat(n), " )".repeat(n)));
        v.push(format!("{}1{}", "deg(".repeat(n), ")".repeat(n)));
        v.push(format!("{}1{}", "rad(-(".repeat(n / 2), "))".repeat(n / 2)));
        v.push(format!("{}1{}", "(".repeat(n), ")".repeat(n.saturating_sub(1))));
        v.push(format!("{}1", "(".repeat(n)));
        v.push(format!("{}1{}+1", "(".repeat(n), ")".repeat(n)));
        v.push(format!("1+{}1{}", "(".repeat(n), ")".repeat(n)));
        v.push(format!("{}1{}", "(1+".repeat(n), ")".repeat(n)));
        v.push(format!("{}1{}", "(".repeat(n), "+1)".repeat(n)));
        v.push(format!("{}1{}", "(1*(".repeat(n / 2), "))".repeat(n / 2)));
    }
    // sibling parentheses do not accumulate depth
    v.push(vec!["(1)"; 600].join("+"));
    v.push(vec!["((1))"; 300].join("*"));
    v.push(format!("{}{}", "(".repeat(256), "1") + &")".repeat(256) + "+" + &"(".repeat(256) + "1" + &")".repeat(256));
    // long flat expressions, long sign chains, long whitespace
    v.push(vec!["1"; 3000].join("+"));
    v.push(vec!["1.5"; 2000].join(" * "));
    v.push(vec!["2"; 1100].join("*"));
    v.push(vec!["2"; 1100].join("/"));
    v.push(format!("{}1", "-".repeat(2001)));
    v.push(format!("{}1", "-".repeat(2000)));
    v.push(format!("{}1", "+-".repeat(999)));
    v.push(format!("{}1{}", " ".repeat(3000), "\t".repeat(3000)));
    v.push(format!("1{}", "_1".repeat(1500)));
    v.push(format!("1.{}", "0_".repeat(1500) + "1"));
    v.push(format!("1e{}5", "0".repeat(2000)));
    v.push(format!("{}:30", "9".repeat(2000)));
    v.push(format!("1:2:3.{}", "7".repeat(2500)));
    v.push(format!("{}", "pi".repeat(500)));
    v.push(format!("{}(1)", "deg".repeat(400)));
    v
}

fn mutate(rng: &mut Rng, s: &str) -> String {
    let alpha: Vec<char> = "0123456789._:eE+-*/() \tpPiItaudgrnf_é€".chars().collect();
    let mut t: Vec<char> = s.chars().collect();
    match rng.below(4) {
        0 if !t.is_empty() => { let i = rng.below(t.len()); t[i] = *rng.pick(&alpha); }
        1 => { let i = rng.below(t.len() + 1); t.insert(i, *rng.pick(&alpha)); }
        2 if !t.is_empty() => { let i = rng.below(t.len()); t.remove(i); }
        _ if t.len() > 1 => { let i = rng.below(t.len() - 1); t.swap(i, i + 1); }
        _ => {}
    }
    t.iter().collect()
}

fn exhaustive(alpha: &[&str], maxlen: usize, out: &mut Vec<String>) {
    let mut cur: Vec<String> = vec![String::new()];
    for _ in 0..maxlen {
        let mut next = Vec::with_capacity(cur.len() * alpha.len());
        for c in &cur {
            for a in alpha {
                let mut s = c.clone();
                s.push_str(a);
                next.push(s);
            }
        }
        out.extend(next.iter().cloned());
        cur = next;
    }
}

/* ------------------------------------------------------------------ main */

pub fn run(mode: &str, a: &Args) -> i32 {
    match mode {
        "gen" => generate(a),
        "deep" => deep_child(),
        _ => { eprintln!("robotics: unknown mode {mode}"); 2 }
    }
}

/// child process of the deep family: prints `start <name>` before and `case <name> <result>` after every evaluation
fn deep_child() -> i32 {
    let h = std::thread::Builder::new().stack_size(8 << 20).spawn(|| {
        let n = 300_000usize;
        let cases: Vec<(&str, String)> = vec![
            ("minus-signs", format!("{}1.5", "-".repeat(n))),
            ("plus-signs", format!("{}2", "+".repeat(n))),
            ("mixed-signs", format!("{}3", "-+".repeat(n / 2))),
            ("spaced-signs", format!("{}4", "- ".repeat(n / 2))),
            ("sum-chain", format!("1{}", "+1".repeat(n / 2))),
            ("product-chain", format!("1{}", "*1".repeat(n / 2))),
            ("sub-div-chain", format!("1{}", "-1/1".repeat(n / 4))),
            ("signed-terms", format!("1{}", "+-1".repeat(n / 3))),
            ("open-parens", "(".repeat(n)),
            ("nested-parens", format!("{}1{}", "(".repeat(n / 2), ")".repeat(n / 2))),
            ("deg-nest", format!("{}1{}", "deg(".repeat(n / 4), ")".repeat(n / 4))),
            ("digits", "7".repeat(n)),
            ("fraction-digits", format!("0.{}", "3".repeat(n))),
            ("sexagesimal-run", format!("1{}", ":30".repeat(n / 3))),
            ("underscores", format!("1{}", "_0".repeat(n / 2))),
            ("blanks", format!("{}1{}", " ".repeat(n / 2), " ".repeat(n / 2))),
            ("identifier", "p".repeat(n)),
        ];
        for (name, text) in &cases {
            for tag in [0u8, 11, 12] {
                println!("start {name} tag={tag} len={}", text.len());
                let r64 = h::eval_expr_f64(text, tag);
                let r32 = h::eval_f32(text, tag, true);
                println!("case {name} tag={tag} {} {}", if r64.is_ok() { "ok" } else { "err" }, if r32.is_some() { "ok" } else { "err" });
            }
        }
    }).unwrap();
    if h.join().is_err() { return 3; }
    0
}

fn nontrivial_expr(s: &str) -> bool {
    s.bytes().any(|c| matches!(c, b'*' | b'/' | b'(' | b':')) || s.trim().bytes().skip(1).any(|c| matches!(c, b'+' | b'-') ) && !s.contains(['e', 'E'])
        || s.to_ascii_lowercase().contains("pi") || s.to_ascii_lowercase().contains("tau")
}

fn generate(a: &Args) -> i32 {
    std::panic::set_hook(Box::new(|info| {
        let msg = if let Some(s) = info.payload().downcast_ref::<&str>() {
            s.to_string()
        } else if let Some(s) = info.payload().downcast_ref::<String>() {
            s.clone()
        } else {
            "<non-string panic payload>".to_string()
        };
        LAST_PANIC.with(|m| *m.borrow_mut() = msg);
    }));
    let mut rng = Rng::new(a.seed);
    let mut sink = Sink::new(&a.out, "robotics");
    let mut or = Oracle::new(&a.out);
    let th = a.thorough;

    /* ---- 1. the IEEE model against the hardware */
    let bnd = boundary_f64();
    let mut pairs: Vec<(u64, u64)> = Vec::new();
    for x in &bnd { for y in &bnd { pairs.push((*x, *y)); } }
    for _ in 0..(if th { 200_000 } else { 12_000 }) {
        let x = rand_f64_bits(&mut rng);
        let y = match rng.below(4) {
            0 => {
                // close exponent (cancellation / alignment)
                let ex = ((x >> 52) & 0x7ff) as i64 + rng.below(121) as i64 - 60;
                (rng.next() & 0x800f_ffff_ffff_ffff) | ((ex.clamp(0, 2046) as u64) << 52)
            }
            1 => *rng.pick(&bnd),
            2 => x ^ (1 << 63) ^ (rng.below(3) as u64),
            _ => rand_f64_bits(&mut rng),
        };
        pairs.push((x, y));
    }
    for (x, y) in &pairs {
        let (fx, fy) = (f64::from_bits(*x), f64::from_bits(*y));
        let (cx, cy) = (c64(*x), c64(*y));
        sink.case(&format!("robotics fadd {cx} {cy}"), &c64((fx + fy).to_bits()).to_string());
        sink.case(&format!("robotics fsub {cx} {cy}"), &c64((fx - fy).to_bits()).to_string());
        sink.case(&format!("robotics fmul {cx} {cy}"), &c64((fx * fy).to_bits()).to_string());
        sink.case(&format!("robotics fdiv {cx} {cy}"), &c64((fx / fy).to_bits()).to_string());
        sink.count("ieee.f64.binop4");
        if !fx.is_nan() && !fy.is_nan() {
            sink.case(&format!("robotics gt {cx} {cy}"), b(fx > fy));
        }
    }
    let bnd32 = boundary_f32();
    let mut pairs32: Vec<(u32, u32)> = Vec::new();
    for x in &bnd32 { for y in &bnd32 { pairs32.push((*x, *y)); } }
    for _ in 0..(if th { 50_000 } else { 3_000 }) {
        let x = rng.next() as u32;
        let y = if rng.chance(1, 3) {
            let ex = ((x >> 23) & 0xff) as i64 + rng.below(61) as i64 - 30;
            ((rng.next() as u32) & 0x807f_ffff) | ((ex.clamp(0, 254) as u32) << 23)
        } else { rng.next() as u32 };
        pairs32.push((x, y));
    }
    for (x, y) in &pairs32 {
        let (fx, fy) = (f32::from_bits(*x), f32::from_bits(*y));
        let (cx, cy) = (c32(*x), c32(*y));
        sink.case(&format!("robotics fadd32 {cx} {cy}"), &c32((fx + fy).to_bits()).to_string());
        sink.case(&format!("robotics fsub32 {cx} {cy}"), &c32((fx - fy).to_bits()).to_string());
        sink.case(&format!("robotics fmul32 {cx} {cy}"), &c32((fx * fy).to_bits()).to_string());
        sink.case(&format!("robotics fdiv32 {cx} {cy}"), &c32((fx / fy).to_bits()).to_string());
        sink.count("ieee.f32.binop4");
    }
    // unary: neg, narrowing (incl. binary32 ties and their neighbours), widening, `as u32`, u32 -> f64
    let mut un: Vec<u64> = bnd.clone();
    for _ in 0..(if th { 100_000 } else { 6_000 }) { un.push(rand_f64_bits(&mut rng)); }
    for _ in 0..(if th { 100_000 } else { 6_000 }) {
        let y = f32::from_bits((rng.next() as u32) & 0xff7f_ffff);
        let up = f32::from_bits(y.to_bits().wrapping_add(1));
        if !y.is_finite() || !up.is_finite() { continue; }
        let mid = (y as f64 + up as f64) / 2.0;
        un.push(mid.to_bits());
        un.push(mid.to_bits() + 1);
        un.push(mid.to_bits().wrapping_sub(1));
    }
    for x in [3.4028234663852886e38f64, 3.4028235677973366e38, 3.4028235677973362e38, 3.402823567797337e38, 1.401298464324817e-45,
              7.006492321624085e-46, 7.006492321624086e-46, 7.006492321624084e-46, 1.1754943508222875e-38, 1.1754942807573643e-38,
              1.1754943157898259e-38, 4294967295.0, 4294967296.0, 4294967295.5, 4294967294.999, 0.999, 59.0, 59.5, 60.0, 1e300] {
        un.push(x.to_bits());
        un.push((-x).to_bits());
    }
    for x in &un {
        let fx = f64::from_bits(*x);
        let cx = c64(*x);
        sink.case(&format!("robotics fneg {cx}"), &c64((-fx).to_bits()).to_string());
        sink.case(&format!("robotics narrow {cx}"), &c32((fx as f32).to_bits()).to_string());
        sink.case(&format!("robotics tou32 {cx}"), &(fx as u32).to_string());
        sink.count("ieee.unary");
    }
    for x in bnd32.iter().copied().chain((0..(if th { 20_000 } else { 2_000 })).map(|_| rng.next() as u32)) {
        let fx = f32::from_bits(x);
        sink.case(&format!("robotics widen {}", c32(x)), &c64((fx as f64).to_bits()).to_string());
    }
    for n in [0u32, 1, 9, 10, 59, 60, 3600, 180, 4294967295, 4294967294, 16777217, 2147483648] {
        sink.case(&format!("robotics u32tof {n}"), &(n as f64).to_bits().to_string());
    }
    for _ in 0..300 {
        let n = rng.next() as u32;
        sink.case(&format!("robotics u32tof {n}"), &(n as f64).to_bits().to_string());
    }

    /* ---- 2. float literals: Rust `str::parse`, and the call site with the option off / on */
    let lits = float_literals(&mut rng, th);
    let mut lit_accept = 0u64;
    for t in &lits {
        let hx = hex(t);
        let d64 = t.parse::<f64>().ok().map(|v| c64(v.to_bits()));
        let d32 = t.parse::<f32>().ok().map(|v| c32(v.to_bits()));
        sink.case(&format!("robotics dec64 {hx}"), &opt(&d64, |v| v.to_string()));
        sink.case(&format!("robotics dec32 {hx}"), &opt(&d32, |v| v.to_string()));
        sink.count(if d64.is_some() { "lit.parse.accept" } else { "lit.parse.reject" });
        let tags: &[u8] = if rng.chance(1, 6) { &[0, 11, 12] } else { &[0] };
        for tag in tags {
            let off64 = site64(&mut or, t, *tag, false);
            let on64 = site64(&mut or, t, *tag, true);
            let off32 = site32(&mut or, t, *tag, false);
            let on32 = site32(&mut or, t, *tag, true);
            sink.case(&format!("robotics f64 {tag} 0 {hx}"), &site_tok(&off64));
            sink.case(&format!("robotics f64 {tag} 1 {hx}"), &site_tok(&on64));
            sink.case(&format!("robotics f32 {tag} 0 {hx}"), &site_tok(&off32));
            sink.case(&format!("robotics f32 {tag} 1 {hx}"), &site_tok(&on32));
            if *tag == 11 { continue; }
            // oracle: what the plain path accepts keeps its value when the option is switched on
            or.checks += 2;
            if let (Ok(Some(v0)), Ok(on)) = (&off64, &on64) {
                lit_accept += 1;
                match on {
                    Some(v1) if v1 == v0 => sink.count("lit.f64.same"),
                    other => {
                        let id = classify_change(t, other.is_some());
                        sink.count(&format!("lit.f64.{id}"));
                        or.fail(&format!("C19-f64-{id}"), "f64: option off accepts the text; option on must give the same bits", t,
                                &format!("on: {other:?}"), &format!("off: Some({v0})"));
                    }
                }
            } else if let (Ok(None), Ok(Some(_))) = (&off64, &on64) {
                sink.count("lit.f64.extension-only");
            }
            if let (Ok(Some(v0)), Ok(on)) = (&off32, &on32) {
                match on {
                    Some(v1) if v1 == v0 => sink.count("lit.f32.same"),
                    Some(v1) => {
                        sink.count("lit.f32.double-rounding");
                        or.fail("C19-f32-double-rounding", "f32: option on parses as f64 and narrows (two roundings); option off rounds the decimal once", t,
                                &format!("on: Some({v1})"), &format!("off: Some({v0})"));
                    }
                    None => {
                        let id = classify_change(t, false);
                        sink.count(&format!("lit.f32.{id}"));
                        or.fail(&format!("C19-f32-{id}"), "f32: option off accepts the text; option on must give the same bits", t,
                                "on: None", &format!("off: Some({v0})"));
                    }
                }
            }
        }
    }
    // oracle only: the digit cap (a literal with more than MAX_NUM_DIGITS digits) and a literal exactly at the cap
    {
        for (n, frac) in [(1_000_000usize, false), (1_000_001, false), (1_000_001, true)] {
            let t = if frac { format!("0.{}", "1".repeat(n - 1)) } else { "1".repeat(n) };
            let off = site64(&mut or, &t, 0, false);
            let on = site64(&mut or, &t, 0, true);
            or.checks += 1;
            if let (Ok(Some(v0)), Ok(on)) = (&off, &on) {
                if *on != Some(*v0) {
                    sink.count("lit.f64.digit-cap");
                    or.fail("C19-f64-digit-cap", "f64: a literal with more than MAX_NUM_DIGITS digits is accepted by the plain path but rejected with the option on", &t,
                            &format!("on: {on:?}"), &format!("off: Some({v0})"));
                } else {
                    sink.count("lit.f64.same");
                }
            }
        }
    }

    /* ---- 3. expressions */
    let mut exprs: Vec<String> = fixed_expressions();
    let n_fixed = exprs.len();
    for _ in 0..(if th { 60_000 } else { 6_000 }) {
        let d = rng.below(4);
        let e = format!("{}{}{}", ws(&mut rng), gen_expr(&mut rng, d), ws(&mut rng));
        if e.len() < 600 { exprs.push(e); }
    }
    let n_gram = exprs.len();
    for _ in 0..(if th { 40_000 } else { 4_000 }) {
        let s = exprs[rng.below(n_gram)].clone();
        if s.len() < 600 {
            let m = mutate(&mut rng, &s);
            exprs.push(if rng.chance(1, 3) { mutate(&mut rng, &m) } else { m });
        }
    }
    // literals are expressions too
    for t in &lits {
        if t.len() < 200 && rng.chance(1, 4) { exprs.push(t.clone()); }
    }
    let n_random = exprs.len();
    // exhaustive: all strings up to length 3 (quick) / 4 (thorough) over 21 symbols,
    // up to length 4 / 5 over 12 symbols, all sequences of up to 3 / 4 tokens
    let big: [&str; 21] = ["1", "6", "0", ".", ":", "_", "e", "+", "-", "*", "/", "(", ")", " ", "p", "i", "n", "f", "a", "é", "d"];
    let small: [&str; 12] = ["1", ".", ":", "_", "e", "+", "-", "*", "(", ")", " ", "5"];
    let toks: [&str; 18] = ["1", "2.5", "pi", "deg(", "rad(", "(", ")", "+", "-", "*", "/", " ", "1:30", "inf", ".nan", "1_0", "e3", "é"];
    let mut ex: Vec<String> = Vec::new();
    exhaustive(&big, if th { 4 } else { 3 }, &mut ex);
    exhaustive(&small, if th { 5 } else { 4 }, &mut ex);
    exhaustive(&toks, if th { 4 } else { 3 }, &mut ex);
    let n_ex = ex.len();
    let mut seen: BTreeSet<String> = exprs.iter().cloned().collect();
    for s in ex { if seen.insert(s.clone()) { exprs.push(s); } }
    drop(seen);

    let mut accepted: BTreeSet<(u8, String)> = BTreeSet::new();
    for (idx, s) in exprs.iter().enumerate() {
        let hx = hex(s);
        let tags: Vec<u8> = if idx < n_fixed { TAGS.to_vec() }
            else if idx < n_random { let t = *rng.pick(&TAGS); if t == 0 { vec![0] } else { vec![0, t] } }
            else { vec![*rng.pick(&[0u8, 11, 12, 7])] };
        for tag in tags {
            let r = eval64(&mut or, s, tag);
            sink.count(&format!("eval.{}", r.split(' ').next().unwrap_or("")));
            if let Some(code) = r.strip_prefix("err ") { sink.count(&format!("eval.err.{code}")); }
            if r.starts_with("ok") && nontrivial_expr(s) { accepted.insert((tag, s.clone())); }
            sink.case(&format!("robotics eval {tag} {hx}"), &r);
            if idx < n_random && (idx < n_fixed || idx % 4 == 0) {
                let r32 = eval32(&mut or, s, tag);
                sink.case(&format!("robotics eval32 {tag} {hx}"), &r32);
            }
            // call site consistency (implementation only): with the option on the result is the plain reading
            // when that succeeds and the tag is not !degrees, the evaluator otherwise
            if idx < n_random && idx % 3 == 0 {
                or.checks += 1;
                let on = site64(&mut or, s, tag, true);
                let off = site64(&mut or, s, tag, false);
                let exp: Option<String> = match (&off, tag) {
                    (Ok(Some(v)), t) if t != 11 => Some(v.to_string()),
                    _ => r.strip_prefix("ok ").map(|x| x.to_string()),
                };
                let got = match &on { Ok(Some(v)) => Some(v.to_string()), _ => None };
                let fast = matches!((&off, tag), (Ok(Some(_)), t) if t != 11);
                if (fast || !r.starts_with("panic")) && exp != got {
                    or.fail("C19-call-site-differs", "parse_yaml12_float(.., angle_conversions = true) must be the plain reading (tag != !degrees) or else the evaluator", s,
                            &format!("{on:?}"), &format!("plain: {off:?}, evaluator: {r}"));
                }
            }
        }
    }
    // the digit caps (MAX_NUM_DIGITS): one token just above the cap per check site
    for s in [
        "1".repeat(1_000_001),
        format!("0.{}", "1".repeat(1_000_000)),
        format!("1e{}", "0".repeat(1_000_000)),
        format!("1:{}", "1".repeat(1_000_001)),
        format!("{}:00", "1".repeat(999_999)),
        format!("1:2:3.{}", "1".repeat(1_000_001)),
    ] {
        let r = eval64(&mut or, &s, 0);
        sink.count(&format!("eval.{}", r.split(' ').next().unwrap_or("")));
        if let Some(code) = r.strip_prefix("err ") { sink.count(&format!("eval.err.{code}")); }
        sink.case(&format!("robotics eval 0 {}", hex(&s)), &r);
    }
    // end to end through the public API (deserialize_f64 / f32 with Options::angle_conversions)
    {
        #[derive(serde::Deserialize)]
        struct D { x: f64 }
        #[derive(serde::Deserialize)]
        struct S { x: f32 }
        let cases: [&str; 12] = ["1.5", "2*pi", "deg(180)", "1 + 2*(3 - 4/5)", "1:30", "1.00000005960464477540", "infinity", "1_000", "123é", ".inf", "-.5e1", "rad(1) + 1"];
        for body in cases {
            for (tagtxt, tag) in [("", 0u8), ("!degrees ", 11), ("!radians ", 12)] {
                let doc = format!("x: {tagtxt}{body}\n");
                for angle in [false, true] {
                    let d = doc.clone();
                    let r64 = guarded(&mut or, &doc, "from_str_with_options::<struct{x: f64}>", move || {
                        let o = serde_saphyr::Options { angle_conversions: angle, ..Default::default() };
                        serde_saphyr::from_str_with_options::<D>(&d, o).ok().map(|v| c64(v.x.to_bits()))
                    });
                    let d = doc.clone();
                    let r32 = guarded(&mut or, &doc, "from_str_with_options::<struct{x: f32}>", move || {
                        let o = serde_saphyr::Options { angle_conversions: angle, ..Default::default() };
                        serde_saphyr::from_str_with_options::<S>(&d, o).ok().map(|v| c32(v.x.to_bits()))
                    });
                    let hk64 = site64(&mut or, body, tag, angle);
                    let hk32 = site32(&mut or, body, tag, angle);
                    or.checks += 2;
                    sink.count("api.end-to-end");
                    if r64.is_ok() && r64 != hk64 {
                        or.fail("C19-api-differs-from-hook", "public API result must equal parse_yaml12_float on the scalar text", &doc, &format!("{r64:?}"), &format!("{hk64:?}"));
                    }
                    if r32.is_ok() && r32 != hk32 {
                        or.fail("C19-api-differs-from-hook", "public API result must equal parse_yaml12_float on the scalar text", &doc, &format!("{r32:?}"), &format!("{hk32:?}"));
                    }
                }
            }
        }
    }
    // ---- recursion bounded by the depth guard, work linear: very long inputs of every repetitive shape, in a CHILD
    // process on an 8 MiB-stack thread (a stack overflow aborts the process: observed as an exit status)
    {
        let exe = std::env::current_exe().unwrap();
        let t0 = std::time::Instant::now();
        let st = std::process::Command::new(exe).args(["robotics", "deep"]).stdout(std::process::Stdio::piped()).stderr(std::process::Stdio::null()).output();
        sink.count("deep.child_runs");
        match st {
            Ok(outp) if outp.status.success() => {
                let text = String::from_utf8_lossy(&outp.stdout).to_string();
                for l in text.lines() { if l.starts_with("case ") { sink.count("deep.cases"); } }
                if t0.elapsed() > std::time::Duration::from_secs(60) {
                    or.fail("C19-deep-slow", "long repetitive inputs took more than 60 s", "(deep family)", &format!("{:?}", t0.elapsed()), "linear work");
                }
            }
            Ok(outp) => {
                let text = String::from_utf8_lossy(&outp.stdout).to_string();
                let last = text.lines().filter(|l| l.starts_with("start ")).last().unwrap_or("start ?").to_string();
                or.fail("C19-deep-abort", "the evaluator aborted the process (stack exhaustion) or failed on a long repetitive input", &last, &format!("exit status {:?}", outp.status), "a value or an error");
            }
            Err(e) => { or.fail("C19-deep-abort", "child process could not be run", "(deep family)", &e.to_string(), "a value or an error"); }
        }
    }
    or.out.flush().unwrap();
    let oracle_total: u64 = or.per_id.values().sum();
    for (k, v) in &or.per_id { *sink.stats.entry(format!("oracle.{k}")).or_insert(0) += *v; }
    sink.finish(&a.out, "robotics", serde_json::json!({
        "float_literals": lits.len(), "literals_accepted_by_plain_path": lit_accept,
        "expressions": exprs.len(), "expressions_fixed": n_fixed, "expressions_grammar": n_gram - n_fixed,
        "expressions_mutated_or_literal": n_random - n_gram, "expressions_exhaustive_raw": n_ex,
        "oracle_checks": or.checks, "oracle_failures": oracle_total, "oracle_failures_by_id": or.per_id,
        "distinct_nontrivial": accepted.len(),
        "rule": "hook-level. (1) IEEE model vs hardware: + - * / > on all pairs of ~100 boundary binary64 values (zeros, subnormals, powers of two +-1ulp, max, inf, NaN) and random pairs (uniform bits, subnormals, close exponents, near-negations), same for binary32; neg, f64->f32 narrowing (random, all binary32 ties +-1ulp of binary64, overflow/underflow thresholds), f32->f64, `as u32`, u32->f64. (2) float literal corpus (boundary decimals, subnormals, huge exponents, hundreds of digits, shortest and 20-30 digit renderings of random f64/f32, exact decimal ties of binary32 and binary64 and their neighbours, inf/infinity/nan spellings, `_`, Unicode whitespace, sign/case/whitespace/mutation variants): Rust str::parse for f64 and f32, and parse_yaml12_float for f64/f32 with angle_conversions off and on (tags none, sometimes degrees/radians). (3) expressions: ~330 fixed (all unit tests of robotics.rs, parentheses/deg(/rad( nesting 1..1000 around MAX_EXPR_DEPTH, multi-byte characters at every offset, long flat chains), grammar-generated (numbers with separators/exponents, constants, unary chains, * / + -, parentheses, deg()/rad(), sexagesimal, random whitespace, nesting <= 3) with 1-2 random mutations, and ALL strings up to length 3 (quick) / 4 (thorough) over `160.:_e+-*/() pinfaéd`, up to length 4 / 5 over `1.:_e+-*() 5`, all sequences of up to 3 / 4 tokens of {1, 2.5, pi, deg(, rad(, (, ), +, -, *, /, space, 1:30, inf, .nan, 1_0, e3, é}; each under 1-6 of the tag classes {none, float, timestamp, degrees, radians, other}; compared as ok <bits> / err <which check> / panic <site>. Non-trivial = distinct (tag, text) accepted by the implementation that contains an operator, parenthesis, function, constant or sexagesimal form.",
    }));
    0
}

/// Stable class of an acceptance / value change between option off and on (plain path accepted the text).
fn classify_change(t: &str, on_accepts: bool) -> &'static str {
    let trimmed = t.trim();
    let body = trimmed.trim_start_matches(['+', '-']);
    if on_accepts {
        "literal-value-changed"
    } else if body.eq_ignore_ascii_case("infinity") {
        "infinity-word-rejected-when-on"
    } else if t.len() != trimmed.len() && t.trim_matches([' ', '\t', '\n', '\r']).len() != trimmed.len() {
        "unicode-whitespace-rejected-when-on"
    } else if body.bytes().filter(|c| c.is_ascii_digit()).count() > 1_000_000 {
        "digit-cap"
    } else {
        "literal-rejected-when-on"
    }
}
