//! C01: totality sweep. Every input x entry point x option vector x target type runs under
//! `catch_unwind` inside killable worker PROCESSES (a hang cannot be interrupted inside a thread, and one
//! is known: reader input ending inside a directive name). Each returned error is rendered with every
//! formatter. The parent classifies panics / aborts / hangs as oracle failures.
use crate::e2e::Cfg;
use crate::proto::*;
use crate::tyseed::*;
use crate::Args;
use serde::de::DeserializeSeed;
use serde_saphyr::budget::Budget;
use serde_saphyr::options::AliasLimits;
use serde_saphyr::{DefaultMessageFormatter, DeveloperMessageFormatter, Error, UserMessageFormatter};
use std::io::{BufRead, BufReader, Read, Write};
use std::process::{Command, Stdio};
use std::time::{Duration, Instant};

pub fn run(mode: &str, a: &Args) -> i32 {
    match mode {
        "gen" => generate(a),
        "worker" => worker(),
        "deep_dump" => deep_dump(),
        _ => 2,
    }
}

const TOKENS: [&str; 33] = [
    "-", "?", ":", ",", "[", "]", "{", "}", "#", "&", "*", "!", "|", ">", "'", "\"", "%", "@", "`", "a", "1", "~", "\n", " ", "\t",
    "<<:", "---", "...", "\u{feff}", "é", "&a", "*a", "- ",
];

/// a reader that delivers the first `k` bytes (in pieces of `chunk`) and then reports an error on every call
struct FailAfter { data: Vec<u8>, pos: usize, k: usize, chunk: usize }
impl Read for FailAfter {
    fn read(&mut self, buf: &mut [u8]) -> std::io::Result<usize> {
        if buf.is_empty() { return Ok(0); }
        if self.pos >= self.k { return Err(std::io::Error::new(std::io::ErrorKind::Other, "injected")); }
        let n = buf.len().min(self.chunk).min(self.k - self.pos);
        buf[..n].copy_from_slice(&self.data[self.pos..self.pos + n]);
        self.pos += n;
        Ok(n)
    }
}

struct OneByte<R: Read>(R);
impl<R: Read> Read for OneByte<R> {
    fn read(&mut self, buf: &mut [u8]) -> std::io::Result<usize> {
        if buf.is_empty() { return Ok(0); }
        self.0.read(&mut buf[..1])
    }
}

struct FixedFmt(&'static str);
impl serde_saphyr::MessageFormatter for FixedFmt {
    fn format_message<'a>(&self, _err: &'a Error) -> std::borrow::Cow<'a, str> { std::borrow::Cow::Borrowed(self.0) }
}
struct WrapFmt;
impl serde_saphyr::MessageFormatter for WrapFmt {
    fn format_message<'a>(&self, err: &'a Error) -> std::borrow::Cow<'a, str> {
        std::borrow::Cow::Owned(format!("«{}»", DefaultMessageFormatter.format_message(err)))
    }
}

fn render_all(e: &Error) -> usize {
    let mut n = 0;
    n += e.to_string().len();
    n += format!("{e:?}").len();
    n += e.render().len();
    n += e.render_with_formatter(&DefaultMessageFormatter).len();
    let dev: DeveloperMessageFormatter = DefaultMessageFormatter;
    n += e.render_with_formatter(&dev).len();
    n += e.render_with_formatter(&UserMessageFormatter).len();
    // user-supplied formatters: messages shorter than any suffix the renderer may want to strip, empty, non-ASCII,
    // multi-line, and one that repeats the built-in text
    n += e.render_with_formatter(&FixedFmt("")).len();
    n += e.render_with_formatter(&FixedFmt("é")).len();
    n += e.render_with_formatter(&FixedFmt("日本語のメッセージ (defined at")).len();
    n += e.render_with_formatter(&FixedFmt("two\nlines\r\n")).len();
    n += e.render_with_formatter(&WrapFmt).len();
    let _ = e.location();
    let _ = e.locations();
    n
}

fn targets() -> Vec<Ty> {
    vec![
        Ty::Any,
        Ty::Struct(vec![("a", Ty::Option(Box::new(Ty::Int(true, 32)))), ("b", Ty::Option(Box::new(Ty::Str)))], false),
        Ty::Seq(Box::new(Ty::Enum("E", vec![("a", VTy::Unit), ("A", VTy::Newtype(Ty::Int(true, 8))), ("B", VTy::Tuple(vec![Ty::Any, Ty::Any]))]))),
        Ty::Map(Box::new(Ty::Option(Box::new(Ty::Str))), Box::new(Ty::Bytes)),
        Ty::Tuple(vec![Ty::Char, Ty::Float(32)]),
    ]
}

/// a derived recursive target for the stack probes
#[derive(serde::Deserialize)]
#[allow(dead_code)]
#[serde(untagged)]
enum Nest { Seq(Vec<Nest>), Map(std::collections::BTreeMap<String, Nest>), Leaf(Option<String>) }
#[derive(serde::Deserialize)]
#[allow(dead_code)]
struct NestS { #[serde(default)] a: Option<Box<NestS>>, #[serde(default)] x: Option<Vec<NestS>> }

/// The pathological deep / wide inputs (nesting at the default budget boundary): every entry point on an 8 MiB stack
/// with the targets real programs use — `IgnoredAny`, `serde_json::Value`, derived recursive types. (The run-time type
/// descriptions of the harness put a much larger visitor frame on every level than derived code does; they are used for
/// all other inputs.)
#[inline(never)]
fn exercise_deep(bytes: &[u8]) -> String {
    use serde::de::IgnoredAny;
    #[inline(never)]
    fn all<T: serde::de::DeserializeOwned>(name: &str, bytes: &[u8], opts: &serde_saphyr::Options) -> Option<String> {
        let tag = |ep: &str| Some(format!("panic {ep} deep {name}"));
        if std::env::var("VERIF_TRACE").is_ok() { eprintln!("exercise_deep {name}"); }
        // the stack probe proper: nothing of the harness but this frame and `catch` sits above the crate's recursion
        #[inline(never)]
        fn slice_only<T: serde::de::DeserializeOwned>(bytes: &[u8], opts: &serde_saphyr::Options) -> bool {
            catch(|| serde_saphyr::from_slice_with_options::<T>(bytes, opts.clone()).map(|_| ()).map_err(|e| render_all(&e))).is_err()
        }
        if slice_only::<T>(bytes, opts) { return tag("slice"); }
        if std::env::var("VERIF_TRACE").is_ok() { eprintln!("  slice done"); }
        let r = catch(|| serde_saphyr::from_reader_with_options::<_, T>(std::io::Cursor::new(bytes.to_vec()), opts.clone()).map(|_| ()).map_err(|e| render_all(&e)));
        if r.is_err() { return tag("reader"); }
        if let Ok(text) = std::str::from_utf8(bytes) {
            let r = catch(|| serde_saphyr::from_multiple_with_options::<T>(text, opts.clone()).map(|v| v.len()).map_err(|e| render_all(&e)));
            if r.is_err() { return tag("multi"); }
        }
        let mut rd = std::io::Cursor::new(bytes.to_vec());
        let r = catch(|| serde_saphyr::read_with_options::<_, T>(&mut rd, opts.clone()).take(10_000).map(|x| x.map(|_| ()).map_err(|e| render_all(&e))).count());
        if r.is_err() { return tag("iter"); }
        None
    }
    let cfgs = [
        Cfg { dup: 0, legacy_octal: false, strict_bool: false, ignore_binary: false, no_schema: false, budget: Some(Budget::default()), limits: AliasLimits::default() },
        Cfg { dup: 1, legacy_octal: true, strict_bool: true, ignore_binary: true, no_schema: true, budget: Some(Budget::default()), limits: AliasLimits { max_total_replayed_events: 3, max_replay_stack_depth: 1, max_alias_expansions_per_anchor: 2 } },
    ];
    for cfg in cfgs.iter() {
        let mut opts = cfg.options();
        opts.with_snippet = true;
        if let Some(t) = all::<IgnoredAny>("IgnoredAny", bytes, &opts) { return t; }
        if let Some(t) = all::<serde_json::Value>("Value", bytes, &opts) { return t; }
        if let Some(t) = all::<Nest>("Nest", bytes, &opts) { return t; }
        if let Some(t) = all::<NestS>("NestS", bytes, &opts) { return t; }
    }
    "ok".into()
}

/// run every entry point on one input; returns "ok" or "panic <entry>"
#[inline(never)]
fn exercise(bytes: &[u8], reader_too: bool) -> String {
    let cfgs = [
        Cfg { dup: 0, legacy_octal: false, strict_bool: false, ignore_binary: false, no_schema: false, budget: Some(Budget::default()), limits: AliasLimits::default() },
        Cfg { dup: 1, legacy_octal: true, strict_bool: true, ignore_binary: true, no_schema: true, budget: None, limits: AliasLimits { max_total_replayed_events: 3, max_replay_stack_depth: 1, max_alias_expansions_per_anchor: 2 } },
    ];
    for (ci, cfg) in cfgs.iter().enumerate() {
        for (ti, ty) in targets().iter().enumerate() {
            let mut opts = cfg.options();
            opts.with_snippet = true;
            if ci == 1 { opts.crop_radius = 1; }
            let tag = |ep: &str| format!("panic {ep} cfg{ci} ty{ti}");
            if std::env::var("VERIF_TRACE").is_ok() { eprintln!("exercise cfg{ci} ty{ti}"); }
            // slice (covers invalid UTF-8) and str
            let r = catch(|| serde_saphyr::with_deserializer_from_slice_with_options(bytes, opts.clone(), |de| Seed(ty).deserialize(de)).map(|_| ()).map_err(|e| render_all(&e)));
            if r.is_err() { return tag("slice"); }
            if let Ok(text) = std::str::from_utf8(bytes) {
                if ti < 2 {
                    let r = catch(|| { crate::e2e::run_multi(text, ty, cfg).len() });
                    if r.is_err() { return tag("multi"); }
                }
            }
            if reader_too {
                let r = catch(|| serde_saphyr::with_deserializer_from_reader_with_options(std::io::Cursor::new(bytes.to_vec()), opts.clone(), |de| Seed(ty).deserialize(de)).map(|_| ()).map_err(|e| render_all(&e)));
                if r.is_err() { return tag("reader"); }
                if ti == 0 {
                    // the whole-input reader entry point proper (it attaches the snippet from its ring of recent bytes)
                    let r = catch(|| serde_saphyr::from_reader_with_options::<_, serde_json::Value>(std::io::Cursor::new(bytes.to_vec()), opts.clone()).map(|_| ()).map_err(|e| render_all(&e)));
                    if r.is_err() { return tag("from_reader"); }
                    let r = catch(|| serde_saphyr::from_reader_with_options::<_, bool>(std::io::Cursor::new(bytes.to_vec()), opts.clone()).map(|_| ()).map_err(|e| render_all(&e)));
                    if r.is_err() { return tag("from_reader_bool"); }
                    let r = catch(|| serde_saphyr::with_deserializer_from_reader_with_options(OneByte(std::io::Cursor::new(bytes.to_vec())), opts.clone(), |de| Seed(ty).deserialize(de)).map(|_| ()).map_err(|e| render_all(&e)));
                    if r.is_err() { return tag("reader1"); }
                    if let Ok(text) = std::str::from_utf8(bytes) {
                        let r = catch(|| crate::e2e::run_iter(text, ty, cfg).len());
                        if r.is_err() { return tag("iter"); }
                    }
                    // a reader that fails / an input cap that bites after k bytes (start, middle, last byte): the call
                    // must still return (a hang is seen by the worker's wall-clock limit) and the error must render
                    let n = bytes.len();
                    let mut ks = vec![0usize, n / 2, n.saturating_sub(1)];
                    ks.dedup();
                    for k in ks {
                        for chunk in [1usize, 4096] {
                            let rd = FailAfter { data: bytes.to_vec(), pos: 0, k, chunk };
                            let r = catch(|| serde_saphyr::with_deserializer_from_reader_with_options(rd, opts.clone(), |de| Seed(ty).deserialize(de)).map(|_| ()).map_err(|e| render_all(&e)));
                            if r.is_err() { return tag("reader_fault"); }
                        }
                        if let Some(b) = opts.budget.as_ref() {
                            let mut o2 = opts.clone();
                            o2.budget = Some(Budget { max_reader_input_bytes: Some(k), ..b.clone() });
                            let r = catch(|| serde_saphyr::with_deserializer_from_reader_with_options(std::io::Cursor::new(bytes.to_vec()), o2.clone(), |de| Seed(ty).deserialize(de)).map(|_| ()).map_err(|e| render_all(&e)));
                            if r.is_err() { return tag("reader_cap"); }
                            let mut rd = FailAfter { data: bytes.to_vec(), pos: 0, k: n, chunk: 3 };
                            let r = catch(|| serde_saphyr::read_with_options::<_, serde::de::IgnoredAny>(&mut rd, o2).take(10_000).map(|x| x.map(|_| ()).map_err(|e| render_all(&e))).count());
                            if r.is_err() { return tag("iter_cap"); }
                        }
                    }
                }
            }
        }
    }
    "ok".into()
}

/// a legal target type whose `Deserialize` impl reads NOTHING from the deserializer (a constant)
struct Nop;
impl<'de> serde::Deserialize<'de> for Nop {
    fn deserialize<D: serde::Deserializer<'de>>(_d: D) -> Result<Self, D::Error> { Ok(Nop) }
}

/// the multi-document entry points with a target that consumes nothing: they must still return
#[inline(never)]
fn exercise_nop(bytes: &[u8]) -> String {
    let Ok(text) = std::str::from_utf8(bytes) else { return "ok".into() };
    let mut rd = std::io::Cursor::new(bytes.to_vec());
    let n = serde_saphyr::read::<_, Nop>(&mut rd).take(1000).count();
    if n >= 1000 { return "endless iterator".into(); }
    let r = catch(|| serde_saphyr::from_multiple::<Nop>(text).map(|v| v.len()).map_err(|e| render_all(&e)));
    if r.is_err() { return "panic multi".into(); }
    "ok".into()
}

/// worker: one hex-encoded input per line (`r` prefix = include reader entry points), answers `done <idx> <status>`
fn worker() -> i32 {
    let stdin = std::io::stdin();
    let mut out = std::io::stdout();
    for line in stdin.lock().lines() {
        let Ok(line) = line else { break };
        let mut parts = line.split(' ');
        let idx = parts.next().unwrap_or("0").to_string();
        let marker = parts.next().unwrap_or("s").to_string();
        let reader_too = marker == "r" || marker == "d";
        let deep = marker == "d";
        let nop = marker == "n";
        let bytes = unhex(parts.next().unwrap_or("x")).unwrap_or_default();
        // run on a thread with an 8 MiB stack: the property's stack clause
        let b2 = bytes.clone();
        let stack_kib: usize = std::env::var("VERIF_STACK_KIB").ok().and_then(|v| v.parse().ok()).unwrap_or(8 << 10);
        let h = std::thread::Builder::new().stack_size(stack_kib << 10).spawn(move || if nop { exercise_nop(&b2) } else if deep { exercise_deep(&b2) } else { exercise(&b2, reader_too) }).unwrap();
        let status = h.join().unwrap_or_else(|_| "panic thread".into());
        let _ = writeln!(out, "done {idx} {status}");
        let _ = out.flush();
    }
    0
}

/// last line starts with `%` (a directive) and runs to the end of input without a line break: the reader path of the
/// external scanner never returned on such input before fix bfd6267 (finding C01-reader-directive-eof-hang, now fixed)
pub fn in_known_hang_class(bytes: &[u8]) -> bool {
    let Ok(text) = std::str::from_utf8(bytes) else { return false };
    let text = text.strip_prefix('\u{feff}').unwrap_or(text);
    let last = text.rsplit(['\n', '\r']).next().unwrap_or("");
    last.starts_with('%')
}

/// `total deep_dump`: the deep inputs as worker lines (debugging aid)
fn deep_dump() -> i32 {
    for (i, (name, b)) in deep_inputs().iter().enumerate() { eprintln!("{i} {name}"); println!("{i} r {}", hex_bytes(b)); }
    0
}

fn deep_inputs() -> Vec<(String, Vec<u8>)> {
    let mut v = Vec::new();
    for d in [1999usize, 2000, 2001] {
        v.push((format!("flow_seq_{d}"), format!("{}{}", "[".repeat(d), "]".repeat(d)).into_bytes()));
        v.push((format!("flow_map_{d}"), format!("{}1{}", "{a: ".repeat(d), "}".repeat(d)).into_bytes()));
        let mut s = String::new();
        for i in 0..d { s.push_str(&" ".repeat(i.min(600))); s.push_str("- \n"); }
        let mut b = String::new();
        for i in 0..d { b.push_str(&"- ".repeat(1)); if i + 1 == d { b.push('x'); } }
        v.push((format!("block_seq_inline_{d}"), b.into_bytes()));
        let mut m = String::new();
        for i in 0..d.min(2000) { m.push_str(&" ".repeat(i)); m.push_str("a:\n"); }
        v.push((format!("block_map_{d}"), m.into_bytes()));
        v.push((format!("anchored_flow_{d}"), format!("{}{}", (0..d).map(|i| format!("&a{i} [")).collect::<String>(), "]".repeat(d)).into_bytes()));
        v.push((format!("alias_in_deep_{d}"), format!("x: &x [1]\ny: {}*x{}", "[".repeat(d - 1), "]".repeat(d - 1)).into_bytes()));
    }
    // use-site depth + target depth: every literally written nesting is below max_depth, the expansion is not
    for (links, levels) in [(2usize, 1100usize), (8, 1900), (3, 700)] {
        let mut t = String::new();
        for i in 0..links {
            t.push_str(&format!("l{i}: &l{i}\n  "));
            t.push_str(&"- ".repeat(levels));
            if i == 0 { t.push_str("x\n"); } else { t.push_str(&format!("*l{}\n", i - 1)); }
        }
        v.push((format!("alias_chain_{links}x{levels}"), t.into_bytes()));
    }
    // lines far longer than the snippet window, made of multi-byte characters, with the error at small and large columns
    for w in ["é", "€", "😀", "aé", "é€😀a"] {
        let n = 6000 / w.len() + 1;
        v.push((format!("long_line_value_{w}"), format!("k: {}\n", w.repeat(n)).into_bytes()));
        v.push((format!("long_line_unclosed_quote_{w}"), format!("k: \"{}\n", w.repeat(n)).into_bytes()));
        v.push((format!("long_line_late_error_{w}"), format!("{}: {{ {}\n", w.repeat(n / 2), w.repeat(n / 2)).into_bytes()));
        v.push((format!("long_line_late_bad_token_{w}"), format!("[{}, ]]\n", w.repeat(n)).into_bytes()));
        for cut in [4090usize, 4095, 4096, 4097, 4100] {
            v.push((format!("long_line_cut_{w}_{cut}"), format!("- {}{} : @x\n", "a".repeat(cut % 7), w.repeat(cut / w.chars().count().max(1))).into_bytes()));
        }
    }
    v.push(("wide_seq".into(), format!("[{}]", vec!["1"; 100_000].join(",")).into_bytes()));
    v.push(("long_scalar".into(), "a".repeat(1_000_000).into_bytes()));
    v.push(("many_docs".into(), "---\na\n".repeat(1100).into_bytes()));
    v
}

fn generate(a: &Args) -> i32 {
    let mut rng = Rng::new(a.seed);
    let mut sink = Sink::new(&a.out, "total");
    // ---- inputs
    let maxlen = if a.thorough { 4 } else { 3 };
    let mut cur: Vec<String> = vec![String::new()];
    let mut inputs: Vec<Vec<u8>> = vec![vec![]];
    for l in 0..maxlen {
        let mut next = Vec::new();
        for c in &cur {
            for t in TOKENS {
                // thorough length 4: sample a third of the last level
                if a.thorough && l == 3 && rng.below(3) != 0 { continue; }
                let mut s = c.clone();
                s.push_str(t);
                next.push(s);
            }
        }
        inputs.extend(next.iter().map(|s| s.clone().into_bytes()));
        cur = next;
    }
    // mutated generated documents and invalid UTF-8
    for i in 0..(if a.thorough { 20000 } else { 1500 }) {
        let mut g = crate::yamlgen::Gen::new(&mut rng, crate::yamlgen::GenCfg { max_depth: 1 + i % 4, ..Default::default() });
        let d = g.document();
        let mut b = crate::yamlgen::render_doc(&d).into_bytes();
        for _ in 0..rng.below(3) {
            if b.is_empty() { break; }
            let p = rng.below(b.len());
            match rng.below(4) { 0 => { b.remove(p); } 1 => b.insert(p, *rng.pick(b"[]{}:,-&*!|>%'\"#\n \t\xff\xc3")), 2 => b.truncate(p), _ => b[p] = *rng.pick(b"[]{}:,-&*!|>%'\"#\n \t\xff\xe2") }
        }
        inputs.push(b);
    }
    // directive lines (`%…`) cut short in every way: clean end, end inside a multi-byte character, invalid bytes, with and
    // without earlier content (the external scanner reads a NUL-padded end of input as directive text: fix bfd6267)
    for head in ["", "a: 1\n...\n", "\u{feff}", "# c\n"] {
        for dir in ["%", "%YAML", "%YAML 1.2", "%TAG ! tag:x,2000:", "%FOO bar", "%é", "%>é%", "%a\u{feff}%b", "%x é\u{20ac}%y %z"] {
            for tail in [&b""[..], b"\xe6", b"\xe6\x97", b"\xf0\x9f\x98", b"\xff", b"\xc3\x28", b" \xe2\x82"] {
                let mut b = head.as_bytes().to_vec();
                b.extend_from_slice(dir.as_bytes());
                b.extend_from_slice(tail);
                inputs.push(b.clone());
                b.extend_from_slice(b"\n---\na: 1\n");
                inputs.push(b);
            }
        }
    }
    // reader snippets from the ring (3 KiB + read-ahead): the retained window starts in the MIDDLE of a line, and that
    // partial line holds malformed UTF-8 followed by multi-byte text before its first line break; the error is the bad
    // byte itself, or a type error just before it (bad bytes only in the read-ahead)
    for nbad in 1..=3usize {
        for follow in ["€€€€€", "éééé", "😀😀"] {
            for early_type_error in [false, true] {
                let mut b: Vec<u8> = Vec::new();
                b.extend_from_slice(b"k0: 1\n");
                if early_type_error { b.extend_from_slice(b"a: notanint "); } else { b.extend_from_slice(b"s: \""); }
                b.extend_from_slice(&vec![b'a'; if early_type_error { 200 } else { 4200 }]);
                b.extend_from_slice(&vec![0xffu8; nbad]);
                b.extend_from_slice(follow.as_bytes());
                b.extend_from_slice(b"\nnext: 2\nlast: 3\n");
                inputs.push(b.clone());
                // the same with a long valid head in front, so that the ring has wrapped before the line starts
                let mut c: Vec<u8> = (0..400).flat_map(|i| format!("h{i}: {i}\n").into_bytes()).collect();
                c.extend_from_slice(&b);
                inputs.push(c);
            }
        }
    }
    for bad in [&b"\xff"[..], b"\xc3", b"\xe2\x82", b"\xff\xc3\xa9"] {
        for (prefix, suffix) in [(&b""[..], &b"a: 1\n"[..]), (b"- 1\n", b"- 2\n")] {
            let mut b: Vec<u8> = prefix.to_vec();
            b.extend_from_slice(b"# ");
            b.extend_from_slice(&vec![b'c'; 4000]);
            b.extend_from_slice(bad);
            b.push(b'\n');
            b.extend_from_slice(suffix);
            inputs.push(b);
        }
    }
    let deep = deep_inputs();
    let n_short = inputs.len();
    for (_, b) in &deep { inputs.push(b.clone()); }
    // model differential on the short token strings (from_str, untyped, default options)
    let cfg = Cfg { dup: 0, legacy_octal: false, strict_bool: false, ignore_binary: false, no_schema: false, budget: Some(Budget::default()), limits: AliasLimits::default() };
    for b in inputs.iter().take(n_short) {
        if let Ok(text) = std::str::from_utf8(b) {
            if b.len() > 12 { continue; }
            // the BOM is stripped before the parser sees the text
            let stripped = text.strip_prefix('\u{feff}').unwrap_or(text);
            let (items, nev, _) = crate::pump::items_tokens(stripped);
            if nev > 2 { sink.count("distinct_nontrivial"); }
            let ans = crate::e2e::run_single(text, &Ty::Any, &cfg);
            sink.count(&format!("single.{}", ans.split(' ').take(2).collect::<Vec<_>>().join(".")));
            sink.case(&format!("e2e single {} any | {}", cfg.tokens(false), items), &ans);
        }
    }
    // ---- sweep in worker processes
    let exe = std::env::current_exe().unwrap();
    let nworkers = 8usize;
    let per_case = Duration::from_secs(if a.thorough { 20 } else { 10 });
    let mut fails: Vec<serde_json::Value> = Vec::new();
    let chunks: Vec<Vec<usize>> = (0..nworkers).map(|w| (0..inputs.len()).filter(|i| i % nworkers == w).collect()).collect();
    let inputs_ref = &inputs;
    let n_short_ref = n_short;
    let results: Vec<Vec<(usize, String)>> = std::thread::scope(|sc| {
        let handles: Vec<_> = chunks.iter().map(|chunk| {
            let exe = exe.clone();
            sc.spawn(move || {
                let mut out: Vec<(usize, String)> = Vec::new();
                let mut pos = 0usize;
                // a change that makes a whole class of inputs hang or abort would cost the wall-clock limit per case:
                // each worker stops after a few such cases (they are all reported; the sweep is then incomplete)
                while pos < chunk.len() && out.iter().filter(|(_, s)| s.starts_with("hang") || s.starts_with("abort")).count() < 3 {
                    // the deep inputs (stack probes) run in the small stand-alone program `stackprobe` (see its header: the
                    // recursion is monomorphized in the binary that names the target type)
                    let deep_phase = chunk[pos] >= n_short_ref;
                    let mut cmd = if deep_phase { Command::new(exe.with_file_name("stackprobe")) } else { let mut c = Command::new(&exe); c.args(["total", "worker"]); c };
                    let mut child = cmd.stdin(Stdio::piped()).stdout(Stdio::piped()).stderr(Stdio::null()).spawn().unwrap();
                    let mut cin = child.stdin.take().unwrap();
                    let cout = child.stdout.take().unwrap();
                    let (tx, rx) = std::sync::mpsc::channel::<String>();
                    let reader = std::thread::spawn(move || { for l in BufReader::new(cout).lines().map_while(Result::ok) { if tx.send(l).is_err() { break; } } });
                    loop {
                        if pos >= chunk.len() { break; }
                        let idx = chunk[pos];
                        if (idx >= n_short_ref) != deep_phase { break; }
                        let bytes = &inputs_ref[idx];
                        let reader_too = true; // the former hanging class (fixed by bfd6267) is swept like every other input
                        if writeln!(cin, "{} {} {}", idx, if idx >= n_short_ref { "d" } else if reader_too { "r" } else { "s" }, hex_bytes(bytes)).is_err() { out.push((idx, "abort".into())); pos += 1; break; }
                        let _ = cin.flush();
                        let t0 = Instant::now();
                        match rx.recv_timeout(per_case) {
                            Ok(line) => {
                                let status = line.splitn(3, ' ').nth(2).unwrap_or("?").to_string();
                                if status != "ok" { out.push((idx, status)); }
                                pos += 1;
                            }
                            Err(std::sync::mpsc::RecvTimeoutError::Timeout) => {
                                out.push((idx, format!("hang after {:?}", t0.elapsed())));
                                pos += 1;
                                let _ = child.kill();
                                break;
                            }
                            Err(_) => {
                                // worker died (abort / stack overflow / OOM)
                                let st = child.wait().ok();
                                out.push((idx, format!("abort {:?}", st)));
                                pos += 1;
                                break;
                            }
                        }
                    }
                    drop(cin);
                    let _ = child.kill();
                    let _ = child.wait();
                    let _ = reader.join();
                }
                out
            })
        }).collect();
        handles.into_iter().map(|h| h.join().unwrap()).collect()
    });
    let mut known_class = 0u64;
    for b in &inputs { if in_known_hang_class(b) { known_class += 1; } }
    for r in results.into_iter().flatten() {
        let (idx, status) = r;
        let b = &inputs[idx];
        let kind = status.split(' ').next().unwrap_or("?").to_string();
        let name = if idx >= n_short { deep[idx - n_short].0.clone() } else { String::new() };
        let id = if kind == "hang" && in_known_hang_class(b) { "C01-reader-directive-eof-hang".to_string() } else { format!("C01-{kind}") };
        fails.push(serde_json::json!({"id": id, "what": format!("{status}"), "input": hex_bytes(&b[..b.len().min(4000)]), "input_text": String::from_utf8_lossy(&b[..b.len().min(200)]), "case": name}));
    }
    // regression probe of the former hanging class (fixed entry in known_findings.json suppresses nothing)
    {
        let probe = b"%YAML".to_vec();
        let mut child = Command::new(&exe).args(["total", "worker"]).stdin(Stdio::piped()).stdout(Stdio::piped()).stderr(Stdio::null()).spawn().unwrap();
        let mut cin = child.stdin.take().unwrap();
        let cout = child.stdout.take().unwrap();
        let (tx, rx) = std::sync::mpsc::channel::<String>();
        std::thread::spawn(move || { for l in BufReader::new(cout).lines().map_while(Result::ok) { let _ = tx.send(l); } });
        let _ = writeln!(cin, "0 r {}", hex_bytes(&probe));
        let _ = cin.flush();
        match rx.recv_timeout(Duration::from_secs(3)) {
            Ok(_) => sink.count("known_hang_probe.returned"),
            Err(_) => {
                sink.count("known_hang_probe.hangs");
                fails.push(serde_json::json!({"id": "C01-reader-directive-eof-hang", "what": "from_reader on input ending inside a directive name never returns (external scanner)", "input": hex_bytes(&probe), "input_text": "%YAML"}));
            }
        }
        let _ = child.kill();
        let _ = child.wait();
    }
    // a target type that reads nothing (legal, if odd): the multi-document entry points must still terminate
    for probe in [&b"a: 1\n"[..], &b"[1, 2]\n---\nx\n"[..]] {
        let mut child = Command::new(&exe).args(["total", "worker"]).stdin(Stdio::piped()).stdout(Stdio::piped()).stderr(Stdio::null()).spawn().unwrap();
        let mut cin = child.stdin.take().unwrap();
        let cout = child.stdout.take().unwrap();
        let (tx, rx) = std::sync::mpsc::channel::<String>();
        std::thread::spawn(move || { for l in BufReader::new(cout).lines().map_while(Result::ok) { let _ = tx.send(l); } });
        let _ = writeln!(cin, "0 n {}", hex_bytes(probe));
        let _ = cin.flush();
        let verdict = match rx.recv_timeout(Duration::from_secs(5)) {
            Ok(l) if l.ends_with(" ok") => None,
            Ok(l) => Some(l),
            Err(_) => Some("no answer within 5 s (from_multiple never returns)".to_string()),
        };
        sink.count("nonconsuming_target_probe");
        if let Some(v) = verdict {
            fails.push(serde_json::json!({"id": "C01-nonconsuming-target-never-returns", "what": format!("target type whose Deserialize impl reads nothing: {v}"), "input": hex_bytes(probe), "input_text": String::from_utf8_lossy(probe)}));
        }
        let _ = child.kill();
        let _ = child.wait();
    }
    let lines: Vec<String> = fails.iter().map(|f| f.to_string()).collect();
    std::fs::write(format!("{}/total.oracle.jsonl", a.out), lines.join("\n")).unwrap();
    sink.stats.insert("sweep.inputs".into(), inputs.len() as u64);
    sink.stats.insert("sweep.directive_eof_class_inputs".into(), known_class);
    sink.stats.insert("sweep.deep_inputs".into(), deep.len() as u64);
    let nt = sink.stats.get("distinct_nontrivial").copied().unwrap_or(0);
    sink.finish(&a.out, "total", serde_json::json!({
        "distinct_nontrivial": nt,
        "rule": "ALL strings of up to 3 tokens (quick; thorough: 4, last level sampled 1/3) over the 33-token YAML indicator alphabet (- ? : , [ ] { } # & * ! | > ' \" % @ ` a 1 ~ newline space tab <<: --- ... BOM é &a *a '- '), mutated generated documents incl. invalid UTF-8, and pathological deep/wide inputs at the default budget boundary (depth 1999/2000/2001 flow, block, anchored, alias inside nesting; 100k-wide sequence; 1 MB scalar; 1100 documents): each x {slice, str/multi, reader, 1-byte reader, iterator} x 2 option vectors x 5 target types, every call under catch_unwind on an 8 MiB-stack thread inside killable worker processes with a per-case wall-clock limit; every returned error rendered with Display, Debug, render(), Default/Developer/User formatters. Inputs whose last line starts with % and has no line break (hung the reader path before fix bfd6267) are swept like all others and probed once more separately. Differential: from_str into the untyped target vs the model for every short string. Non-trivial = more than 2 parser events.",
    }));
    0
}
