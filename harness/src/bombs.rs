//! C08: attack families (alias bombs, chains, aliases inside anchored containers, nested anchored
//! containers, wide merges) under default and tightened limits: pump differential (delivered / replayed
//! counts, outcome, error) + peak-heap oracle measured with the counting global allocator.
use crate::proto::*;
use crate::Args;
use serde_saphyr::budget::Budget;
use serde_saphyr::options::AliasLimits;
use std::alloc::{GlobalAlloc, Layout, System};
use std::sync::atomic::{AtomicUsize, Ordering};

pub struct Counting;
static CUR: AtomicUsize = AtomicUsize::new(0);
static PEAK: AtomicUsize = AtomicUsize::new(0);

unsafe impl GlobalAlloc for Counting {
    unsafe fn alloc(&self, l: Layout) -> *mut u8 {
        let p = unsafe { System.alloc(l) };
        if !p.is_null() {
            let c = CUR.fetch_add(l.size(), Ordering::Relaxed) + l.size();
            PEAK.fetch_max(c, Ordering::Relaxed);
        }
        p
    }
    unsafe fn dealloc(&self, p: *mut u8, l: Layout) {
        unsafe { System.dealloc(p, l) };
        CUR.fetch_sub(l.size(), Ordering::Relaxed);
    }
    unsafe fn realloc(&self, p: *mut u8, l: Layout, n: usize) -> *mut u8 {
        let q = unsafe { System.realloc(p, l, n) };
        if !q.is_null() {
            if n >= l.size() {
                let c = CUR.fetch_add(n - l.size(), Ordering::Relaxed) + (n - l.size());
                PEAK.fetch_max(c, Ordering::Relaxed);
            } else {
                CUR.fetch_sub(l.size() - n, Ordering::Relaxed);
            }
        }
        q
    }
}

pub fn peak_during<T>(f: impl FnOnce() -> T) -> (T, usize) {
    let base = CUR.load(Ordering::Relaxed);
    PEAK.store(base, Ordering::Relaxed);
    let r = f();
    (r, PEAK.load(Ordering::Relaxed).saturating_sub(base))
}

pub fn run(mode: &str, a: &Args) -> i32 {
    match mode {
        "gen" => generate(a),
        _ => 2,
    }
}

fn bomb(levels: usize, fan: usize) -> String {
    let mut s = String::from("a0: &a0 [x, y]\n");
    for i in 1..=levels {
        let refs: Vec<String> = (0..fan).map(|_| format!("*a{}", i - 1)).collect();
        s.push_str(&format!("a{i}: &a{i} [{}]\n", refs.join(", ")));
    }
    s
}
fn chain(n: usize) -> String {
    let mut s = String::from("k0: &k0 v\n");
    for i in 1..=n { s.push_str(&format!("k{i}: &k{i} [*k{}]\n", i - 1)); }
    s
}
fn nested_anchors(d: usize, n: usize) -> String {
    let mut s = String::new();
    for i in 0..d { s.push_str(&format!("&n{i} [")); }
    let items: Vec<&str> = (0..n).map(|_| "1").collect();
    s.push_str(&items.join(", "));
    for _ in 0..d { s.push(']'); }
    s.push('\n');
    s
}
fn nested_plain(d: usize, n: usize) -> String {
    let mut s = String::new();
    for _ in 0..d { s.push('['); }
    let items: Vec<&str> = (0..n).map(|_| "1").collect();
    s.push_str(&items.join(", "));
    for _ in 0..d { s.push(']'); }
    s.push('\n');
    s
}
fn alias_in_anchored(n: usize) -> String {
    let mut s = String::from("base: &b {p: 1, q: [1, 2]}\nouter: &o\n");
    for i in 0..n { s.push_str(&format!("  k{i}: *b\n")); }
    s.push_str("again: *o\n");
    s
}
fn wide_merge(n: usize) -> String {
    let mut s = String::new();
    for i in 0..n { s.push_str(&format!("m{i}: &m{i} {{f{i}: {i}, shared: {i}}}\n")); }
    let refs: Vec<String> = (0..n).map(|i| format!("*m{i}")).collect();
    s.push_str(&format!("t:\n  <<: [{}]\n  own: 1\n", refs.join(", ")));
    s
}

fn generate(a: &Args) -> i32 {
    let mut rng = Rng::new(a.seed);
    let mut sink = Sink::new(&a.out, "bombs");
    let mut cases: Vec<(String, String)> = Vec::new();
    let big = a.thorough;
    for levels in 1..=(if big { 9 } else { 6 }) { for fan in 1..=(if big { 6 } else { 4 }) { cases.push((format!("bomb.{levels}.{fan}"), bomb(levels, fan))); } }
    for n in [1, 2, 5, 20, 60] { cases.push((format!("chain.{n}"), chain(n))); }
    for n in [1, 3, 10, 40] { cases.push((format!("alias_in_anchored.{n}"), alias_in_anchored(n))); }
    for n in [1, 2, 5, 12] { cases.push((format!("wide_merge.{n}"), wide_merge(n))); }
    for (d, n) in [(1, 50), (5, 50), (20, 50), (60, 50)] { cases.push((format!("nested_anchors.{d}.{n}"), nested_anchors(d, n))); }
    let mut fails: Vec<serde_json::Value> = Vec::new();
    for (name, text) in &cases {
        let (items, nev, _) = crate::pump::items_tokens(text);
        if nev > 4 { sink.count("distinct_nontrivial"); }
        let fam = name.split('.').next().unwrap().to_string();
        // default limits, tight replay total, tight per-anchor, zero nesting, tight event/node budgets
        let mut cfgs: Vec<(Option<Budget>, AliasLimits)> = vec![(Some(Budget::default()), AliasLimits::default()), (None, AliasLimits::default())];
        for t in [0usize, 1, 7, 50, 500] {
            cfgs.push((None, AliasLimits { max_total_replayed_events: t, max_replay_stack_depth: 64, max_alias_expansions_per_anchor: usize::MAX }));
        }
        for t in [0usize, 1, 2, 3] {
            cfgs.push((None, AliasLimits { max_total_replayed_events: 1_000_000, max_replay_stack_depth: if t == 0 { 0 } else { 1 }, max_alias_expansions_per_anchor: t }));
        }
        for t in [5usize, 20, 100, 1000] {
            let mut bd = Budget::default();
            if rng.chance(1, 2) { bd.max_events = t; } else { bd.max_nodes = t; }
            cfgs.push((Some(bd), AliasLimits::default()));
        }
        for (bd, lim) in cfgs {
            sink.count(&format!("family.{fam}"));
            // runs above 40k delivered events are checked against the limits directly (implementation only)
            if let Some(delivered) = crate::pump::one_capped(&mut sink, text, &items, &bd, lim, false, 40_000) {
                let bound = nev.saturating_add(lim.max_total_replayed_events).saturating_add(8);
                let bound = match &bd { Some(b) => bound.min(b.max_events.saturating_add(8)), None => bound };
                if delivered > bound {
                    fails.push(serde_json::json!({"id": "C08-delivered-exceeds-limits", "what": "more events delivered than raw events + max_total_replayed_events (or max_events) allow", "input": name, "observed": format!("{delivered}"), "expected": format!("<= {bound}")}));
                }
            }
        }
    }
    // ---- peak-heap oracle (implementation only): untyped deserialization under the default options
    let measure = |name: &str, text: &str, _fails: &mut Vec<serde_json::Value>, sink: &mut Sink| {
        use crate::e2e::Cfg;
        use crate::tyseed::Ty;
        let cfg = Cfg { dup: 2, legacy_octal: false, strict_bool: false, ignore_binary: false, no_schema: false, budget: Some(Budget::default()), limits: AliasLimits::default() };
        let (res, peak) = peak_during(|| crate::e2e::run_single_plain(text, &Ty::Any, &cfg).len());
        let _ = res;
        // budget-counted events of this input (raw + replayed), measured through the hook
        let d = serde_saphyr::verif_hooks::events::live_events_from_str(text, None, AliasLimits::default(), false, 2_000_000);
        let counted = d.events.len() + 4;
        let denom = text.len() + 64 * counted;
        let ratio = peak as f64 / denom as f64;
        sink.count(&format!("heap.{}", name.split('.').next().unwrap()));
        (peak, counted, ratio)
    };
    let mut table = Vec::new();
    let depths: Vec<usize> = if big { vec![1, 10, 50, 100, 200, 300] } else { vec![1, 10, 50, 100] };
    let n = if big { 5000 } else { 1000 };
    let (_, _, base_ratio) = measure("nested_plain.1", &nested_plain(1, n), &mut fails, &mut sink);
    for d in &depths {
        let (pa, ca, ra) = measure(&format!("nested_anchors.{d}"), &nested_anchors(*d, n), &mut fails, &mut sink);
        let (pp, cp, rp) = measure(&format!("nested_plain.{d}"), &nested_plain(*d, n), &mut fails, &mut sink);
        table.push(serde_json::json!({"depth": d, "n": n, "anchored_peak": pa, "anchored_counted": ca, "anchored_ratio": ra, "plain_peak": pp, "plain_counted": cp, "plain_ratio": rp}));
        if ra > 8.0 * base_ratio.max(0.5) {
            fails.push(serde_json::json!({"id": "C08-heap-depth-times-events", "what": "peak heap is not within a fixed multiple of input size + budget-counted events: it grows with the number of enclosing anchored containers",
                "input": format!("{d} nested anchored flow sequences around {n} scalars"), "observed": format!("peak {pa} bytes, ratio {ra:.1}"), "expected": format!("ratio near the unanchored baseline {base_ratio:.1}")}));
        }
        if rp > 8.0 * base_ratio.max(0.5) {
            fails.push(serde_json::json!({"id": "C08-heap-plain-nesting", "what": "peak heap of an UNANCHORED nested document exceeds the baseline multiple", "input": format!("{d} nested plain sequences around {n} scalars"), "observed": format!("ratio {rp:.1}"), "expected": format!("baseline {base_ratio:.1}")}));
        }
    }
    for (name, text) in [("bomb.big", bomb(6, 5)), ("chain.big", chain(300)), ("wide_merge.big", wide_merge(60)), ("alias_in_anchored.big", alias_in_anchored(300))] {
        let (p, c, r) = measure(name, &text, &mut fails, &mut sink);
        table.push(serde_json::json!({"case": name, "peak": p, "counted": c, "ratio": r}));
        if r > 8.0 * base_ratio.max(0.5) {
            fails.push(serde_json::json!({"id": format!("C08-heap-{}", name.split('.').next().unwrap()), "what": "peak heap exceeds the baseline multiple of input + counted events", "input": name, "observed": format!("ratio {r:.1}"), "expected": format!("baseline {base_ratio:.1}")}));
        }
    }
    let lines: Vec<String> = fails.iter().map(|f| f.to_string()).collect();
    std::fs::write(format!("{}/bombs.oracle.jsonl", a.out), lines.join("\n")).unwrap();
    let nt = sink.stats.get("distinct_nontrivial").copied().unwrap_or(0);
    sink.finish(&a.out, "bombs", serde_json::json!({
        "distinct_nontrivial": nt,
        "heap_table": table,
        "rule": "attack families over their parameter grid — fan-out^levels alias bombs, alias chains, aliases inside anchored containers, d nested anchored containers around n scalars, wide merges — each under default limits, no budget, 5 total-replay limits, 4 per-anchor / nesting limits, 4 tight event/node budgets: pump model vs LiveEvents (delivered events, terminating error with counters). Oracle: peak heap (counting global allocator) of untyped deserialization divided by (input bytes + 64 x counted events) compared with the unanchored baseline; more than 8x the baseline is a failure. Non-trivial = more than 4 events.",
    }));
    0
}
