//! C10: I/O faults and the input cap, reader and writer side.
//! Differential: the real entry points over an instrumented reader/writer against the Lean model of the
//! deferred-error protocol (Model/IoCell.lean), which is fed the parser items and the fault points observed
//! on the same reader by the hook `reader_items_with_cell`.  Oracle: implementation-only statements of C10.
use crate::ioinst::*;
use crate::proto::*;
use crate::yamlgen::*;
use crate::Args;
use serde::de::IgnoredAny;
use serde_saphyr::verif_hooks::reader as h;
use serde_saphyr::{Budget, Error, Options};
use std::collections::BTreeMap;
use std::io::Write as _;

pub fn run(mode: &str, a: &Args) -> i32 {
    match mode {
        "gen" => generate(a),
        "probe" => probe(a),
        _ => 2,
    }
}

/// Canonical kind of an error. `AliasError` is a wrapper the typed deserializer puts around ANY error that
/// surfaces while an aliased value is deserialized (the inner error survives only as message text); an
/// I/O error wrapped that way is reported as the I/O kind `io_kind` the instrumented run injected.
fn err_kind_with(e: &Error, io_kind: Option<u8>) -> String {
    if let Error::AliasError { msg, .. } = crate::errs::unwrap_snippet(e) {
        if msg.contains("IO error") { if let Some(k) = io_kind { return format!("io{k}"); } }
    }
    err_kind(e)
}

fn err_kind(e: &Error) -> String {
    match crate::errs::unwrap_snippet(e) {
        Error::IOError { cause } => format!("io{}", h::kind_code(cause.kind())),
        Error::Eof { .. } => "eof".into(),
        Error::ExternalMessage { .. } => "scan".into(),
        Error::UnknownAnchor { .. } => "unknown_anchor".into(),
        Error::Budget { .. } => "budget".into(),
        Error::FoldedBlockScalarMustIndentContent { .. } => "folded_indent".into(),
        Error::AliasExpansionLimitExceeded { .. } => "alias_expansion".into(),
        Error::AliasReplayStackDepthExceeded { .. } => "replay_depth".into(),
        Error::RecursiveReferencesRequireWeakTypes { .. } => "recursive".into(),
        Error::AliasReplayLimitExceeded { .. } => "replay_limit".into(),
        Error::InternalDepthUnderflow { .. } => "depth_underflow".into(),
        Error::MultipleDocuments { .. } => "multi_doc".into(),
        Error::UnexpectedSequenceEnd { .. } | Error::UnexpectedMappingEnd { .. } => "unexpected_end".into(),
        other => format!("other:{}", crate::errs::kind(other)),
    }
}

fn opts(cap: Option<usize>) -> Options {
    let mut o = Options::default();
    o.budget = Some(Budget { max_reader_input_bytes: cap, ..Budget::default() });
    o.duplicate_keys = serde_saphyr::DuplicateKeyPolicy::LastWins;
    o
}

fn items_toks(items: &[h::ReaderItem]) -> String {
    items.iter().map(|i| match i {
        h::ReaderItem::Ev(e, sp) => format!("@{} {}", span_code(sp), raw_tokens(e)),
        h::ReaderItem::Err(ua, l, c) => format!("!{}@{}", b(*ua), ((*l as u64) << 20) | (*c as u64 + 1)),
    }).collect::<Vec<_>>().join(" ")
}

fn fires_tok(f: &[(usize, u8)]) -> String {
    if f.is_empty() { "-".into() } else { f.iter().map(|(n, k)| format!("{n}:{k}")).collect::<Vec<_>>().join(",") }
}

/// the truncated stream is null-like: no content at all, or a root scalar that `ReadIter` skips
fn has_nullish_root(items: &[h::ReaderItem]) -> bool {
    let mut depth = 0i32;
    let mut any = false;
    for it in items {
        if let h::ReaderItem::Ev(e, _) = it {
            use saphyr_parser::Event::*;
            match e {
                Scalar(v, style, anchor, _) => {
                    any = true;
                    // the pump turns an anchored empty quoted scalar into a plain (null-like) one
                    let sc = if v.is_empty() && *anchor != 0 && matches!(style_code(style), 1 | 2) { 0 } else { style_code(style) };
                    if depth == 0 && serde_saphyr::verif_hooks::scalars::scalar_is_nullish(v, sc) { return true; }
                }
                SequenceStart(..) | MappingStart(..) => { any = true; depth += 1; }
                SequenceEnd | MappingEnd => depth -= 1,
                Alias(_) => any = true,
                _ => {}
            }
        }
    }
    !any
}

/// `IgnoredAny` with empty validation rules, to drive the garde / validator copies of the entry points
struct SkipV;
impl<'de> serde::Deserialize<'de> for SkipV {
    fn deserialize<D: serde::Deserializer<'de>>(d: D) -> Result<Self, D::Error> { IgnoredAny::deserialize(d).map(|_| SkipV) }
}
impl garde::Validate for SkipV {
    type Context = ();
    fn validate_into(&self, _ctx: &(), _parent: &mut dyn FnMut() -> garde::Path, _report: &mut garde::Report) {}
}
impl validator::Validate for SkipV {
    fn validate(&self) -> Result<(), validator::ValidationErrors> { Ok(()) }
}

struct Oracle {
    out: std::io::BufWriter<std::fs::File>,
    per_id: BTreeMap<String, u64>,
}
impl Oracle {
    fn fail(&mut self, id: &str, what: &str, input: &[u8], observed: &str, expected: &str) {
        let n = self.per_id.entry(id.to_string()).or_insert(0);
        *n += 1;
        if *n > 25 { return; }
        let j = serde_json::json!({"id": id, "what": what, "input": String::from_utf8_lossy(input), "input_hex": &hex_bytes(input)[1..],
            "observed": observed, "expected": expected});
        writeln!(self.out, "{j}").unwrap();
    }
}

#[derive(Clone, Copy, Debug)]
struct Fault { end: usize, tail: Tail, cap: Option<usize>, chunk: usize }

fn fault_tok(f: &Fault) -> String {
    format!("end={} tail={:?} cap={:?} chunk={}", f.end, f.tail, f.cap, if f.chunk == usize::MAX { 0 } else { f.chunk })
}

struct Stats { max_over_cap: i64, max_over_cap_case: String }

fn one_reader_case(sink: &mut Sink, o: &mut Oracle, st: &mut Stats, doc: &[u8], f: &Fault, baseline_single: &str, baseline_iter: &str) {
    beat(&format!("{} {}", fault_tok(f), hex_bytes(doc)));
    let mk = || SchedReader::new(doc, &[], f.chunk, f.end, f.tail);
    // what the scanner delivers and when the cell is set, observed on the same reader
    let (items, fired) = h::reader_items_with_cell(mk(), f.cap, 200_000);
    let it = items_toks(&items);
    let fr = fires_tok(&fired);
    let lim = crate::pump::alias_tok(&serde_saphyr::options::AliasLimits::default());
    let bud = crate::c07::limits_tok(&Budget::default());
    let truncated = f.end < doc.len();
    let reader_failed_kind = match f.tail { Tail::Eof => None, Tail::FailSticky(k) | Tail::FailOnce(k) => Some(k) };

    // ---- single-document family
    let mut rd = mk();
    let r = serde_saphyr::from_reader_with_options::<_, IgnoredAny>(&mut rd, opts(f.cap));
    let iok = fired.last().map(|f| f.1);
    let single = match &r { Ok(_) => "ok".to_string(), Err(e) => format!("err {}", err_kind_with(e, iok)) };
    sink.case(&format!("iofault single {fr} 0 {bud} {lim} {it}"), &single);
    sink.count(&format!("single.{}", single.split(':').next().unwrap()));
    let pulled_single = rd.pulled;
    let mut rd2 = mk();
    let rc = serde_saphyr::with_deserializer_from_reader_with_options(&mut rd2, opts(f.cap), |d| <IgnoredAny as serde::Deserialize>::deserialize(d));
    let closure = match &rc { Ok(_) => "ok".to_string(), Err(e) => format!("err {}", err_kind_with(e, iok)) };
    if closure != single { o.fail("C10-closure-reader-differs", &format!("with_deserializer_from_reader vs from_reader, {}", fault_tok(f)), doc, &closure, &single); }

    // ---- iterator family
    let mut rd3 = mk();
    let mut its: Vec<String> = Vec::new();
    {
        let iter = serde_saphyr::read_with_options::<_, IgnoredAny>(&mut rd3, opts(f.cap));
        for x in iter.take(10_000) {
            its.push(match &x { Ok(_) => "ok".to_string(), Err(e) => format!("err:{}", err_kind_with(e, iok)) });
        }
    }
    let iter_ans = format!("{} end=1", if its.is_empty() { "-".to_string() } else { its.join(",") });
    sink.case(&format!("iofault iter {fr} 1 {bud} {lim} {it}"), &iter_ans);
    // without a budget (Options::budget = None) a reader fault surfaces exactly as with the default budget,
    // which none of these small documents can breach
    if f.cap.is_none() {
        let mut nb = opts(None);
        nb.budget = None;
        let r = serde_saphyr::from_reader_with_options::<_, IgnoredAny>(mk(), nb.clone());
        let s0 = match &r { Ok(_) => "ok".to_string(), Err(e) => format!("err {}", err_kind_with(e, iok)) };
        if s0 != single { o.fail("C10-no-budget-differs", &format!("from_reader_with_options with budget None vs default budget, {}", fault_tok(f)), doc, &s0, &single); }
        let mut r6 = mk();
        let i0: Vec<String> = serde_saphyr::read_with_options::<_, IgnoredAny>(&mut r6, nb).take(10_000)
            .map(|x| match &x { Ok(_) => "ok".to_string(), Err(e) => format!("err:{}", err_kind_with(e, iok)) }).collect();
        if i0 != its { o.fail("C10-no-budget-differs", &format!("read_with_options with budget None vs default budget, {}", fault_tok(f)), doc, &i0.join(","), &its.join(",")); }
        sink.count("no_budget.checked");
    }
    // the garde / validator copies of both families behave like the plain ones
    {
        let sv = serde_saphyr::from_reader_with_options_valid::<_, SkipV>(mk(), opts(f.cap));
        let sv = match &sv { Ok(_) => "ok".to_string(), Err(e) => format!("err {}", err_kind_with(e, iok)) };
        let sw = serde_saphyr::from_reader_with_options_validate::<_, SkipV>(mk(), opts(f.cap));
        let sw = match &sw { Ok(_) => "ok".to_string(), Err(e) => format!("err {}", err_kind_with(e, iok)) };
        if sv != single { o.fail("C10-copies-differ", &format!("from_reader_with_options_valid vs from_reader_with_options, {}", fault_tok(f)), doc, &sv, &single); }
        if sw != single { o.fail("C10-copies-differ", &format!("from_reader_with_options_validate vs from_reader_with_options, {}", fault_tok(f)), doc, &sw, &single); }
        let mut r4 = mk();
        let iv: Vec<String> = serde_saphyr::read_with_options_valid::<_, SkipV>(&mut r4, opts(f.cap)).take(10_000)
            .map(|x| match &x { Ok(_) => "ok".to_string(), Err(e) => format!("err:{}", err_kind_with(e, iok)) }).collect();
        let mut r5 = mk();
        let iw: Vec<String> = serde_saphyr::read_with_options_validate::<_, SkipV>(&mut r5, opts(f.cap)).take(10_000)
            .map(|x| match &x { Ok(_) => "ok".to_string(), Err(e) => format!("err:{}", err_kind_with(e, iok)) }).collect();
        if iv != its { o.fail("C10-copies-differ", &format!("read_with_options_valid vs read_with_options, {}", fault_tok(f)), doc, &iv.join(","), &its.join(",")); }
        if iw != its { o.fail("C10-copies-differ", &format!("read_with_options_validate vs read_with_options, {}", fault_tok(f)), doc, &iw.join(","), &its.join(",")); }
        sink.count("copies.checked");
    }

    // ---- oracle (implementation only)
    let fault_seen = !fired.is_empty();
    if fault_seen { sink.count("fault.cell_set"); } else { sink.count("fault.none"); }
    if fault_seen && r.is_ok() {
        o.fail("C10-single-swallows-fault", &format!("from_reader returned Ok although the error cell was set, {}", fault_tok(f)), doc, &single, "err");
    }
    let any_err_item = its.iter().any(|x| x.starts_with("err"));
    if fault_seen && !any_err_item {
        let id = if has_nullish_root(&items) { "C10-iter-swallows-fault-after-null" } else { "C10-iter-swallows-fault" };
        sink.count("iter.swallowed");
        o.fail(id, &format!("read_with_options ended without an Err item although the error cell was set (kinds {fr}), {}", fault_tok(f)), doc, &iter_ans, "an Err item");
    }
    // a reader that reports an error must make the call fail even if the cell was never set (regression guard for
    // the fixed finding C10-reader-unexpected-eof-kind-treated-as-eof: kind UnexpectedEof used to be taken for EOF)
    if let Some(k) = reader_failed_kind {
        if rd.fail_calls > 0 && r.is_ok() && !fault_seen {
            o.fail("C10-reader-unexpected-eof-kind-treated-as-eof", &format!("from_reader returned Ok although the reader returned Err(kind {k}), {}", fault_tok(f)), doc, &single, "err");
            sink.count("single.reader_error_swallowed");
        }
        if rd3.fail_calls > 0 && !any_err_item && !fault_seen {
            o.fail("C10-reader-unexpected-eof-kind-treated-as-eof", &format!("read_with_options yielded no Err item although the reader returned Err(kind {k}), {}", fault_tok(f)), doc, &iter_ans, "an Err item");
        }
    }
    // truncation inside a code point is an error
    if truncated && f.tail == Tail::Eof && std::str::from_utf8(&doc[..f.end]).is_err() && std::str::from_utf8(doc).is_ok() {
        sink.count("fault.eof_inside_code_point");
        if r.is_ok() { o.fail("C10-single-swallows-fault", &format!("from_reader returned Ok on input ending inside a code point, {}", fault_tok(f)), doc, &single, "err"); }
    }
    // the cap: breach => Err; inputs <= cap unaffected; bounded pull
    if let Some(cap) = f.cap {
        if !truncated && f.tail == Tail::Eof {
            // the cap applies to the RAW bytes (RawGate in front of the decoder): a byte-order mark counts
            let counted = doc.len();
            if counted > cap && r.is_ok() { o.fail("C10-cap-breach-accepted", &format!("{} bytes accepted with cap {cap}", doc.len()), doc, &single, "err"); }
            if counted <= cap {
                sink.count("cap.inactive");
                if single != baseline_single { o.fail("C10-cap-affects-small-input", &format!("cap {cap} >= {} bytes changes from_reader", doc.len()), doc, &single, baseline_single); }
                if iter_ans != baseline_iter { o.fail("C10-cap-affects-small-input", &format!("cap {cap} >= {} bytes changes read", doc.len()), doc, &iter_ans, baseline_iter); }
            } else { sink.count("cap.active"); }
        }
        let over = pulled_single as i64 - cap as i64;
        if over > st.max_over_cap { st.max_over_cap = over; st.max_over_cap_case = format!("{} len={}", fault_tok(f), doc.len()); }
        // the raw-byte gate against its model, on documents the scanner reads to their end
        if !truncated && f.tail == Tail::Eof && baseline_single == "ok" { gate_case(sink, doc, f); }
    }
}

/// the text the decoder in front of `ChunkedChars` makes of complete raw input: UTF-16 by its mark (the external
/// decoder needs three bytes to see one), else UTF-8; `None` when the bytes are not a complete well-formed text
fn decoded_text(raw: &[u8]) -> Option<String> {
    if raw.len() >= 3 && (raw.starts_with(&[0xFF, 0xFE]) || raw.starts_with(&[0xFE, 0xFF])) {
        let be = raw[0] == 0xFE;
        let body = &raw[2..];
        if body.len() % 2 == 1 { return None; }
        let units: Vec<u16> = body.chunks(2).map(|c| if be { u16::from_be_bytes([c[0], c[1]]) } else { u16::from_le_bytes([c[0], c[1]]) }).collect();
        String::from_utf16(&units).ok()
    } else {
        std::str::from_utf8(raw).ok().map(|s| s.to_string())
    }
}

/// raw input that starts with a UTF-16 mark and ends inside a code unit or right after a high surrogate
/// (Lean `Spec.Utf16.endsInsideChar`, restated on the Rust side)
fn utf16_ends_inside_char(raw: &[u8]) -> bool {
    if !(raw.starts_with(&[0xFF, 0xFE]) || raw.starts_with(&[0xFE, 0xFF])) { return false; }
    let be = raw[0] == 0xFE;
    let body = &raw[2..];
    if body.len() % 2 == 1 { return true; }
    match body.chunks(2).last() {
        Some(c) => { let u = if be { u16::from_be_bytes([c[0], c[1]]) } else { u16::from_le_bytes([c[0], c[1]]) }; (0xD800..=0xDBFF).contains(&u) }
        None => false,
    }
}

/// `iofault gate <cap|-> <base 0|1|-> <items>` (how the stream ended, outcome class: what the property demands) and
/// `iofault gatepull <cap|-> <items>` (bytes pulled): the raw-byte gate of the reader pipeline against `Model/RawGate.lean`.
/// The caller's reader follows the schedule `items` (`raw[..end]` in pieces of `chunk` bytes, then one failing call for a
/// `FailOnce` tail). Compared: how the raw stream ended for the pipeline (`eof`, or the kind of the first error found in the
/// shared cell), the bytes pulled from the caller's reader (hook run: no ring reader in front), and the outcome class of
/// `from_reader_with_options` — `err` after any fault, otherwise the class `base` of `from_str` on the decoded text.
/// Only generated when the pipeline is known to read the raw stream to its end and `ChunkedChars` has no error of its own:
/// the bytes are a complete well-formed text, or UTF-16 cut inside a character.
fn gate_case(sink: &mut Sink, raw: &[u8], f: &Fault) -> bool {
    let data = &raw[..f.end.min(raw.len())];
    let text = decoded_text(data);
    let inside = utf16_ends_inside_char(data);
    if text.is_none() && !inside { return false; }
    let mut items: Vec<RItem> = if f.chunk == usize::MAX { if data.is_empty() { vec![] } else { vec![RItem::Data(data.to_vec())] } }
        else { data.chunks(f.chunk.max(1)).map(|c| RItem::Data(c.to_vec())).collect() };
    match f.tail { Tail::Eof => {} Tail::FailOnce(k) | Tail::FailSticky(k) => items.push(RItem::Fail(k)) }
    let base = match &text {
        Some(t) => if serde_saphyr::from_str_with_options::<IgnoredAny>(t, opts(None)).is_ok() { "0" } else { "1" },
        None => "-",
    };
    beat(&format!("gate {} {}", fault_tok(f), hex_bytes(raw)));
    let mut rd = ItemReader::new(&items);
    let (_items, fired) = h::reader_items_with_cell(&mut rd, f.cap, 200_000);
    let end = fired.first().map(|x| format!("io{}", x.1)).unwrap_or_else(|| "eof".to_string());
    let mut rd2 = ItemReader::new(&items);
    let r = serde_saphyr::from_reader_with_options::<_, IgnoredAny>(&mut rd2, opts(f.cap));
    let class = if r.is_ok() { "ok" } else { "err" };
    let cap = f.cap.map(|c| c.to_string()).unwrap_or_else(|| "-".to_string());
    sink.case(&format!("iofault gate {cap} {base} {}", items_tok(&items)), &format!("{end} {class}"));
    sink.case(&format!("iofault gatepull {cap} {}", items_tok(&items)), &format!("pulled={}", rd.pulled));
    sink.count(&format!("gate.{}", if end == "eof" { "eof" } else { "fault" }));
    true
}

/// documents without tags / merge keys (so that the `IgnoredAny` consumer has no error of its own) and
/// (documents with `%` lines are included: since fix bfd6267 an input cut inside a directive terminates)
fn corpus(rng: &mut Rng, thorough: bool) -> Vec<Vec<u8>> {
    let mut v: Vec<Vec<u8>> = Vec::new();
    for s in ["", "~", "~\n", "x\n", "~\n---\na: 1\n", "null\n---\nb\n", "a: 1\n", "a: 1\nb: 2\n", "a: 1\n---\nb: 2\n", "- a\n- b\n", "---\n~\n---\n~\n---\nx\n",
        "a\n...\n", "a\n...\njunk: [\n", "a\n---\n", "--- a\n--- b\n", "[1, 2, 3]\n", "{a: 1, b: [x, y]}\n", "k: é€😀\n", "é: [ü, ö]\n", "- &a x\n- *a\n",
        "a: &m {k: v}\nb: *m\n---\nc: *m\n", "\"quoted\\n\"\n", ">\n folded\n", "|\n lit\n", "a:\n  b:\n    c: d\n", "# comment\n", "---\n...\n", "\n\n", "a: ~\n",
        "\u{feff}a: 1\n", "[a, b", "{a: 1", "a: b: c", "- [\n", "€", "- 😀\n- ~\n---\n~\n",
        "%YAML 1.2\n---\na: 1\n", "%TAG ! tag:x,2000:\n--- !t b\n", "a\n...\n%YAML 1.2\n---\nb\n", "%YAML", "~\n...\n%x y\n---\n~\n", "---\nkey: value\n...\n# after the end marker\n", "a\n...\n\n\n# c\n# d\n"] {
        v.push(s.as_bytes().to_vec());
    }
    let n = if thorough { 300 } else { 40 };
    for i in 0..n {
        let k = 1 + rng.below(3);
        let mut text = String::new();
        for j in 0..k {
            let mut g = Gen::new(rng, GenCfg { max_depth: 1 + i % 3, max_width: 3, tags: false, merges: false, complex_keys: false, ..Default::default() });
            let d = g.document();
            if j > 0 || rng.chance(1, 4) { text.push_str("---\n"); }
            text.push_str(&render_doc(&d));
            if !text.ends_with('\n') { text.push('\n'); }
            if rng.chance(1, 8) { text.push_str("...\n"); }
        }
        if text.len() > 90 && !thorough { continue; }
        v.push(text.into_bytes());
    }
    // (documents with `%` lines are included since fix bfd6267: a fault or cap may cut the input inside a directive)
    v.retain(|d| !String::from_utf8_lossy(d).contains("<<"));
    v
}

// ------------------------------------------------------------------------------------------------
// writer
// ------------------------------------------------------------------------------------------------

struct RecWriter { chunks: Vec<Vec<u8>> }
impl std::io::Write for RecWriter {
    fn write(&mut self, buf: &[u8]) -> std::io::Result<usize> { self.chunks.push(buf.to_vec()); Ok(buf.len()) }
    fn flush(&mut self) -> std::io::Result<()> { Ok(()) }
}

fn witems_tok(ws: &[WItem]) -> String {
    if ws.is_empty() { return "-".into(); }
    ws.iter().map(|w| match w { WItem::Accept(n) => format!("a{n}"), WItem::Fail(k) => format!("f{k}") }).collect::<Vec<_>>().join(",")
}

fn chunks_tok(cs: &[Vec<u8>]) -> String {
    if cs.is_empty() { return "-".into(); }
    cs.iter().map(|c| hex_bytes(c)[1..].to_string()).collect::<Vec<_>>().join(",")
}

fn ser_res_tok(r: &Result<(), serde_saphyr::ser::Error>) -> String {
    match r {
        Ok(()) => "ok".into(),
        Err(serde_saphyr::ser::Error::IO { error }) => format!("io{}", h::kind_code(error.kind())),
        Err(serde_saphyr::ser::Error::Format { .. }) => "format".into(),
        Err(_) => "own".into(),
    }
}

fn writer_cases<T: serde::Serialize>(sink: &mut Sink, o: &mut Oracle, rng: &mut Rng, value: &T, label: &str, thorough: bool) {
    let mut rec = RecWriter { chunks: vec![] };
    if serde_saphyr::to_io_writer(&mut rec, value).is_err() { sink.count("writer.unserializable"); return; }
    let chunks: Vec<Vec<u8>> = rec.chunks;
    let full: Vec<u8> = chunks.concat();
    let ct = chunks_tok(&chunks);
    sink.count("writer.values");
    let big = 1usize << 40;
    let mut scheds: Vec<Vec<WItem>> = vec![vec![]];
    // fail the k-th write, for every k (sampled when there are many chunks)
    let ks: Vec<usize> = if chunks.len() <= 40 || thorough { (0..=chunks.len()).collect() } else { (0..40).map(|_| rng.below(chunks.len() + 1)).collect() };
    for k in ks {
        for kind in [0u8, 5] {
            let mut s: Vec<WItem> = (0..k).map(|_| WItem::Accept(big)).collect();
            s.push(WItem::Fail(kind));
            scheds.push(s);
        }
    }
    // short writes, interrupted calls, a zero-length accept
    for _ in 0..(if thorough { 40 } else { 8 }) {
        let n = 1 + rng.below(2 * chunks.len() + 4);
        let s: Vec<WItem> = (0..n).map(|_| match rng.below(12) { 0 => WItem::Fail(2), 1 => WItem::Fail(*rng.pick(&[0u8, 5, 7])), 2 => WItem::Accept(0), 3..=6 => WItem::Accept(1 + rng.below(3)), _ => WItem::Accept(big) }).collect();
        scheds.push(s);
    }
    for s in scheds {
        beat(&format!("writer {label}"));
        let mut w = SchedWriter::new(&s);
        let r = serde_saphyr::to_io_writer(&mut w, value);
        let ans = format!("{} {}", ser_res_tok(&r), hex_bytes(&w.written));
        sink.case(&format!("iofault writer 0 {} {ct}", witems_tok(&s)), &ans);
        sink.count(&format!("writer.{}", ser_res_tok(&r).trim_end_matches(char::is_numeric)));
        // oracle: a hard write failure => that I/O error; accepted bytes are a prefix of the fault-free output
        if !full.starts_with(&w.written) { o.fail("C10-writer-not-a-prefix", &format!("{label} sched {}", witems_tok(&s)), &full, &hex_bytes(&w.written), "prefix of the fault-free output"); }
        let hard_fail_hit = matches!(&r, Err(_)) || w.items.is_empty();
        let _ = hard_fail_hit;
        if r.is_ok() && w.written != full { o.fail("C10-writer-ok-but-incomplete", &format!("{label} sched {}", witems_tok(&s)), &full, &hex_bytes(&w.written), "complete output"); }
        if let Err(e) = &r { if !matches!(e, serde_saphyr::ser::Error::IO { .. }) { o.fail("C10-writer-error-not-io", &format!("{label} sched {}", witems_tok(&s)), &full, &ser_res_tok(&r), "the I/O error"); } }
    }
}

/// wraps whatever error the serializer reports while the inner value is written (as error-context helpers do)
struct Wrap<T>(T);
impl<T: serde::Serialize> serde::Serialize for Wrap<T> {
    fn serialize<S: serde::Serializer>(&self, s: S) -> Result<S::Ok, S::Error> {
        use serde::ser::Error as _;
        self.0.serialize(s).map_err(|e| S::Error::custom(format!("while writing a wrapped part: {e}")))
    }
}
#[derive(serde::Serialize)]
struct WrapDoc { id: u32, items: Wrap<Vec<Wrap<String>>>, meta: Wrap<BTreeMap<String, Wrap<f64>>>, tail: String }

#[derive(serde::Serialize)]
struct Rec { name: String, n: i32, tags: Vec<String>, nested: BTreeMap<String, Option<f64>> }

/// UTF-16 (LE / BE) and UTF-8 with / without byte-order mark through the raw-byte gate: cuts at every byte position, caps on the
/// RAW length, against the gate model (`iofault gate` / `gatepull`) and the implementation-only statements of C10
fn raw_gate_families(sink: &mut Sink, o: &mut Oracle, st: &mut Stats, allowance: i64, nontrivial: &mut u64) {
    // ---- UTF-16 input (decoded by the external encoding_rs_io layer in front of the repo's reassembler; RawGate in front of
    // that layer): truncation inside a code unit / a surrogate pair must be an error for EVERY such cut, and the cap bounds the
    // RAW bytes pulled.  Every cut position x chunkings {1, 3, whole} also runs against the gate model (`iofault gate`).
    for (ti, text) in ["a: xyz", "k: [1, 2]\nname: v\u{e9}\n", "a: x\u{1F600}", "- \u{20ac}uro\n- b\n", "s: \u{1F600}y\n", "\u{1F600}: \u{10FFFF}\u{10000}", "a: \u{65e5}\u{672c}\u{8a9e}\u{65e5}\u{672c}\u{8a9e}"].into_iter().enumerate() {
        for be in [false, true] {
            let mut raw: Vec<u8> = if be { vec![0xFE, 0xFF] } else { vec![0xFF, 0xFE] };
            for u in text.encode_utf16() { raw.extend_from_slice(&(if be { u.to_be_bytes() } else { u.to_le_bytes() })); }
            let n = raw.len();
            let full = serde_saphyr::from_reader_with_options::<_, serde_json::Value>(SchedReader::whole(&raw), opts(None));
            sink.count("utf16.docs");
            if full.is_err() { o.fail("C10-utf16-full-rejected", "complete UTF-16 input with BOM rejected", &raw, "err", "ok"); continue; }
            // (a) every cut position: inside a code unit (odd length after the mark) or inside a surrogate pair (after the
            // high half) => Err from every entry point, with every chunking (1-byte reads included)
            for k in 0..=n {
                let inside = utf16_ends_inside_char(&raw[..k]);
                for chunk in [1usize, 3, usize::MAX] {
                    let f = Fault { end: k, tail: Tail::Eof, cap: None, chunk };
                    if gate_case(sink, &raw, &f) { *nontrivial += 1; }
                    // the same cut with the cap AT the cut length (the probe at the limit meets the end of the input), one below
                    // and one above: a truncated text stays an error whichever way the end of the input is noticed
                    for cap in [k.saturating_sub(1), k, k + 1] {
                        gate_case(sink, &raw, &Fault { cap: Some(cap), ..f });
                        if inside && cap >= k {
                            let r = serde_saphyr::from_reader_with_options::<_, serde_json::Value>(SchedReader::new(&raw, &[], chunk, k, Tail::Eof), opts(Some(cap)));
                            sink.count("utf16.truncated_at_cap");
                            if let Ok(v) = &r {
                                o.fail("C10-utf16-truncated-lossy", &format!("UTF-16{} input cut at byte {k} of {} (inside a code unit or surrogate pair) under cap {cap} returned a value", if be { "BE" } else { "LE" }, raw.len()), &raw[..k], &format!("ok {v}"), "err");
                            }
                        }
                    }
                    // a failing call after a cut at a character boundary (inside a character the end-of-input error of the next
                    // call replaces the reader's own error in the cell before anyone looks: not a gate observation)
                    if k < n && k >= 3 && !inside && chunk == 1 { gate_case(sink, &raw, &Fault { tail: Tail::FailOnce(0), ..f }); }
                    if !inside { continue; }
                    let r = serde_saphyr::from_reader_with_options::<_, serde_json::Value>(SchedReader::new(&raw, &[], chunk, k, Tail::Eof), opts(None));
                    sink.count("utf16.truncated_inside_character");
                    *nontrivial += 1;
                    if let Ok(v) = &r {
                        o.fail("C10-utf16-truncated-lossy", &format!("UTF-16{} input cut at byte {k} of {n} (inside a code unit or surrogate pair, chunk {}) returned a value", if be { "BE" } else { "LE" }, if chunk == usize::MAX { 0 } else { chunk }), &raw[..k], &format!("ok {v}"), "err");
                    }
                    let rc = serde_saphyr::with_deserializer_from_reader_with_options(SchedReader::new(&raw, &[], chunk, k, Tail::Eof), opts(None), |d| <IgnoredAny as serde::Deserialize>::deserialize(d));
                    if rc.is_ok() { o.fail("C10-utf16-truncated-lossy", &format!("with_deserializer_from_reader: UTF-16 input cut at byte {k} of {n} (inside a character) returned a value"), &raw[..k], "ok", "err"); }
                    let mut rd = SchedReader::new(&raw, &[], chunk, k, Tail::Eof);
                    let its: Vec<bool> = serde_saphyr::read_with_options::<_, serde_json::Value>(&mut rd, opts(None)).take(100).map(|x| x.is_ok()).collect();
                    if !its.iter().any(|ok| !ok) { o.fail("C10-utf16-truncated-lossy", &format!("read: UTF-16 input cut at byte {k} of {n} (inside a character) yielded no Err item"), &raw[..k], &format!("{its:?}"), "an Err item"); }
                }
            }
            // (b) caps around the RAW length (and tiny ones): raw > cap => Err, raw <= cap => as without a cap; pull bounded
            for cap in [0usize, 2, 3, n / 2, n - 2, n - 1, n, n + 1] {
                for chunk in [1usize, usize::MAX] {
                    let f = Fault { end: n, tail: Tail::Eof, cap: Some(cap), chunk };
                    // the DECODED text is longer than the raw input when characters of three UTF-8 bytes dominate; since fix 784e913
                    // only the gate's count of RAW bytes decides (ChunkedChars behind it has no cap of its own)
                    let decoded_over = n <= cap && text.len() > cap;
                    gate_case(sink, &raw, &f);
                    let mut rd = SchedReader::new(&raw, &[], chunk, n, Tail::Eof);
                    let r = serde_saphyr::from_reader_with_options::<_, serde_json::Value>(&mut rd, opts(Some(cap)));
                    sink.count("utf16.cap_runs");
                    *nontrivial += 1;
                    if n > cap && r.is_ok() { o.fail("C10-utf16-cap-counts-decoded", &format!("UTF-16 input of {n} raw bytes accepted under cap {cap}"), &raw, "ok", "err"); }
                    if n <= cap && r.is_err() {
                        if decoded_over { o.fail("C10-utf16-decoded-cap-rejects-small-input", &format!("UTF-16 input of {n} raw bytes ({} bytes once decoded to UTF-8) refused under cap {cap} >= {n}", text.len()), &raw, "err", "ok"); }
                        else { o.fail("C10-cap-affects-small-input", &format!("cap {cap} >= {n} raw bytes changes from_reader (UTF-16)"), &raw, "err", "ok"); }
                    }
                    if rd.pulled as i64 - cap as i64 > allowance { o.fail("C10-utf16-cap-counts-decoded", &format!("UTF-16 input of {n} raw bytes under cap {cap}: {} bytes pulled from the reader", rd.pulled), &raw, &format!("pulled={}", rd.pulled), &format!("pulled <= cap + {allowance}")); }
                }
            }
            // (c) a long UTF-16 input whose DECODED size fits the cap while its raw size is twice that: refused, pull bounded
            if ti == 1 {
                let mut big = String::new();
                for i in 0..3000 { big.push_str(&format!("key{i}: value number {i}\n")); }
                let mut rawb: Vec<u8> = if be { vec![0xFE, 0xFF] } else { vec![0xFF, 0xFE] };
                for u in big.encode_utf16() { rawb.extend_from_slice(&(if be { u.to_be_bytes() } else { u.to_le_bytes() })); }
                for (cap, chunk) in [(big.len() + 16, 4096usize), (big.len() + 16, 1), (rawb.len() - 1, usize::MAX), (rawb.len(), 4096), (rawb.len() + 1, 1)] {
                    beat("utf16 long");
                    let mut rd = SchedReader::new(&rawb, &[], chunk, rawb.len(), Tail::Eof);
                    let r = serde_saphyr::from_reader_with_options::<_, IgnoredAny>(&mut rd, opts(Some(cap)));
                    sink.count("utf16.cap_runs");
                    if rawb.len() > cap && r.is_ok() { o.fail("C10-utf16-cap-counts-decoded", &format!("UTF-16 input of {} raw bytes accepted under cap {cap}: {} bytes pulled from the reader", rawb.len(), rd.pulled), b"(generated UTF-16 mapping)", &format!("ok pulled={}", rd.pulled), "err"); }
                    if rawb.len() <= cap && r.is_err() { o.fail("C10-cap-affects-small-input", &format!("cap {cap} >= {} raw bytes changes from_reader (long UTF-16)", rawb.len()), b"(generated UTF-16 mapping)", "err", "ok"); }
                    if rd.pulled as i64 - cap as i64 > allowance {
                        o.fail("C10-utf16-cap-counts-decoded", &format!("UTF-16 input of {} raw bytes under cap {cap}: {} bytes pulled from the reader", rawb.len(), rd.pulled), b"(generated UTF-16 mapping)", &format!("pulled={}", rd.pulled), &format!("pulled <= cap + {allowance}"));
                    }
                    let over = rd.pulled as i64 - cap as i64;
                    if over > st.max_over_cap { st.max_over_cap = over; st.max_over_cap_case = format!("long UTF-16 input cap={cap} chunk={chunk}"); }
                    gate_case(sink, &rawb, &Fault { end: rawb.len(), tail: Tail::Eof, cap: Some(cap), chunk });
                }
            }
        }
    }
    // ---- UTF-8 with and without its byte-order mark: caps equal to the RAW length -1 / 0 / +1 (the mark counts: the cap is on
    // raw bytes), 1-byte and whole reads; against the gate model and the statement "raw > cap => Err, raw <= cap => unaffected"
    for text in ["a: xyz", "k: \u{e9}\u{20ac}\u{1F600}\n", "- a\n- [b, c]\n"] {
        for with_bom in [false, true] {
            let raw: Vec<u8> = if with_bom { [&[0xEF, 0xBB, 0xBF][..], text.as_bytes()].concat() } else { text.as_bytes().to_vec() };
            let n = raw.len();
            sink.count("utf8.bom_docs");
            for cap in [0usize, 1, 2, 3, 4, n - 4, n - 3, n - 2, n - 1, n, n + 1] {
                for chunk in [1usize, 2, usize::MAX] {
                    let f = Fault { end: n, tail: Tail::Eof, cap: Some(cap), chunk };
                    gate_case(sink, &raw, &f);
                    let mut rd = SchedReader::new(&raw, &[], chunk, n, Tail::Eof);
                    let r = serde_saphyr::from_reader_with_options::<_, serde_json::Value>(&mut rd, opts(Some(cap)));
                    sink.count("utf8.cap_runs");
                    *nontrivial += 1;
                    if n > cap && r.is_ok() { o.fail("C10-cap-breach-accepted", &format!("UTF-8 input{} of {n} raw bytes accepted under cap {cap}", if with_bom { " with BOM" } else { "" }), &raw, "ok", "err"); }
                    if n <= cap && r.is_err() { o.fail("C10-cap-affects-small-input", &format!("cap {cap} >= {n} raw bytes changes from_reader (UTF-8{})", if with_bom { " with BOM" } else { "" }), &raw, "err", "ok"); }
                    if rd.pulled as i64 - cap as i64 > allowance { o.fail("C10-cap-pull-bound", "bytes pulled beyond the cap exceed the fixed allowance", &raw, &format!("pulled={} cap={cap}", rd.pulled), &format!("<= cap + {allowance}")); }
                }
            }
            // every cut at a character boundary, no cap: the gate is transparent
            for k in 0..=n {
                for chunk in [1usize, usize::MAX] { gate_case(sink, &raw, &Fault { end: k, tail: Tail::Eof, cap: None, chunk }); }
            }
            // every cut INSIDE a multi-byte character of UTF-8 input that starts with a byte-order mark: an error from all three
            // entry points, as without the mark (since fix cbb7ef9 the decoder hands marked UTF-8 on as it is, minus the mark,
            // and ChunkedChars refuses the cut sequence; before, the decoder transcoded it with replacement: U+FFFD)
            if with_bom {
                for k in 4..n {
                    if std::str::from_utf8(&raw[..k]).is_ok() { continue; }
                    for chunk in [1usize, 2, usize::MAX] {
                        let r = serde_saphyr::from_reader_with_options::<_, serde_json::Value>(SchedReader::new(&raw, &[], chunk, k, Tail::Eof), opts(None));
                        sink.count("utf8.bom_truncated_inside_character");
                        *nontrivial += 1;
                        if let Ok(v) = &r { o.fail("C10-utf8-bom-truncated-lossy", &format!("UTF-8 input with byte-order mark cut at byte {k} of {n} (inside a multi-byte character) returned a value"), &raw[..k], &format!("ok {v}"), "err"); }
                        let rc = serde_saphyr::with_deserializer_from_reader_with_options(SchedReader::new(&raw, &[], chunk, k, Tail::Eof), opts(None), |d| <IgnoredAny as serde::Deserialize>::deserialize(d));
                        if rc.is_ok() { o.fail("C10-utf8-bom-truncated-lossy", &format!("with_deserializer_from_reader: UTF-8 input with byte-order mark cut at byte {k} of {n} (inside a multi-byte character) returned a value"), &raw[..k], "ok", "err"); }
                        let mut rd = SchedReader::new(&raw, &[], chunk, k, Tail::Eof);
                        let its: Vec<bool> = serde_saphyr::read_with_options::<_, serde_json::Value>(&mut rd, opts(None)).take(100).map(|x| x.is_ok()).collect();
                        if !its.iter().any(|ok| !ok) { o.fail("C10-utf8-bom-truncated-lossy", &format!("read: UTF-8 input with byte-order mark cut at byte {k} of {n} (inside a multi-byte character) yielded no Err item"), &raw[..k], &format!("{its:?}"), "an Err item"); }
                    }
                }
                // marked UTF-8 that is complete is read exactly like the same text without the mark
                let plain = serde_saphyr::from_reader_with_options::<_, serde_json::Value>(SchedReader::whole(text.as_bytes()), opts(None)).map_err(|e| err_kind(&e));
                for chunk in [1usize, 2, usize::MAX] {
                    let marked = serde_saphyr::from_reader_with_options::<_, serde_json::Value>(SchedReader::new(&raw, &[], chunk, n, Tail::Eof), opts(None)).map_err(|e| err_kind(&e));
                    if marked != plain { o.fail("C10-utf8-bom-changes-valid-input", "complete UTF-8 input with byte-order mark read differently from the same text without the mark", &raw, &format!("{marked:?}"), &format!("{plain:?}")); }
                }
            }
        }
    }

}

fn generate(a: &Args) -> i32 {
    start_watchdog(20);
    let mut rng = Rng::new(a.seed);
    let mut sink = Sink::new(&a.out, "iofault");
    let oracle_file = std::fs::File::create(format!("{}/iofault.oracle.jsonl", a.out)).unwrap();
    let mut o = Oracle { out: std::io::BufWriter::new(oracle_file), per_id: BTreeMap::new() };
    let mut st = Stats { max_over_cap: i64::MIN, max_over_cap_case: String::new() };
    let docs = corpus(&mut rng, a.thorough);
    let mut nontrivial = 0u64;
    // fixed allowance: the one byte RawGate takes beyond the cap (to tell "exactly cap bytes" from "more": raw_pull_bound)
    // + the diagnostic read-ahead of the ring reader in front of it (error snippets; MAX_READ_AHEAD = 1 KiB)
    let allowance: i64 = 1 + h::MAX_READ_AHEAD_HOOK as i64;
    raw_gate_families(&mut sink, &mut o, &mut st, allowance, &mut nontrivial);
    for d in &docs {
        sink.count("reader.docs");
        let n = d.len();
        // fault-free baselines
        let base = Fault { end: n, tail: Tail::Eof, cap: None, chunk: usize::MAX };
        let bs = {
            let r = serde_saphyr::from_reader_with_options::<_, IgnoredAny>(SchedReader::whole(d), opts(None));
            match &r { Ok(_) => "ok".to_string(), Err(e) => format!("err {}", err_kind(e)) }
        };
        let bi = {
            let mut rd = SchedReader::whole(d);
            let v: Vec<String> = serde_saphyr::read_with_options::<_, IgnoredAny>(&mut rd, opts(None)).take(10_000)
                .map(|x| match &x { Ok(_) => "ok".to_string(), Err(e) => format!("err:{}", err_kind(e)) }).collect();
            format!("{} end=1", if v.is_empty() { "-".to_string() } else { v.join(",") })
        };
        one_reader_case(&mut sink, &mut o, &mut st, d, &base, &bs, &bi);
        // every fault position x kinds x chunkings (sampled positions for long documents in quick tier)
        let positions: Vec<usize> = if n <= 48 || a.thorough { (0..=n).collect() } else { (0..48).map(|_| rng.below(n + 1)).collect() };
        for &k in &positions {
            for (ti, tail) in [Tail::FailSticky(0), Tail::FailOnce(0), Tail::FailOnce(7), Tail::Eof, Tail::FailSticky(1), Tail::FailOnce(1)].into_iter().enumerate() {
                if tail == Tail::Eof && k == n { continue; }
                let chunks: &[usize] = if a.thorough { &[1, 3, usize::MAX] } else if ti < 2 { &[1, usize::MAX] } else { &[3] };
                for &chunk in chunks {
                    one_reader_case(&mut sink, &mut o, &mut st, d, &Fault { end: k, tail, cap: None, chunk }, &bs, &bi);
                    nontrivial += 1;
                }
            }
        }
        // caps around the length and everywhere below it
        let caps: Vec<usize> = if n <= 48 || a.thorough { (0..=n + 2).collect() } else { let mut c: Vec<usize> = (0..24).map(|_| rng.below(n + 1)).collect(); c.extend([n.saturating_sub(1), n, n + 1]); c };
        for cap in caps {
            for chunk in [1usize, usize::MAX] {
                one_reader_case(&mut sink, &mut o, &mut st, d, &Fault { end: n, tail: Tail::Eof, cap: Some(cap), chunk }, &bs, &bi);
                nontrivial += 1;
            }
        }
    }
    // the buffering allowance: a long input with small caps; measure how far the pull runs past the cap
    let mut long = String::new();
    for i in 0..6000 { long.push_str(&format!("key{i}: value number {i}\n")); }
    let mut measured = Vec::new();
    let long_bom = format!("\u{feff}{long}");
    for cap in [0usize, 1, 100, 5000, 8191, 8192, 8193, 20000, 65536] {
        for (chunk, with_bom) in [(1usize, false), (4096, false), (100_000, false), (usize::MAX, false), (1, true), (usize::MAX, true)] {
            beat("allowance");
            let long = if with_bom { &long_bom } else { &long };
            let mut rd = SchedReader::new(long.as_bytes(), &[], chunk, long.len(), Tail::Eof);
            let r = serde_saphyr::from_reader_with_options::<_, IgnoredAny>(&mut rd, opts(Some(cap)));
            if r.is_ok() { o.fail("C10-cap-breach-accepted", &format!("{} bytes accepted with cap {cap}", long.len()), b"(long generated mapping)", "ok", "err"); }
            let over = rd.pulled as i64 - cap as i64;
            measured.push(over);
            sink.count("cap.long_input_runs");
            if over > st.max_over_cap { st.max_over_cap = over; st.max_over_cap_case = format!("long input cap={cap} chunk={chunk}"); }
        }
    }
    if st.max_over_cap > allowance {
        o.fail("C10-cap-pull-bound", "bytes pulled beyond the cap exceed the fixed allowance", st.max_over_cap_case.as_bytes(), &st.max_over_cap.to_string(), &format!("<= {allowance}"));
    }

    // ---- typed consumers (merge keys with list values, aliases, nested containers): faults that set the error cell only ONCE —
    // end of input inside a multi-byte character, a cap that refuses exactly the last characters, a one-shot read error — at
    // every position; whatever the typed deserializer is doing when the fault falls into the scanner's look-ahead, the call
    // must not return a value
    {
        #[derive(Debug, serde::Deserialize)]
        #[allow(dead_code)]
        struct TDoc { #[serde(default)] base: serde_json::Value, #[serde(default)] b2: serde_json::Value, obj: BTreeMap<String, serde_json::Value>, #[serde(default)] tail: Option<String> }
        let tdocs = [
            "base: &b1 {x: 1, k: 2}\nb2: &b2 {y: é}\nobj:\n  <<: [*b1, {z: 3}]\n  k: 4\ntail: é\n",
            "base: &b1 {x: 1}\nobj:\n  <<:\n    - *b1\n    - {z: 3}\n    - *b1\n  w: ü\n# é\n",
            "base: &b1 {x: 1}\nobj: {<<: *b1, q: [1, 2, {r: s}]}\ntail: \"€\"\n",
            "obj:\n  k: &a [1, 2]\n  l: *a\n  m: {n: *a}\ntail: 日本\n",
        ];
        macro_rules! typed_faults { ($t:ty, $docs:expr) => {{
        for doc in $docs {
            let d = doc.as_bytes();
            let n = d.len();
            let full = serde_saphyr::from_reader_with_options::<_, $t>(SchedReader::whole(d), opts(None));
            if full.is_err() { o.fail("C10-typed-baseline", "fault-free typed document rejected", d, "err", "ok"); continue; }
            for k in 0..n {
                // (a) clean end of input at k: an error exactly... at least when k cuts a multi-byte character
                let inside_char = std::str::from_utf8(&d[..k]).is_err();
                for chunk in [1usize, 3, usize::MAX] {
                    if inside_char {
                        let r = serde_saphyr::from_reader_with_options::<_, $t>(SchedReader::new(d, &[], chunk, k, Tail::Eof), opts(None));
                        sink.count("typed.eof_inside_code_point");
                        nontrivial += 1;
                        if let Ok(v) = &r { o.fail("C10-single-swallows-fault", &format!("typed from_reader returned a value on input ending inside a code point at byte {k} (chunk {chunk})"), d, &format!("ok {v:?}"), "err"); }
                        let mut rd = SchedReader::new(d, &[], chunk, k, Tail::Eof);
                        let items: Vec<bool> = serde_saphyr::read_with_options::<_, $t>(&mut rd, opts(None)).take(100).map(|x| x.is_ok()).collect();
                        if !items.iter().any(|ok| !ok) { o.fail("C10-iter-swallows-fault", &format!("typed read yielded no Err item on input ending inside a code point at byte {k}"), d, &format!("{items:?}"), "an Err item"); }
                    }
                    // (b) a read error that happens once at k
                    let r = serde_saphyr::from_reader_with_options::<_, $t>(SchedReader::new(d, &[], chunk, k, Tail::FailOnce(0)), opts(None));
                    sink.count("typed.fail_once");
                    nontrivial += 1;
                    if let Ok(v) = &r { o.fail("C10-single-swallows-fault", &format!("typed from_reader returned a value although the reader failed once at byte {k} (chunk {chunk})"), d, &format!("ok {v:?}"), "err"); }
                }
                // (c) a cap that refuses the input from byte k on
                let r = serde_saphyr::from_reader_with_options::<_, $t>(SchedReader::whole(d), opts(Some(k)));
                sink.count("typed.cap");
                nontrivial += 1;
                if let Ok(v) = &r { o.fail("C10-cap-breach-accepted", &format!("typed from_reader: {n} bytes accepted with cap {k}"), d, &format!("ok {v:?}"), "err"); }
                let r = serde_saphyr::with_deserializer_from_reader_with_options(SchedReader::whole(d), opts(Some(k)), |de| <$t as serde::Deserialize>::deserialize(de));
                if r.is_ok() { o.fail("C10-cap-breach-accepted", &format!("typed with_deserializer_from_reader: {n} bytes accepted with cap {k}"), d, "ok", "err"); }
            }
        }
        }} }
        typed_faults!(TDoc, tdocs);
        // Option positions (struct fields, sequence elements): the look-ahead that decides None / Some meets the fault
        #[derive(Debug, serde::Deserialize)]
        #[allow(dead_code)]
        struct ODoc { #[serde(default)] retries: Option<u32>, #[serde(default)] name: Option<String>, #[serde(default)] tags: Vec<Option<String>>, #[serde(default)] last: Option<Vec<Option<u8>>> }
        typed_faults!(ODoc, ["retries: 1\nname: é\n", "retries: 1\nname: \"€\"\ntags: [a, ~, é]\nlast: [1, ~]\n", "tags:\n- é\n- ~\n- ü\nname: 日本\n# é\n"]);
        typed_faults!(Vec<Option<String>>, ["- 1\n- é\n", "- ~\n- é\n- \"€\"\n", "[a, é, ~]\n"]);
    }

    // ---- writer side
    let mut wn = 0;
    for d in &docs {
        if let Ok(v) = serde_saphyr::from_slice::<serde_json::Value>(d) {
            if wn >= (if a.thorough { 200 } else { 25 }) { break; }
            wn += 1;
            writer_cases(&mut sink, &mut o, &mut rng, &v, "Value", a.thorough);
        }
    }
    let rec = Rec { name: "é \"quoted\" €".into(), n: -3, tags: vec!["a".into(), "multi\nline".into(), "".into()],
        nested: [("x".to_string(), Some(1.5)), ("y".to_string(), None)].into_iter().collect() };
    writer_cases(&mut sink, &mut o, &mut rng, &rec, "Rec", a.thorough);
    writer_cases(&mut sink, &mut o, &mut rng, &vec![vec![1, 2], vec![], vec![3]], "Vec<Vec<i32>>", a.thorough);
    writer_cases(&mut sink, &mut o, &mut rng, &"plain", "str", a.thorough);
    // user `Serialize` impls / `serialize_with` helpers that WRAP the errors of the part they write (error context):
    // a writer fault inside such a part must still come back as the I/O error
    let wrapped = WrapDoc { id: 7, items: Wrap(vec![Wrap("alpha".to_string()), Wrap("beta gamma".to_string()), Wrap("multi\nline text".to_string())]),
        meta: Wrap([("k1".to_string(), Wrap(1.5f64)), ("k2".to_string(), Wrap(-2.0))].into_iter().collect()), tail: "end".into() };
    writer_cases(&mut sink, &mut o, &mut rng, &wrapped, "WrapDoc", a.thorough);

    o.out.flush().unwrap();
    let fails: u64 = o.per_id.values().sum();
    for (k, v) in &o.per_id { for _ in 0..*v { sink.count(&format!("oracle.FAIL.{k}")); } }
    sink.finish(&a.out, "iofault", serde_json::json!({
        "distinct_nontrivial": nontrivial,
        "oracle_failures": fails,
        "measured_max_pull_beyond_cap": st.max_over_cap,
        "measured_max_pull_beyond_cap_case": st.max_over_cap_case,
        "allowance_bound_checked": allowance,
        "rule": "reader side: hand corpus + generated tag-free/merge-free multi-document streams (incl. `%` directive lines, so that faults and caps cut the input inside a directive) x EVERY fault position k in 0..=len (48 sampled positions for longer documents in quick tier) x {reader fails forever with kind Other, fails once (Other, ConnectionReset), clean EOF at k (includes EOF inside a code point), fails with kind UnexpectedEof forever/once} x chunkings {1, 3, whole} and x every cap in 0..=len+2 x chunkings {1, whole}; for each configuration the hook reader_items_with_cell gives the parser items and the pulls at which the error cell was set; compared with the Lean protocol model: result of from_reader_with_options::<IgnoredAny> (ok / error kind), the item list of read_with_options::<IgnoredAny> (ok / error kind per item). Oracle: cell set or cap breach or EOF inside a code point => Err (single) / an Err item (iterator); closure reader helper = from_reader; cap >= length changes nothing; bytes pulled <= cap + allowance (= 1 probe byte of RawGate + 1 KiB diagnostic read-ahead of the ring reader; measured on a 150 KB input with caps 0..64 KiB, with and without BOM, and on a 157 KB UTF-16 input); a reader error of any kind => Err. Raw-byte gate (`iofault gate`): UTF-16 LE/BE texts (incl. surrogate pairs in the middle / at the end) cut at EVERY byte position x chunkings {1, 3, whole} (+ a failing call after the cut), caps {0, 2, 3, n/2, n-2, n-1, n, n+1} on the RAW length, UTF-8 with and without BOM x caps raw-4..raw+1 x chunkings {1, 2, whole}, and every corpus document x every cap: compared with Model/RawGate.lean: how the raw stream ended (eof / kind of the first error in the cell), bytes pulled from the caller's reader, outcome class (err after a fault, else the class of from_str on the decoded text); oracle: EVERY UTF-16 cut inside a code unit or after a high surrogate, and every cut inside a multi-byte character of UTF-8 input WITH byte-order mark => Err from from_reader / closure reader / an Err item from read; complete marked UTF-8 = the same text without the mark; raw > cap => Err, raw <= cap => unaffected for every encoding (incl. UTF-16 text of 3-byte characters, whose decoded size exceeds its raw size). writer side: fault-free write calls recorded, then for every k the k-th write fails (kinds Other, BrokenPipe), plus random schedules of short writes / Interrupted / zero-length accepts; compared with the model: result kind and accepted bytes; oracle: accepted bytes are a prefix of the fault-free output, Err is the I/O error. Non-trivial = reader configurations with a fault or an active cap.",
    }));
    0
}

fn probe(_a: &Args) -> i32 {
    start_watchdog(10);
    for (text, end, tail, cap) in [
        ("~\n---\na: 1\n", 2usize, Tail::FailSticky(0), None),
        ("~\n---\na: 1\n", 11, Tail::Eof, Some(2usize)),
        ("x\n", 0, Tail::FailOnce(0), None),
        ("a: 1\nb: 2\n", 5, Tail::FailSticky(1), None),
    ] {
        let mut rd = SchedReader::new(text.as_bytes(), &[], 1, end, tail);
        let items: Vec<String> = {
            let it = serde_saphyr::read_with_options::<_, BTreeMap<String, i32>>(&mut rd, opts(cap));
            it.map(|r| match r { Ok(v) => format!("Ok({v:?})"), Err(e) => format!("Err({})", err_kind(&e)) }).collect()
        };
        println!("read {:?} end={} tail={:?} cap={:?} => items {:?} pulled={}", text, end, tail, cap, items, rd.pulled);
    }
    // raw bytes through the whole pipeline: value / error (kind and message), iterator items, bytes pulled, cell
    let show = |label: &str, raw: &[u8], cap: Option<usize>, chunk: usize| {
        let mut rd = SchedReader::new(raw, &[], chunk, raw.len(), Tail::Eof);
        let r = serde_saphyr::from_reader_with_options::<_, serde_json::Value>(&mut rd, opts(cap));
        let (_, fired) = h::reader_items_with_cell(SchedReader::new(raw, &[], chunk, raw.len(), Tail::Eof), cap, 1000);
        let mut o2 = opts(cap); o2.crop_radius = 0;
        let msg = match serde_saphyr::from_reader_with_options::<_, serde_json::Value>(SchedReader::new(raw, &[], chunk, raw.len(), Tail::Eof), o2) { Ok(_) => String::new(), Err(e) => format!(" msg={:?}", e.to_string()) };
        let mut rd3 = SchedReader::new(raw, &[], chunk, raw.len(), Tail::Eof);
        let items: Vec<String> = serde_saphyr::read_with_options::<_, serde_json::Value>(&mut rd3, opts(cap)).take(20)
            .map(|x| match x { Ok(v) => format!("Ok({v})"), Err(e) => format!("Err({})", err_kind(&e)) }).collect();
        let s = std::str::from_utf8(raw).ok().map(|t| match serde_saphyr::from_str_with_options::<serde_json::Value>(t, opts(None)) { Ok(v) => format!("Ok({v})"), Err(e) => format!("Err({})", err_kind(&e)) });
        println!("{label} raw={} cap={cap:?} chunk={} => {} pulled={} fired={} iter={items:?} from_str={s:?}{msg}", hex_bytes(raw), if chunk == usize::MAX { 0 } else { chunk },
            match &r { Ok(v) => format!("Ok({v})"), Err(e) => format!("Err({})", err_kind(e)) }, rd.pulled, fires_tok(&fired));
    };
    let u16le = |t: &str| { let mut v = vec![0xFF, 0xFE]; for u in t.encode_utf16() { v.extend_from_slice(&u.to_le_bytes()); } v };
    let u16be = |t: &str| { let mut v = vec![0xFE, 0xFF]; for u in t.encode_utf16() { v.extend_from_slice(&u.to_be_bytes()); } v };
    for chunk in [1usize, usize::MAX] {
        show("marked utf8 valid", "\u{feff}a: \u{e9}\u{20ac}\u{1F600}\nb: [1, 2]\n".as_bytes(), None, chunk);
        show("marked utf8 multi-doc", "\u{feff}a: 1\n---\nb: \u{e9}\n".as_bytes(), None, chunk);
        show("mark only", b"\xEF\xBB\xBF", None, chunk);
        show("mark + newline", b"\xEF\xBB\xBF\n", None, chunk);
        show("double utf8 mark", "\u{feff}\u{feff}a: 1\n".as_bytes(), None, chunk);
        show("mark in the middle", "a: \u{feff}x\n".as_bytes(), None, chunk);
        show("partial mark EF", b"\xEF", None, chunk);
        show("partial mark EF BB", b"\xEF\xBB", None, chunk);
        show("partial mark EF BB 61", b"\xEF\xBB\x61", None, chunk);
        show("marked utf8 cut inside e-acute", b"\xEF\xBB\xBFa: \xC3", None, chunk);
        show("marked utf8 cut inside euro", b"\xEF\xBB\xBFa: x\xE2\x82", None, chunk);
        show("marked utf8 invalid byte mid", b"\xEF\xBB\xBFa: \xFFz\nb: 1\n", None, chunk);
        show("marked utf8 overlong", b"\xEF\xBB\xBFa: \xC0\xAFz\n", None, chunk);
        show("marked utf8 surrogate", b"\xEF\xBB\xBFa: \xED\xA0\x80z\n", None, chunk);
        show("unmarked utf8 invalid byte mid", b"a: \xFFz\nb: 1\n", None, chunk);
        show("unmarked utf8 cut inside e-acute", b"a: \xC3", None, chunk);
        show("utf16le valid", &u16le("a: x\u{1F600}\u{e9}\n"), None, chunk);
        show("utf16be valid", &u16be("a: x\u{1F600}\u{e9}\n"), None, chunk);
        show("utf16le double mark", &u16le("\u{feff}a: 1\n"), None, chunk);
        show("utf16be double mark", &u16be("\u{feff}a: 1\n"), None, chunk);
        show("utf16le mark only+1 unit", &u16le("a"), None, chunk);
        show("utf16 bom only", &[0xFF, 0xFE], None, chunk);
        show("utf16le lone low surrogate", &[0xFF, 0xFE, 0x61, 0, 0x3A, 0, 0x20, 0, 0x00, 0xDC, 0x7A, 0], None, chunk);
        // caps: UTF-8 with the limit inside a code point, marked and unmarked, multi-document
        let t = "k: \u{e9}\u{20ac}\u{1F600}\n";
        for cap in 3..=t.len() + 1 { show("utf8 cap", t.as_bytes(), Some(cap), chunk); }
        let tm = format!("{}{t}", "\u{feff}");
        for cap in 5..=tm.len() + 1 { show("marked utf8 cap", tm.as_bytes(), Some(cap), chunk); }
        let md = "a: 1\n---\nb: \u{e9}\n---\nc: 3\n";
        for cap in 0..=md.len() + 1 { show("multi-doc cap", md.as_bytes(), Some(cap), chunk); }
        let cjk = u16le("a: \u{65e5}\u{672c}\u{8a9e}\u{65e5}\u{672c}\u{8a9e}");
        for cap in [cjk.len() - 1, cjk.len(), cjk.len() + 1, cjk.len() + 4] { show("utf16 cjk", &cjk, Some(cap), chunk); }
        let cjkm = u16be("a: \u{65e5}\n---\nb: \u{672c}\u{8a9e}\u{65e5}\u{672c}\u{8a9e}\n");
        for cap in [cjkm.len() - 12, cjkm.len() - 1, cjkm.len(), cjkm.len() + 1] { show("utf16be cjk multi-doc", &cjkm, Some(cap), chunk); }
    }
    0
}
