//! C18: `PathMap::search` (op-level differential against the Lean model), the path recorder
//! (recorded map vs. model of the traversal) and the validating entry points (oracle stream).
use crate::proto::*;
use crate::Args;
use serde_saphyr::verif_hooks::pathmap as h;
use serde_saphyr::verif_hooks::pathmap::Seg;

#[path = "pathmap_oracle.rs"]
mod oracle;

pub fn run(mode: &str, a: &Args) -> i32 {
    match mode {
        "gen" => generate(a),
        _ => { eprintln!("pathmap: unknown mode {mode}"); 2 }
    }
}

pub fn seg_tok(s: &Seg) -> String {
    match s {
        Seg::Key(n) => format!("K {}", hex(n)),
        Seg::Index(i) => format!("I {}", hex(&i.to_string())),
    }
}
pub fn path_tok(p: &[Seg]) -> String {
    let mut v = vec![p.len().to_string()];
    v.extend(p.iter().map(seg_tok));
    v.join(" ")
}
pub fn out_path_tok(p: &[h::OutSeg]) -> String {
    let mut v = vec![p.len().to_string()];
    v.extend(p.iter().map(|(is_index, n)| format!("{} {}", if *is_index { "I" } else { "K" }, hex(n))));
    v.join(" ")
}

fn code(lc: (u64, u64)) -> u64 { (lc.0 << 20) | lc.1 }

fn found_tok(r: &Option<h::Found>) -> String {
    match r {
        None => "none".into(),
        Some((r, d, leaf)) => format!("some {} {} {}", code(*r), code(*d), hex(leaf)),
    }
}

fn k(s: &str) -> Seg { Seg::Key(s.to_string()) }

/// All orderings of `xs` (Heap's algorithm is overkill for n ≤ 4).
fn permutations<T: Clone>(xs: &[T]) -> Vec<Vec<T>> {
    if xs.len() <= 1 { return vec![xs.to_vec()]; }
    let mut out = Vec::new();
    for i in 0..xs.len() {
        let mut rest = xs.to_vec();
        let x = rest.remove(i);
        for mut p in permutations(&rest) {
            p.insert(0, x.clone());
            out.push(p);
        }
    }
    out
}

struct SearchGen<'a> {
    sink: &'a mut Sink,
    seen_sets: std::collections::BTreeSet<String>,
    nontrivial: std::collections::BTreeSet<String>,
    order_dependent: Vec<String>,
}

impl<'a> SearchGen<'a> {
    /// One (set of entries, query): emitted once per insertion order in `orders`. Entry `i` of `base`
    /// carries reference (i+1, 1) and defined (i+1, 2) whatever the insertion order.
    fn emit(&mut self, base: &[Vec<Seg>], query: &[Seg], all_orders: bool, tag: &str) {
        let ids: Vec<usize> = (0..base.len()).collect();
        let orders = if all_orders { permutations(&ids) } else { vec![ids] };
        let mut answers = std::collections::BTreeSet::new();
        for ord in &orders {
            let entries: Vec<(Vec<Seg>, (usize, usize), (usize, usize))> =
                ord.iter().map(|&i| (base[i].clone(), (i + 1, 1), (i + 1, 2))).collect();
            let q = query.to_vec();
            let r = std::panic::catch_unwind(|| h::build_and_search(&entries, &q));
            let ans = match &r {
                Ok(f) => found_tok(f),
                Err(_) => "panic".to_string(),
            };
            let mut op = format!("pathmap search {}", entries.len());
            for (p, r, d) in &entries {
                op.push(' ');
                op.push_str(&path_tok(p));
                op.push_str(&format!(" {} {}", code((r.0 as u64, r.1 as u64)), code((d.0 as u64, d.1 as u64))));
            }
            op.push(' ');
            op.push_str(&path_tok(query));
            self.sink.case(&op, &ans);
            answers.insert(ans.clone());
            // distribution
            let exact = base.iter().any(|p| p.as_slice() == query);
            let class = match (&r, exact) {
                (Err(_), _) => "panic",
                (Ok(Some(_)), true) => "exact_hit",
                (Ok(Some(_)), false) => "fuzzy_hit",
                (Ok(None), true) => "exact_key_present_but_none",
                (Ok(None), false) if base.is_empty() => "none_empty_map",
                (Ok(None), false) => "none",
            };
            self.sink.count(&format!("search.{tag}.{class}"));
            if class == "fuzzy_hit" || class == "none" || class == "exact_key_present_but_none" {
                let mut key: Vec<String> = base.iter().map(|p| path_tok(p)).collect();
                key.sort();
                self.nontrivial.insert(format!("{}|{}|{}", key.join(","), path_tok(query), class));
            }
        }
        // implementation-only: the answer must not depend on the insertion order when the keys are
        // pairwise distinct (with duplicates the later value wins, so the order is observable).
        let mut uniq = base.to_vec();
        uniq.sort();
        uniq.dedup();
        if uniq.len() == base.len() && answers.len() > 1 {
            self.order_dependent.push(format!("{:?} ? {:?} -> {:?}", base, query, answers));
        }
        self.sink.count(&format!("search.entries.{}", base.len()));
    }
}

fn single_alphabet() -> Vec<Seg> {
    vec![
        k("ab"), k("AB"), k("a_b"), k("aB"), k("a-b"), k("r#ab"), k("ab_c"), k("a_bc"), k("abc"), k("abC"),
        k("0"), k(""), Seg::Index(0), Seg::Index(1),
    ]
}

fn big_alphabet() -> Vec<Seg> {
    let mut v = single_alphabet();
    for s in ["userId", "user_id", "userid", "UserID", "user-id", "user.id", "user id", "USER_ID", "r#userId",
              "HTTPServer", "http_server", "httpServer", "Http_Server", "sha256Sum", "sha_256_sum", "sha256sum",
              "r#type", "type", "Type", "TYPE", "r#", "r#r#ab", "é", "É", "ab_é", "abé", "a", "A", "_", "__", "a__b",
              "1", "01", "x1", "x_1", "X1", "ß", "K", "\u{212a}", "ab ", " ab", "a\u{0}b"] {
        v.push(k(s));
    }
    v.push(Seg::Index(2));
    v.push(Seg::Index(10));
    v
}

fn search_cases(sink: &mut Sink, rng: &mut Rng, thorough: bool) -> (usize, Vec<String>) {
    let mut g = SearchGen { sink, seen_sets: Default::default(), nontrivial: Default::default(), order_dependent: vec![] };
    // A. exhaustive: single-segment paths over a 14-letter alphabet, ordered tuples without repetition
    //    of size 0..3 (= every set in every insertion order), every query of the alphabet.
    let s1: Vec<Vec<Seg>> = single_alphabet().into_iter().map(|s| vec![s]).collect();
    let n = s1.len();
    let mut sets: Vec<Vec<usize>> = vec![vec![]];
    for a in 0..n {
        sets.push(vec![a]);
        for b in (a + 1)..n {
            sets.push(vec![a, b]);
            for c in (b + 1)..n {
                sets.push(vec![a, b, c]);
            }
        }
    }
    for set in &sets {
        let base: Vec<Vec<Seg>> = set.iter().map(|&i| s1[i].clone()).collect();
        for q in &s1 {
            g.emit(&base, q, true, "A");
        }
    }
    // B. exhaustive: paths of length 0..2 over a 4-letter alphabet, sets of size 0..2 in every order,
    //    every query path.
    let s2 = [k("ab"), k("a_b"), Seg::Index(0), k("0")];
    let mut paths: Vec<Vec<Seg>> = vec![vec![]];
    for a in &s2 {
        paths.push(vec![a.clone()]);
        for b in &s2 {
            paths.push(vec![a.clone(), b.clone()]);
        }
    }
    let m = paths.len();
    for a in 0..m {
        for q in &paths {
            g.emit(&[paths[a].clone()], q, true, "B");
        }
        for b in (a + 1)..m {
            for q in &paths {
                g.emit(&[paths[a].clone(), paths[b].clone()], q, true, "B");
            }
        }
    }
    // C. random: 0..4 entries (sometimes with a repeated key: later insert wins) over the large
    //    alphabet, paths of length 0..3, all permutations of the insertion order; the query is an
    //    entry, a respelling of an entry (case / separators / raw prefix / key<->index) or random.
    let big = big_alphabet();
    let rounds = if thorough { 40_000 } else { 1_500 };
    for _ in 0..rounds {
        let ne = rng.below(5);
        let len = rng.below(4);
        let shared_prefix: Vec<Seg> = (0..len.saturating_sub(1)).map(|_| rng.pick(&big).clone()).collect();
        let mut base: Vec<Vec<Seg>> = Vec::new();
        for _ in 0..ne {
            let mut p = if rng.chance(2, 3) { shared_prefix.clone() } else { (0..rng.below(3)).map(|_| rng.pick(&big).clone()).collect() };
            if len > 0 || rng.chance(1, 2) {
                p.push(rng.pick(&big).clone());
            }
            base.push(p);
        }
        if ne >= 2 && rng.chance(1, 8) {
            let d = base[0].clone();
            base.push(d);
        }
        for _ in 0..2 {
            let q: Vec<Seg> = if !base.is_empty() && rng.chance(3, 4) {
                let mut q = rng.pick(&base).clone();
                if !q.is_empty() && rng.chance(3, 4) {
                    let i = rng.below(q.len());
                    q[i] = respell(&q[i], rng, &big);
                }
                q
            } else {
                (0..rng.below(4)).map(|_| rng.pick(&big).clone()).collect()
            };
            g.emit(&base, &q, true, "C");
        }
    }
    let nt = g.nontrivial.len();
    (nt, g.order_dependent)
}

fn respell(s: &Seg, rng: &mut Rng, big: &[Seg]) -> Seg {
    match s {
        Seg::Index(i) => match rng.below(3) {
            0 => Seg::Key(i.to_string()),
            1 => Seg::Index(i + 1),
            _ => Seg::Key("item".into()),
        },
        Seg::Key(n) => {
            let cs: Vec<char> = n.chars().collect();
            match rng.below(7) {
                0 => Seg::Key(n.to_ascii_uppercase()),
                1 => Seg::Key(n.to_ascii_lowercase()),
                2 => Seg::Key(format!("r#{n}")),
                3 => Seg::Key(cs.iter().filter(|c| c.is_ascii_alphanumeric()).collect()),
                4 => {
                    // insert a separator
                    let mut t = cs.clone();
                    let i = rng.below(t.len() + 1);
                    t.insert(i, *rng.pick(&['_', '-', '.', ' ']));
                    Seg::Key(t.into_iter().collect())
                }
                5 => {
                    // toggle the case of one character
                    let mut t = cs.clone();
                    if !t.is_empty() {
                        let i = rng.below(t.len());
                        t[i] = if t[i].is_ascii_uppercase() { t[i].to_ascii_lowercase() } else { t[i].to_ascii_uppercase() };
                    }
                    Seg::Key(t.into_iter().collect())
                }
                _ => rng.pick(big).clone(),
            }
        }
    }
}

fn len_cases(sink: &mut Sink, rng: &mut Rng) {
    let big = big_alphabet();
    for _ in 0..300 {
        let n = rng.below(6);
        let small: Vec<Seg> = (0..3).map(|_| rng.pick(&big).clone()).collect();
        let paths: Vec<Vec<Seg>> = (0..n).map(|_| (0..rng.below(3)).map(|_| rng.pick(&small).clone()).collect()).collect();
        let mut op = format!("pathmap len {}", paths.len());
        for p in &paths {
            op.push(' ');
            op.push_str(&path_tok(p));
        }
        sink.case(&op, &h::build_len(&paths).to_string());
        sink.count("len.cases");
    }
}

fn generate(a: &Args) -> i32 {
    let mut rng = Rng::new(a.seed);
    let mut sink = Sink::new(&a.out, "pathmap");
    let (nontrivial_search, order_dependent) = search_cases(&mut sink, &mut rng, a.thorough);
    len_cases(&mut sink, &mut rng);
    let mut oracle_lines: Vec<serde_json::Value> = Vec::new();
    for od in order_dependent.iter().take(5) {
        oracle_lines.push(serde_json::json!({
            "id": "C18-search-order-dependent", "what": "PathMap::search answers differently for two insertion orders of the same entries",
            "input": od, "observed": "different answers", "expected": "one answer"}));
    }
    let ostats = oracle::run(&mut sink, &mut rng, a.thorough, &mut oracle_lines);
    let path = format!("{}/pathmap.oracle.jsonl", a.out);
    let mut body = String::new();
    for l in &oracle_lines {
        body.push_str(&l.to_string());
        body.push('\n');
    }
    std::fs::write(&path, body).unwrap();
    sink.finish(&a.out, "pathmap", serde_json::json!({
        "distinct_nontrivial": nontrivial_search as u64 + ostats.nontrivial,
        "oracle_documents": ostats.documents,
        "oracle_calls": ostats.calls,
        "oracle_failures": oracle_lines.len(),
        "rule": "search ops: (A) every set of <=3 single-segment paths over a 14-segment alphabet (case / `_` / `-` / raw-prefix / collapsed-vs-token collisions, key \"0\" vs index 0, empty name) x every query of the alphabet x EVERY insertion order; (B) paths of length 0..2 over {ab,a_b,[0],\"0\"}, every set of <=2 x every query x every order; (C) random 0..4(+1 duplicate) entries of length 0..3 over a 60-segment alphabet (camel/snake/kebab/acronym/digit boundaries, non-ASCII, raw identifiers), all permutations, queries = respelt entries. Non-trivial search case = distinct (entry set, query) answered through a fuzzy pass or answered none on a non-empty map. rec ops: recorder map of a generated document of the validated family vs. the model of the traversal. Oracle: validated entry points vs. plain ones and resolution of every reported path (non-trivial = documents with at least one violated constraint).",
    }));
    0
}
