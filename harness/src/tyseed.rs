//! Run-time type descriptions `Ty` implemented as `DeserializeSeed`s that issue exactly the Serde calls
//! `#[derive(Deserialize)]` code issues, producing a canonical value tree `Val`.
use crate::proto::*;
use serde::de::{self, DeserializeSeed, Deserializer, EnumAccess, MapAccess, SeqAccess, VariantAccess, Visitor};
use std::fmt;

thread_local! {
    /// when set, fixed-size positions are requested the way a derived tuple struct requests them
    pub static TUPLE_AS_STRUCT: std::cell::Cell<bool> = const { std::cell::Cell::new(false) };
}

/// kept out of line: the seed's `deserialize` frame is part of every level of a deep recursion (C01 stack probes)
#[inline(never)]
fn tuple_as_struct() -> bool { TUPLE_AS_STRUCT.with(|f| f.get()) }
/// out of line for the same reason (a second inlined copy of the sequence access would enlarge every frame)
#[inline(never)]
fn de_tuple<'de, 'a, D: Deserializer<'de>>(d: D, n: usize, v: V<'a>) -> Result<Val, D::Error> {
    if tuple_as_struct() { d.deserialize_tuple_struct("TS", n, v) } else { d.deserialize_tuple(n, v) }
}

#[derive(Clone, Debug, PartialEq)]
pub enum Ty {
    Bool,
    Int(bool, u32),
    Float(u32),
    Char,
    Str,
    Unit,
    Bytes,
    Option(Box<Ty>),
    Seq(Box<Ty>),
    Tuple(Vec<Ty>),
    Map(Box<Ty>, Box<Ty>),
    Struct(Vec<(&'static str, Ty)>, bool),
    Enum(&'static str, Vec<(&'static str, VTy)>),
    Newtype(Box<Ty>),
    Any,
}

#[derive(Clone, Debug, PartialEq)]
pub enum VTy {
    Unit,
    Newtype(Ty),
    Tuple(Vec<Ty>),
    Struct(Vec<(&'static str, Ty)>),
}

#[derive(Clone, Debug, PartialEq)]
pub enum Val {
    Unit,
    Bool(bool),
    Int(i128),
    /// unsigned values above i128::MAX
    Big(u128),
    F64(u64),
    F32(u32),
    Char(char),
    Str(String),
    Bytes(Vec<u8>),
    None,
    Some(Box<Val>),
    Seq(Vec<Val>),
    Map(Vec<(Val, Val)>),
    Struct(Vec<(String, Val)>),
    Variant(String, Box<Val>),
}

pub fn leak(s: &str) -> &'static str {
    Box::leak(s.to_string().into_boxed_str())
}

impl Ty {
    pub fn tokens(&self) -> String {
        match self {
            Ty::Bool => "bool".into(),
            Ty::Int(true, w) => format!("i {w}"),
            Ty::Int(false, w) => format!("u {w}"),
            Ty::Float(w) => format!("f {w}"),
            Ty::Char => "char".into(),
            Ty::Str => "string".into(),
            Ty::Unit => "unit".into(),
            Ty::Bytes => "bytes".into(),
            Ty::Any => "any".into(),
            Ty::Option(t) => format!("opt {}", t.tokens()),
            Ty::Seq(t) => format!("seq {}", t.tokens()),
            Ty::Newtype(t) => format!("newtype {}", t.tokens()),
            Ty::Tuple(ts) => format!("tup {}{}", ts.len(), ts.iter().map(|t| format!(" {}", t.tokens())).collect::<String>()),
            Ty::Map(k, v) => format!("map {} {}", k.tokens(), v.tokens()),
            Ty::Struct(fs, deny) => format!("struct {} {}{}", b(*deny), fs.len(), fields_tokens(fs)),
            Ty::Enum(name, vs) => format!(
                "enum {} {}{}",
                hex(name),
                vs.len(),
                vs.iter()
                    .map(|(n, v)| format!(
                        " {} {}",
                        hex(n),
                        match v {
                            VTy::Unit => "vu".to_string(),
                            VTy::Newtype(t) => format!("vn {}", t.tokens()),
                            VTy::Tuple(ts) => format!("vt {}{}", ts.len(), ts.iter().map(|t| format!(" {}", t.tokens())).collect::<String>()),
                            VTy::Struct(fs) => format!("vs {}{}", fs.len(), fields_tokens(fs)),
                        }
                    ))
                    .collect::<String>()
            ),
        }
    }
}

fn fields_tokens(fs: &[(&'static str, Ty)]) -> String {
    fs.iter().map(|(n, t)| format!(" {} {}", hex(n), t.tokens())).collect()
}

impl Val {
    pub fn tokens(&self) -> String {
        match self {
            Val::Unit => "U".into(),
            Val::Bool(x) => format!("B{}", b(*x)),
            Val::Int(i) => format!("I{i}"),
            Val::Big(u) => format!("I{u}"),
            Val::F64(x) => format!("F64:{}", if f64::from_bits(*x).is_nan() { "nan".to_string() } else { x.to_string() }),
            Val::F32(x) => format!("F32:{}", if f32::from_bits(*x).is_nan() { "nan".to_string() } else { x.to_string() }),
            Val::Char(c) => format!("C{}", *c as u32),
            Val::Str(s) => format!("S{}", hex(s)),
            Val::Bytes(v) => format!("Y{}", hex_bytes(v)),
            Val::None => "N".into(),
            Val::Some(v) => format!("O {}", v.tokens()),
            Val::Seq(vs) => format!("L {}{}", vs.len(), vs.iter().map(|v| format!(" {}", v.tokens())).collect::<String>()),
            Val::Map(es) => format!("M {}{}", es.len(), es.iter().map(|(k, v)| format!(" {} {}", k.tokens(), v.tokens())).collect::<String>()),
            Val::Struct(fs) => format!("T {}{}", fs.len(), fs.iter().map(|(n, v)| format!(" {} {}", hex(n), v.tokens())).collect::<String>()),
            Val::Variant(n, p) => format!("V {} {}", hex(n), p.tokens()),
        }
    }
}

pub struct Seed<'a>(pub &'a Ty);

struct V<'a>(&'a Ty);

thread_local! {
    /// 0 = bare types. Otherwise every type position is read THROUGH one of the crate's presentation wrappers
    /// (their `Deserialize` impls must be transparent): strings through `LitString` (odd modes) / `FoldString`,
    /// sequences and tuples through `FlowSeq<_>`, mappings and structs through `FlowMap<_>`, everything else through
    /// `Commented<_>` (modes 1, 2) / `SpaceAfter<_>`.
    pub static WRAP_MODE: std::cell::Cell<u8> = const { std::cell::Cell::new(0) };
    static WRAP_TY: std::cell::RefCell<Vec<Ty>> = const { std::cell::RefCell::new(Vec::new()) };
}
/// the type a wrapper's inner `T::deserialize` call reads: the one pushed just before the wrapper was entered
pub struct DynW(pub Val);
impl<'de> serde::Deserialize<'de> for DynW {
    fn deserialize<D: Deserializer<'de>>(d: D) -> Result<Self, D::Error> {
        let ty = WRAP_TY.with(|t| t.borrow_mut().pop()).expect("WRAP_TY");
        Ok(DynW(bare(&ty, d)?))
    }
}

impl<'de, 'a> DeserializeSeed<'de> for Seed<'a> {
    type Value = Val;
    fn deserialize<D: Deserializer<'de>>(self, d: D) -> Result<Val, D::Error> {
        use serde::Deserialize as _;
        let ty = self.0;
        let mode = WRAP_MODE.with(|w| w.get());
        if mode == 0 { return bare(ty, d); }
        let push = || WRAP_TY.with(|t| t.borrow_mut().push(ty.clone()));
        match ty {
            Ty::Str if mode % 2 == 1 => serde_saphyr::LitString::deserialize(d).map(|s| Val::Str(s.0)),
            Ty::Str => serde_saphyr::FoldString::deserialize(d).map(|s| Val::Str(s.0)),
            Ty::Seq(_) | Ty::Tuple(_) => { push(); serde_saphyr::FlowSeq::<DynW>::deserialize(d).map(|w| w.0.0) }
            Ty::Map(..) | Ty::Struct(..) => { push(); serde_saphyr::FlowMap::<DynW>::deserialize(d).map(|w| w.0.0) }
            _ if mode <= 2 => { push(); serde_saphyr::Commented::<DynW>::deserialize(d).map(|w| w.0.0) }
            _ => { push(); serde_saphyr::SpaceAfter::<DynW>::deserialize(d).map(|w| w.0.0) }
        }
    }
}

fn bare<'de, D: Deserializer<'de>>(ty: &Ty, d: D) -> Result<Val, D::Error> {
    {
        match ty {
            Ty::Bool => d.deserialize_bool(V(ty)),
            Ty::Int(true, 8) => d.deserialize_i8(V(ty)),
            Ty::Int(true, 16) => d.deserialize_i16(V(ty)),
            Ty::Int(true, 32) => d.deserialize_i32(V(ty)),
            Ty::Int(true, 64) => d.deserialize_i64(V(ty)),
            Ty::Int(true, _) => d.deserialize_i128(V(ty)),
            Ty::Int(false, 8) => d.deserialize_u8(V(ty)),
            Ty::Int(false, 16) => d.deserialize_u16(V(ty)),
            Ty::Int(false, 32) => d.deserialize_u32(V(ty)),
            Ty::Int(false, 64) => d.deserialize_u64(V(ty)),
            Ty::Int(false, _) => d.deserialize_u128(V(ty)),
            Ty::Float(32) => d.deserialize_f32(V(ty)),
            Ty::Float(_) => d.deserialize_f64(V(ty)),
            Ty::Char => d.deserialize_char(V(ty)),
            Ty::Str => d.deserialize_string(V(ty)),
            Ty::Unit => d.deserialize_unit(V(ty)),
            Ty::Bytes => d.deserialize_byte_buf(V(ty)),
            Ty::Option(_) => d.deserialize_option(V(ty)),
            Ty::Seq(_) => d.deserialize_seq(V(ty)),
            // derived tuple STRUCTS call `deserialize_tuple_struct`; the typed model has one fixed-size sequence position
            Ty::Tuple(ts) => de_tuple(d, ts.len(), V(ty)),
            Ty::Map(..) => d.deserialize_map(V(ty)),
            Ty::Struct(fs, _) => {
                let names: Vec<&'static str> = fs.iter().map(|f| f.0).collect();
                d.deserialize_struct("S", Box::leak(names.into_boxed_slice()), V(ty))
            }
            Ty::Enum(name, vs) => {
                let names: Vec<&'static str> = vs.iter().map(|f| f.0).collect();
                d.deserialize_enum(name, Box::leak(names.into_boxed_slice()), V(ty))
            }
            Ty::Newtype(_) => d.deserialize_newtype_struct("W", V(ty)),
            Ty::Any => d.deserialize_any(V(ty)),
        }
    }
}

/// field / variant identifier, as derive's `__Field` deserializer does it
struct Ident;
impl<'de> DeserializeSeed<'de> for Ident {
    type Value = String;
    fn deserialize<D: Deserializer<'de>>(self, d: D) -> Result<String, D::Error> {
        struct IV;
        impl<'de> Visitor<'de> for IV {
            type Value = String;
            fn expecting(&self, f: &mut fmt::Formatter) -> fmt::Result {
                f.write_str("field identifier")
            }
            fn visit_str<E: de::Error>(self, v: &str) -> Result<String, E> {
                Ok(v.to_string())
            }
            fn visit_bytes<E: de::Error>(self, v: &[u8]) -> Result<String, E> {
                Ok(String::from_utf8_lossy(v).to_string())
            }
            fn visit_u64<E: de::Error>(self, v: u64) -> Result<String, E> {
                Ok(format!("#{v}"))
            }
        }
        d.deserialize_identifier(IV)
    }
}

fn struct_from_map<'de, A: MapAccess<'de>>(fs: &[(&'static str, Ty)], deny: bool, mut map: A) -> Result<Val, A::Error> {
    let mut got: Vec<Option<Val>> = vec![None; fs.len()];
    while let Some(key) = map.next_key_seed(Ident)? {
        match fs.iter().position(|f| f.0 == key) {
            Some(i) => {
                if got[i].is_some() {
                    return Err(de::Error::duplicate_field(fs[i].0));
                }
                got[i] = Some(map.next_value_seed(Seed(&fs[i].1))?);
            }
            None => {
                if deny {
                    let names: Vec<&'static str> = fs.iter().map(|f| f.0).collect();
                    return Err(de::Error::unknown_field(&key, Box::leak(names.into_boxed_slice())));
                }
                let _ = map.next_value::<de::IgnoredAny>()?;
            }
        }
    }
    let mut out = Vec::new();
    for (i, (n, t)) in fs.iter().enumerate() {
        match got[i].take() {
            Some(v) => out.push((n.to_string(), v)),
            None => match t {
                Ty::Option(_) => out.push((n.to_string(), Val::None)),
                _ => return Err(de::Error::missing_field(n)),
            },
        }
    }
    Ok(Val::Struct(out))
}

fn tuple_from_seq<'de, A: SeqAccess<'de>>(ts: &[Ty], mut seq: A) -> Result<Val, A::Error> {
    let mut out = Vec::new();
    for (i, t) in ts.iter().enumerate() {
        match seq.next_element_seed(Seed(t))? {
            Some(v) => out.push(v),
            None => return Err(de::Error::invalid_length(i, &"tuple")),
        }
    }
    Ok(Val::Seq(out))
}

impl<'de, 'a> Visitor<'de> for V<'a> {
    type Value = Val;
    fn expecting(&self, f: &mut fmt::Formatter) -> fmt::Result {
        write!(f, "{:?}", self.0)
    }
    fn visit_bool<E: de::Error>(self, v: bool) -> Result<Val, E> {
        match self.0 { Ty::Bool | Ty::Any => Ok(Val::Bool(v)), _ => Err(de::Error::invalid_type(de::Unexpected::Bool(v), &self)) }
    }
    fn visit_i8<E: de::Error>(self, v: i8) -> Result<Val, E> { self.int(v as i128) }
    fn visit_i16<E: de::Error>(self, v: i16) -> Result<Val, E> { self.int(v as i128) }
    fn visit_i32<E: de::Error>(self, v: i32) -> Result<Val, E> { self.int(v as i128) }
    fn visit_i64<E: de::Error>(self, v: i64) -> Result<Val, E> { self.int(v as i128) }
    fn visit_i128<E: de::Error>(self, v: i128) -> Result<Val, E> { self.int(v) }
    fn visit_u8<E: de::Error>(self, v: u8) -> Result<Val, E> { self.int(v as i128) }
    fn visit_u16<E: de::Error>(self, v: u16) -> Result<Val, E> { self.int(v as i128) }
    fn visit_u32<E: de::Error>(self, v: u32) -> Result<Val, E> { self.int(v as i128) }
    fn visit_u64<E: de::Error>(self, v: u64) -> Result<Val, E> { self.int(v as i128) }
    fn visit_u128<E: de::Error>(self, v: u128) -> Result<Val, E> {
        match self.0 { Ty::Int(..) | Ty::Any => Ok(if v > i128::MAX as u128 { Val::Big(v) } else { Val::Int(v as i128) }), _ => Err(de::Error::invalid_type(de::Unexpected::Other("u128"), &self)) }
    }
    fn visit_f32<E: de::Error>(self, v: f32) -> Result<Val, E> {
        match self.0 { Ty::Float(_) | Ty::Any => Ok(Val::F32(v.to_bits())), _ => Err(de::Error::invalid_type(de::Unexpected::Float(v as f64), &self)) }
    }
    fn visit_f64<E: de::Error>(self, v: f64) -> Result<Val, E> {
        match self.0 { Ty::Float(_) | Ty::Any => Ok(Val::F64(v.to_bits())), _ => Err(de::Error::invalid_type(de::Unexpected::Float(v), &self)) }
    }
    fn visit_char<E: de::Error>(self, v: char) -> Result<Val, E> {
        match self.0 { Ty::Char | Ty::Any => Ok(Val::Char(v)), _ => Err(de::Error::invalid_type(de::Unexpected::Char(v), &self)) }
    }
    fn visit_str<E: de::Error>(self, v: &str) -> Result<Val, E> {
        match self.0 { Ty::Str | Ty::Any => Ok(Val::Str(v.to_string())), _ => Err(de::Error::invalid_type(de::Unexpected::Str(v), &self)) }
    }
    fn visit_byte_buf<E: de::Error>(self, v: Vec<u8>) -> Result<Val, E> {
        match self.0 { Ty::Bytes | Ty::Any => Ok(Val::Bytes(v)), _ => Err(de::Error::invalid_type(de::Unexpected::Bytes(&v), &self)) }
    }
    fn visit_bytes<E: de::Error>(self, v: &[u8]) -> Result<Val, E> { self.visit_byte_buf(v.to_vec()) }
    fn visit_unit<E: de::Error>(self) -> Result<Val, E> {
        match self.0 { Ty::Unit | Ty::Any => Ok(Val::Unit), _ => Err(de::Error::invalid_type(de::Unexpected::Unit, &self)) }
    }
    fn visit_none<E: de::Error>(self) -> Result<Val, E> {
        match self.0 { Ty::Option(_) | Ty::Any => Ok(Val::None), _ => Err(de::Error::invalid_type(de::Unexpected::Option, &self)) }
    }
    fn visit_some<D: Deserializer<'de>>(self, d: D) -> Result<Val, D::Error> {
        match self.0 {
            Ty::Option(t) => Ok(Val::Some(Box::new(Seed(t).deserialize(d)?))),
            _ => Err(de::Error::invalid_type(de::Unexpected::Option, &self)),
        }
    }
    fn visit_newtype_struct<D: Deserializer<'de>>(self, d: D) -> Result<Val, D::Error> {
        match self.0 {
            Ty::Newtype(t) => Seed(t).deserialize(d),
            _ => Err(de::Error::invalid_type(de::Unexpected::NewtypeStruct, &self)),
        }
    }
    fn visit_seq<A: SeqAccess<'de>>(self, mut seq: A) -> Result<Val, A::Error> {
        match self.0 {
            Ty::Seq(t) => {
                let mut out = Vec::new();
                while let Some(v) = seq.next_element_seed(Seed(t))? {
                    out.push(v);
                }
                Ok(Val::Seq(out))
            }
            Ty::Any => {
                let mut out = Vec::new();
                while let Some(v) = seq.next_element_seed(Seed(&Ty::Any))? {
                    out.push(v);
                }
                Ok(Val::Seq(out))
            }
            Ty::Tuple(ts) => tuple_from_seq(ts, seq),
            _ => Err(de::Error::invalid_type(de::Unexpected::Seq, &self)),
        }
    }
    fn visit_map<A: MapAccess<'de>>(self, mut map: A) -> Result<Val, A::Error> {
        match self.0 {
            Ty::Map(k, v) => {
                let mut out = Vec::new();
                while let Some(kv) = map.next_key_seed(Seed(k))? {
                    let vv = map.next_value_seed(Seed(v))?;
                    out.push((kv, vv));
                }
                Ok(Val::Map(out))
            }
            Ty::Any => {
                let mut out = Vec::new();
                while let Some(kv) = map.next_key_seed(Seed(&Ty::Any))? {
                    let vv = map.next_value_seed(Seed(&Ty::Any))?;
                    out.push((kv, vv));
                }
                Ok(Val::Map(out))
            }
            Ty::Struct(fs, deny) => struct_from_map(fs, *deny, map),
            _ => Err(de::Error::invalid_type(de::Unexpected::Map, &self)),
        }
    }
    fn visit_enum<A: EnumAccess<'de>>(self, data: A) -> Result<Val, A::Error> {
        let Ty::Enum(_, vs) = self.0 else {
            return Err(de::Error::invalid_type(de::Unexpected::Enum, &self));
        };
        // derive: variant identifier via deserialize_identifier with a visitor that rejects unknown names
        struct VarSeed<'v>(&'v [(&'static str, VTy)]);
        impl<'de, 'v> DeserializeSeed<'de> for VarSeed<'v> {
            type Value = usize;
            fn deserialize<D: Deserializer<'de>>(self, d: D) -> Result<usize, D::Error> {
                let name = Ident.deserialize(d)?;
                match self.0.iter().position(|v| v.0 == name) {
                    Some(i) => Ok(i),
                    None => {
                        let names: Vec<&'static str> = self.0.iter().map(|f| f.0).collect();
                        Err(de::Error::unknown_variant(&name, Box::leak(names.into_boxed_slice())))
                    }
                }
            }
        }
        let (idx, va) = data.variant_seed(VarSeed(vs))?;
        let (name, vt) = &vs[idx];
        let payload = match vt {
            VTy::Unit => {
                va.unit_variant()?;
                Val::Unit
            }
            VTy::Newtype(t) => va.newtype_variant_seed(Seed(t))?,
            VTy::Tuple(ts) => {
                struct TV<'t>(&'t [Ty]);
                impl<'de, 't> Visitor<'de> for TV<'t> {
                    type Value = Val;
                    fn expecting(&self, f: &mut fmt::Formatter) -> fmt::Result { f.write_str("tuple variant") }
                    fn visit_seq<A: SeqAccess<'de>>(self, seq: A) -> Result<Val, A::Error> { tuple_from_seq(self.0, seq) }
                }
                va.tuple_variant(ts.len(), TV(ts))?
            }
            VTy::Struct(fs) => {
                struct SV<'t>(&'t [(&'static str, Ty)]);
                impl<'de, 't> Visitor<'de> for SV<'t> {
                    type Value = Val;
                    fn expecting(&self, f: &mut fmt::Formatter) -> fmt::Result { f.write_str("struct variant") }
                    fn visit_map<A: MapAccess<'de>>(self, map: A) -> Result<Val, A::Error> { struct_from_map(self.0, false, map) }
                }
                let names: Vec<&'static str> = fs.iter().map(|f| f.0).collect();
                va.struct_variant(Box::leak(names.into_boxed_slice()), SV(fs))?
            }
        };
        Ok(Val::Variant(name.to_string(), Box::new(payload)))
    }
}

impl<'a> V<'a> {
    fn int<E: de::Error>(self, v: i128) -> Result<Val, E> {
        match self.0 {
            Ty::Int(..) | Ty::Any => Ok(Val::Int(v)),
            _ => Err(de::Error::invalid_type(de::Unexpected::Other("integer"), &self)),
        }
    }
}
