//! C15 — a call's result depends only on its arguments, not on earlier or nested calls.
//!
//! ORACLE (implementation only): every sequence of calls of length <= 3 (thorough: <= 4) over a fixed
//! alphabet of top-level calls is run on one thread; the canonical textual result of every call must equal
//! the result of the same call on a FRESH thread, and the probes of the two thread-locals
//! (`verif_hooks::tls`) must be clean after every completed call. A second sweep runs every alphabet call
//! NESTED inside a user `Deserialize` impl (four host positions) and demands (a) the nested result = the
//! fresh result and (b) the enclosing call's result = the result of the same enclosing call with the nested
//! parse replaced by a non-parsing `Deserialize`. (a) and (b) failed before the repairs 4aaf328 and b68ea91
//! (oracle ids `C15-nested-call-inherits-fallback-location`, `C15-nested-call-clobbers-anchors`: now
//! regression checks, nothing is suppressed).
//!
//! DIFFERENTIAL (model vs implementation): every alphabet call carries a *script* — the tree of
//! thread-local operations the deserializer performs on that input (document scopes, anchor contexts,
//! wrapper visitors, fallback guards incl. the lazily created map-access key guard and the scoped guard around every
//! mapping value (`MA::next_value_seed`, at the value's use-site location), probes, the failure
//! point, nested calls). `modeldrv` (Model/Tls.lean) interprets the scripts over the explicit
//! thread-local state and predicts outcome, pointer-sharing pattern, the state seen at every probe point
//! inside the call and the state after the call; the harness reports what the real code showed.
use crate::proto::*;
use crate::yamlgen::loc_code;
use crate::Args;
use serde::de::{Deserializer, IgnoredAny, MapAccess, SeqAccess, Visitor};
use serde::{Deserialize, Serialize};
use serde_saphyr::verif_hooks::tls;
use serde_saphyr::{
    ArcAnchor, ArcWeakAnchor, Budget, Error, Options, RcAnchor, RcRecursion, RcRecursive,
};
use std::cell::RefCell;
use std::fmt;
use std::rc::Rc;
use std::sync::Arc;

pub fn run(mode: &str, a: &Args) -> i32 {
    match mode {
        "gen" => generate(a),
        "explore" => explore(),
        _ => 2,
    }
}

// ------------------------------------------------------------------------------------------------
// observation of the two thread-locals

const MAX_ID: usize = 12;

thread_local! {
    static TRACE: RefCell<Vec<String>> = const { RefCell::new(Vec::new()) };
    /// (inner call name, inner oracle text) of nested calls performed by `Nest` during the current call
    static NESTED: RefCell<Vec<(String, String)>> = const { RefCell::new(Vec::new()) };
    /// what `Nest` does: true = perform the named call, false = do not parse (reference run)
    static NEST_ACTIVE: RefCell<bool> = const { RefCell::new(true) };
}

fn o(x: Option<usize>) -> String {
    match x {
        None => "-".into(),
        Some(i) => i.to_string(),
    }
}

/// canonical text of the probes; the same format is produced by `Driver/Calls.lean`
pub fn obs() -> String {
    let p = tls::anchor_probe(MAX_ID);
    let mut stored = Vec::new();
    for k in 0..4 {
        for id in &p.stored[k] {
            stored.push(format!("{k}:{id}"));
        }
    }
    let mut re = Vec::new();
    for k in 0..4 {
        for id in &p.reentrant[k] {
            re.push(format!("{k}:{id}"));
        }
    }
    let f = match tls::fallback_probe() {
        Some(l) => loc_code(&l),
        None => 0,
    };
    format!(
        "c{},{},{},{}/s{}/p{}/r{}/f{}",
        o(p.current[0]),
        o(p.current[1]),
        o(p.current[2]),
        o(p.current[3]),
        stored.join(","),
        p.recursive_in_progress.iter().map(|i| i.to_string()).collect::<Vec<_>>().join(","),
        re.join(","),
        f
    )
}

const CLEAN: &str = "c-,-,-,-/s/p/r/f0";

fn probe() {
    let s = obs();
    TRACE.with(|t| t.borrow_mut().push(s));
}

// ------------------------------------------------------------------------------------------------
// target types (user side). Every `P` is a probe point.

#[derive(Debug, PartialEq)]
struct P(i64);
impl<'de> Deserialize<'de> for P {
    fn deserialize<D: Deserializer<'de>>(d: D) -> Result<Self, D::Error> {
        probe();
        Ok(P(i64::deserialize(d)?))
    }
}

#[derive(Debug, Deserialize, PartialEq)]
struct Leaf {
    v: P,
}
#[derive(Debug, Deserialize)]
struct Shared {
    x: RcAnchor<Leaf>,
    y: RcAnchor<Leaf>,
    z: P,
}

/// sequence of `P` whose visitor probes on entry and after the last element
#[derive(Debug)]
struct PSeq(Vec<P>);
impl<'de> Deserialize<'de> for PSeq {
    fn deserialize<D: Deserializer<'de>>(d: D) -> Result<Self, D::Error> {
        struct V;
        impl<'de> Visitor<'de> for V {
            type Value = PSeq;
            fn expecting(&self, f: &mut fmt::Formatter) -> fmt::Result {
                f.write_str("a sequence")
            }
            fn visit_seq<A: SeqAccess<'de>>(self, mut seq: A) -> Result<PSeq, A::Error> {
                probe();
                let mut out = Vec::new();
                while let Some(p) = seq.next_element::<P>()? {
                    out.push(p);
                }
                probe();
                Ok(PSeq(out))
            }
        }
        d.deserialize_seq(V)
    }
}
/// map String -> P whose visitor probes on entry, after every key, and after the last key;
/// `forget` leaks the map access (std::mem::forget) instead of dropping it
#[derive(Debug)]
struct PMapG<const FORGET: bool>(Vec<(String, P)>);
impl<'de, const FORGET: bool> Deserialize<'de> for PMapG<FORGET> {
    fn deserialize<D: Deserializer<'de>>(d: D) -> Result<Self, D::Error> {
        struct V<const F: bool>;
        impl<'de, const F: bool> Visitor<'de> for V<F> {
            type Value = PMapG<F>;
            fn expecting(&self, f: &mut fmt::Formatter) -> fmt::Result {
                f.write_str("a map")
            }
            fn visit_map<A: MapAccess<'de>>(self, mut map: A) -> Result<PMapG<F>, A::Error> {
                probe();
                let mut out = Vec::new();
                while let Some(k) = map.next_key::<String>()? {
                    probe();
                    let v = map.next_value::<P>()?;
                    out.push((k, v));
                }
                probe();
                if F {
                    std::mem::forget(map);
                }
                Ok(PMapG(out))
            }
        }
        d.deserialize_map(V::<FORGET>)
    }
}
type PMap = PMapG<false>;
type PMapLeak = PMapG<true>;

#[derive(Debug, Deserialize)]
struct SeqDoc {
    a: PSeq,
    b: PSeq,
}
#[derive(Debug, Deserialize)]
struct MapDoc {
    m: PMap,
    z: P,
}
#[derive(Debug, Deserialize)]
struct LeakDoc {
    m: PMapLeak,
    z: P,
}

struct Boom;
impl<'de> Deserialize<'de> for Boom {
    fn deserialize<D: Deserializer<'de>>(d: D) -> Result<Self, D::Error> {
        probe();
        let _ = IgnoredAny::deserialize(d)?;
        panic!("visitor panics");
    }
}
#[derive(Deserialize)]
struct BoomLeaf {
    #[allow(dead_code)]
    v: Boom,
}
#[derive(Deserialize)]
struct PanicDoc {
    #[allow(dead_code)]
    x: RcAnchor<Leaf>,
    #[allow(dead_code)]
    y: RcAnchor<BoomLeaf>,
}
#[derive(Debug, Deserialize)]
struct NzDoc {
    #[allow(dead_code)]
    a: u8,
    #[allow(dead_code)]
    k: std::num::NonZeroU8,
}
#[derive(Debug, Deserialize)]
struct Outer {
    #[allow(dead_code)]
    o: Leaf,
}
#[derive(Debug, Deserialize)]
#[serde(deny_unknown_fields)]
struct Strict {
    #[allow(dead_code)]
    v: P,
}
#[derive(Debug, Deserialize)]
struct ArcDoc {
    x: ArcAnchor<Leaf>,
    w: ArcWeakAnchor<Leaf>,
    z: P,
}
#[derive(Debug, Deserialize)]
struct RFoo {
    k1: P,
    k3: RcRecursion<RFoo>,
}
#[derive(Debug, Deserialize)]
struct RecDoc {
    foo: RcRecursive<RFoo>,
}
#[derive(Debug, Deserialize, garde::Validate)]
struct GDoc {
    #[garde(skip)]
    x: RcAnchor<Leaf>,
    #[garde(skip)]
    y: RcAnchor<Leaf>,
    #[garde(range(min = 5))]
    z: i64,
}
#[derive(Clone, Debug, Deserialize, garde::Validate)]
struct GEntity {
    #[garde(length(min = 3))]
    name: String,
    #[garde(length(min = 3))]
    platform: String,
}
/// a YAML sequence turned into a map keyed by ids derived from the elements (the validation path then holds a KEY
/// where the recorder holds an INDEX: the last pass of PathMap::search)
fn seq_to_map<'de, D: serde::Deserializer<'de>>(de: D) -> Result<std::collections::BTreeMap<String, GEntity>, D::Error> {
    let items = Vec::<GEntity>::deserialize(de)?;
    Ok(items.into_iter().map(|e| (format!("id-{}", e.name), e)).collect())
}
#[derive(Debug, Deserialize, garde::Validate)]
struct GSeqMap {
    #[serde(deserialize_with = "seq_to_map")]
    #[garde(dive)]
    entities: std::collections::BTreeMap<String, GEntity>,
}
const DOC_SEQMAP: &str = "entities:\n- name: alpha\n  platform: linux\n- name: bravo\n  platform: ex\n- name: charlie\n  platform: darwin\n- name: delta\n  platform: freebsd\n- name: echo\n  platform: plan9\n";
#[derive(Serialize)]
struct SLeaf {
    v: i64,
}
#[derive(Serialize)]
struct SerDoc {
    x: RcAnchor<SLeaf>,
    y: RcAnchor<SLeaf>,
    z: ArcAnchor<SLeaf>,
    w: ArcAnchor<SLeaf>,
}

/// A user type whose `Deserialize` impl performs a nested top-level call (named by the scalar).
#[derive(Debug)]
struct Nest;
impl<'de> Deserialize<'de> for Nest {
    fn deserialize<D: Deserializer<'de>>(d: D) -> Result<Self, D::Error> {
        let name = String::deserialize(d)?;
        probe();
        if NEST_ACTIVE.with(|x| *x.borrow()) {
            let outer = TRACE.with(|t| std::mem::take(&mut *t.borrow_mut()));
            let idx = alphabet().iter().position(|c| c.name == name).expect("nested call name");
            let r = run_call(idx);
            NESTED.with(|n| n.borrow_mut().push((name.clone(), r.oracle.clone())));
            TRACE.with(|t| {
                let mut t = t.borrow_mut();
                *t = outer;
                t.push("NB".into());
                t.extend(r.trace.iter().cloned());
                t.push(format!("NE:{}:p{}", r.out, r.pattern));
            });
        }
        probe();
        Ok(Nest)
    }
}
#[derive(Debug, Deserialize)]
struct WithNested {
    x: RcAnchor<Leaf>,
    #[allow(dead_code)]
    n: Nest,
    y: RcAnchor<Leaf>,
}
#[derive(Debug, Deserialize)]
struct LeafH {
    #[allow(dead_code)]
    v: P,
    #[allow(dead_code)]
    h: Nest,
}
#[derive(Debug, Deserialize)]
struct HostCtx {
    x: RcAnchor<LeafH>,
    y: RcAnchor<LeafH>,
}
#[derive(Debug, Deserialize)]
struct HostSeq {
    a: RcAnchor<Leaf>,
    #[allow(dead_code)]
    s: Vec<Nest>,
    b: RcAnchor<Leaf>,
}
#[derive(Debug, Deserialize)]
struct RFooH {
    #[allow(dead_code)]
    k1: P,
    #[allow(dead_code)]
    h: Nest,
    #[allow(dead_code)]
    k3: RcRecursion<RFooH>,
}
#[derive(Debug, Deserialize)]
struct HostRec {
    foo: RcRecursive<RFooH>,
}

// ------------------------------------------------------------------------------------------------
// scripts (input of the model)

#[derive(Clone, Debug)]
enum A {
    Probe,
    /// with_document_scope; `true` = the caller continues after an Err of this document (iterator)
    Scope(bool, Vec<A>),
    Ctx(u8, Option<usize>, Vec<A>),
    Strong(u8, Vec<A>),
    Weak(u8, Vec<A>),
    /// scoped MissingFieldLocationGuard (deserialize_map container guard / SA element guard / MA value guard)
    G(u64, Vec<A>),
    /// life of one map access; `true` = the visitor leaks it (mem::forget)
    Ma(bool, Vec<A>),
    /// MA::next_key_seed is about to deliver a key at this location
    Key(u64),
    /// static Serde error constructor (reads the fallback cell)
    Serr,
    /// error raised by the deserializer with its own location
    Err(u64),
    Panic,
    /// nested top-level call made by user code (wrapped in catch_unwind by that code)
    Nest(Vec<A>),
    /// the event source meets an alias to an anchor that is on its recursion stack
    RecAlias(usize, u64),
}

fn toks(seq: &[A]) -> String {
    let Some((a, rest)) = seq.split_first() else { return "D".into() };
    let k = || toks(rest);
    match a {
        A::Probe => format!("P {}", k()),
        A::Scope(c, b) => format!("S {} {} {}", b_(*c), toks(b), k()),
        A::Ctx(kind, id, b) => format!("X {kind} {} {} {}", o(*id), toks(b), k()),
        A::Strong(kind, b) => format!("W {kind} {} {}", toks(b), k()),
        A::Weak(kind, b) => format!("V {kind} {} {}", toks(b), k()),
        A::G(loc, b) => format!("G {loc} {} {}", toks(b), k()),
        A::Ma(leak, b) => format!("M {} {} {}", b_(*leak), toks(b), k()),
        A::Key(loc) => format!("K {loc} {}", k()),
        A::Serr => "SE".into(),
        A::Err(loc) => format!("E {loc}"),
        A::Panic => "PA".into(),
        A::Nest(b) => format!("N {} {}", toks(b), k()),
        A::RecAlias(id, loc) => format!("RA {id} {loc} {}", k()),
    }
}
fn b_(v: bool) -> &'static str {
    if v { "1" } else { "0" }
}
fn l(line: u64, col: u64) -> u64 {
    (line << 20) | col
}
/// One mapping entry as `MA` runs it.
/// * `key`: location of the key delivered by `MA::next_key_seed` (lazily created / updated key guard);
/// * `pre`: what happens between `next_key` and the value guard — the visitor's own actions between its two calls,
///   and whatever `next_value_seed` does before it installs the guard (its look-ahead `peek`, which is where the event
///   source meets an alias);
/// * `val`: `Some((vloc, body))` = `MA::next_value_seed` reads the value: scoped value guard at the value's use-site
///   location `vloc` (`reference_location`: the node's own start, through an alias the alias token) around `body`;
///   `None` = the value is never asked for (an error during key deserialization or in the look-ahead ends the call).
struct Ent {
    key: u64,
    pre: Vec<A>,
    val: Option<(u64, Vec<A>)>,
}
/// derived-struct style entry: key, then straight the value
fn e(key: u64, vloc: u64, body: Vec<A>) -> Ent {
    Ent { key, pre: vec![], val: Some((vloc, body)) }
}
/// entry with actions between the key and the value guard
fn ep(key: u64, pre: Vec<A>, vloc: u64, body: Vec<A>) -> Ent {
    Ent { key, pre, val: Some((vloc, body)) }
}
/// a key whose value is never read
fn ek(key: u64) -> Ent {
    Ent { key, pre: vec![], val: None }
}
/// `deserialize_map` on a mapping: container guard, then the map access with its entries
fn map(container: u64, entries: Vec<Ent>) -> A {
    map_tail(container, entries, vec![], false)
}
fn map_tail(container: u64, entries: Vec<Ent>, tail: Vec<A>, leak: bool) -> A {
    map_full(container, vec![], entries, tail, leak)
}
/// `head`: what the visitor does before asking for the first key
fn map_full(container: u64, head: Vec<A>, entries: Vec<Ent>, tail: Vec<A>, leak: bool) -> A {
    let mut body = head;
    for Ent { key, mut pre, val } in entries {
        body.push(A::Key(key));
        body.append(&mut pre);
        if let Some((vloc, v)) = val {
            // `let _value_guard = MissingFieldLocationGuard::new(reference_location)` in `MA::next_value_seed`
            body.push(A::G(vloc, v));
        }
    }
    body.extend(tail);
    A::G(container, vec![A::Ma(leak, body)])
}
/// a strong wrapper field (kind 0 = RcAnchor, 1 = ArcAnchor, 2 = RcRecursive) on a node with anchor `id`
fn strong(kind: u8, id: Option<usize>, inner: Vec<A>) -> A {
    A::Ctx(kind, id, vec![A::Strong(kind, inner)])
}
fn weak(kind: u8, id: Option<usize>, inner: Vec<A>) -> A {
    A::Ctx(kind, id, vec![A::Weak(kind, inner)])
}
/// `Leaf { v: P }` on `{v: 1}`: container guard, key `v` at `vkey`, the value (one probe) at `vval`
/// (written directly: the scalar's own position; replayed through an alias: the alias token)
fn leaf(container: u64, vkey: u64, vval: u64) -> A {
    map(container, vec![e(vkey, vval, vec![A::Probe])])
}

// ------------------------------------------------------------------------------------------------
// the alphabet of calls

pub struct CallOut {
    /// full canonical textual result (for the fresh-thread oracle)
    pub oracle: String,
    /// what the model predicts: outcome, sharing pattern, probe trace, state after the call
    pub answer: String,
    pub out: String,
    pub pattern: String,
    pub trace: Vec<String>,
    pub end: String,
}

struct CallDef {
    name: &'static str,
    what: &'static str,
    /// runs the real call; returns (canonical text of the result, outcome token, pointers of wrapper fields)
    run: fn() -> (String, String, Vec<usize>),
    script: fn() -> Vec<A>,
    /// usable as a nested call (its own result does not involve `Nest`)
    base: bool,
}

fn err_text(e: &Error) -> String {
    let code = crate::errs::loc(e);
    format!("{} {}:{} {}", crate::errs::kind(e), code >> 20, code & 0xfffff, hex(&e.to_string()))
}
fn err_out(e: &Error) -> String {
    format!("err {}", crate::errs::loc(e))
}

fn finish<T>(r: Result<Result<T, Error>, String>, text: impl Fn(&T) -> String, ptrs: impl Fn(&T) -> Vec<usize>) -> (String, String, Vec<usize>) {
    match r {
        Err(m) => (format!("panic {}", hex(&m)), "panic".into(), vec![]),
        Ok(Err(e)) => (format!("err {}", err_text(&e)), err_out(&e), vec![]),
        Ok(Ok(v)) => (format!("ok {}", text(&v)), "ok".into(), ptrs(&v)),
    }
}
fn rcp<T>(r: &Rc<T>) -> usize {
    Rc::as_ptr(r) as *const u8 as usize
}
fn arcp<T>(r: &Arc<T>) -> usize {
    Arc::as_ptr(r) as *const u8 as usize
}

const DOC_OK: &str = "x: &a {v: 1}\ny: *a\nz: 3\n";
const DOC_FAIL_CTX: &str = "x: &a {v: 1}\ny: &b {v: oops}\nz: 3\n";
const DOC_SEQ_FAIL: &str = "a: &s [1, 2, x]\nb: *s\n";
const DOC_SEQ_OK: &str = "a: &s [1, 2]\nb: *s\n";
const DOC_MAP: &str = "m: {p: 1, q: 2}\nz: 3\n";
const DOC_MISSING: &str = "o:\n  w: 1\n";
const DOC_MISSING_NULL: &str = "o: ~\n";
const DOC_UNKNOWN: &str = "- {v: 1}\n- {q: 2}\n";
const DOC_ARC: &str = "x: &a {v: 1}\nw: *a\nz: 3\n";
const DOC_REC: &str = "foo: &a\n  k1: 1\n  k3: *a\n";
const DOC_NESTED: &str = "x: &a {v: 1}\nn: nonzero\ny: *a\n";
const DOC_NZ: &str = "a: 1\nk:   0\n";
/// where the ratio refusal of the `ratio` call is reported (end of the stream)
const RATIO_LOC: u64 = (122 << 20) | 1;
/// the five candidates of the key-to-index pass are ambiguous: no location
const SEQMAP_LOC: u64 = 0;
const DOC_PANIC: &str = "x: &a {v: 1}\ny: &b {v: 2}\n";

fn shared_text(s: &Shared) -> String {
    format!("share={} x.v={} y.v={} z={}", b_(Rc::ptr_eq(&s.x.0, &s.y.0)), s.x.0.v.0, s.y.0.v.0, s.z.0)
}
fn shared_ptrs(s: &Shared) -> Vec<usize> {
    vec![rcp(&s.x.0), rcp(&s.y.0)]
}
fn shared_script(zloc: u64) -> Vec<A> {
    vec![A::Scope(false, vec![map(l(1, 1), vec![
        e(l(1, 1), l(1, 7), vec![strong(0, Some(1), vec![leaf(l(1, 7), l(1, 8), l(1, 11))])]),
        e(l(2, 1), l(2, 4), vec![strong(0, Some(1), vec![leaf(l(2, 4), l(1, 8), l(2, 4))])]),
        e(zloc, zloc + 3, vec![A::Probe]),
    ])])]
}

fn alphabet() -> &'static [CallDef] {
    static ALPHA: std::sync::OnceLock<Vec<CallDef>> = std::sync::OnceLock::new();
    ALPHA.get_or_init(|| vec![
        CallDef {
            name: "ok_rc", what: "from_str, RcAnchor fields sharing one anchor: success", base: true,
            run: || finish(catch(|| serde_saphyr::from_str::<Shared>(DOC_OK)), shared_text, shared_ptrs),
            script: || shared_script(l(3, 1)),
        },
        CallDef {
            name: "fail_ctx", what: "failure inside an anchor-wrapper context (second RcAnchor field, first one stored)", base: true,
            run: || finish(catch(|| serde_saphyr::from_str::<Shared>(DOC_FAIL_CTX)), shared_text, shared_ptrs),
            script: || vec![A::Scope(false, vec![map(l(1, 1), vec![
                e(l(1, 1), l(1, 7), vec![strong(0, Some(1), vec![leaf(l(1, 7), l(1, 8), l(1, 11))])]),
                e(l(2, 1), l(2, 7), vec![strong(0, Some(2), vec![map(l(2, 7), vec![e(l(2, 8), l(2, 11), vec![A::Probe, A::Err(l(2, 11))])])])]),
            ])])],
        },
        CallDef {
            name: "fail_seq", what: "failure midway through an anchored sequence (no wrapper), inside an element guard", base: true,
            run: || finish(catch(|| serde_saphyr::from_str::<SeqDoc>(DOC_SEQ_FAIL)), |d| format!("{d:?}"), |_| vec![]),
            script: || vec![A::Scope(false, vec![map(l(1, 1), vec![
                e(l(1, 1), l(1, 7), vec![A::Probe, A::G(l(1, 8), vec![A::Probe]), A::G(l(1, 11), vec![A::Probe]), A::G(l(1, 14), vec![A::Probe, A::Err(l(1, 14))])]),
            ])])],
        },
        CallDef {
            name: "ok_seq", what: "anchored sequence replayed through an alias: success", base: true,
            run: || finish(catch(|| serde_saphyr::from_str::<SeqDoc>(DOC_SEQ_OK)), |d| format!("{d:?}"), |_| vec![]),
            script: || vec![A::Scope(false, vec![map(l(1, 1), vec![
                e(l(1, 1), l(1, 7), vec![A::Probe, A::G(l(1, 8), vec![A::Probe]), A::G(l(1, 11), vec![A::Probe]), A::Probe]),
                e(l(2, 1), l(2, 4), vec![A::Probe, A::G(l(2, 4), vec![A::Probe]), A::G(l(2, 4), vec![A::Probe]), A::Probe]),
            ])])],
        },
        CallDef {
            name: "budget", what: "budget breach (max_nodes) while the stored anchored node is replayed through its alias", base: true,
            run: || {
                let mut o = Options::default();
                let mut bd = Budget::default();
                bd.max_nodes = 8;
                o.budget = Some(bd);
                o.with_snippet = false;
                finish(catch(|| serde_saphyr::from_str_with_options::<Shared>(DOC_OK, o)), shared_text, shared_ptrs)
            },
            script: || vec![A::Scope(false, vec![map(l(1, 1), vec![
                e(l(1, 1), l(1, 7), vec![strong(0, Some(1), vec![leaf(l(1, 7), l(1, 8), l(1, 11))])]),
                // the breach is met by the look-ahead of `next_value_seed` (ninth node = the replayed scalar), before the value guard
                e(l(2, 1), l(2, 4), vec![strong(0, Some(1), vec![map_tail(l(2, 4), vec![ek(l(1, 8))], vec![A::Err(l(2, 4))], false)])]),
            ])])],
        },
        CallDef {
            name: "map_guard", what: "map visitor probing before/after keys (container guard, lazily created key guard)", base: true,
            run: || finish(catch(|| serde_saphyr::from_str::<MapDoc>(DOC_MAP)), |d| format!("{d:?}"), |_| vec![]),
            script: || vec![A::Scope(false, vec![map(l(1, 1), vec![
                e(l(1, 1), l(1, 4), vec![map_full(l(1, 4), vec![A::Probe], vec![ep(l(1, 5), vec![A::Probe], l(1, 8), vec![A::Probe]), ep(l(1, 11), vec![A::Probe], l(1, 14), vec![A::Probe])], vec![A::Probe], false)]),
                e(l(2, 1), l(2, 4), vec![A::Probe]),
            ])])],
        },
        CallDef {
            name: "map_leak", what: "map visitor that leaks (mem::forget) its map access: the key guard is never dropped", base: true,
            run: || finish(catch(|| serde_saphyr::from_str::<LeakDoc>(DOC_MAP)), |d| format!("{d:?}"), |_| vec![]),
            script: || vec![A::Scope(false, vec![map(l(1, 1), vec![
                e(l(1, 1), l(1, 4), vec![map_full(l(1, 4), vec![A::Probe], vec![ep(l(1, 5), vec![A::Probe], l(1, 8), vec![A::Probe]), ep(l(1, 11), vec![A::Probe], l(1, 14), vec![A::Probe])], vec![A::Probe], true)]),
                e(l(2, 1), l(2, 4), vec![A::Probe]),
            ])])],
        },
        CallDef {
            name: "missing", what: "missing field: static Serde error taking the fallback location", base: true,
            run: || finish(catch(|| serde_saphyr::from_str::<Outer>(DOC_MISSING)), |d| format!("{d:?}"), |_| vec![]),
            script: || vec![A::Scope(false, vec![map(l(1, 1), vec![
                // derive's missing-field path deserializes the field type from a MissingFieldDeserializer: P probes, then the static error
                // (the unknown key `w` is skipped: its value is read as IgnoredAny under the value guard; the static error is raised
                // after the last entry, when the cell again holds the key location)
                e(l(1, 1), l(2, 3), vec![map_tail(l(2, 3), vec![e(l(2, 3), l(2, 6), vec![])], vec![A::Probe, A::Serr], false)]),
            ])])],
        },
        CallDef {
            name: "missing_null", what: "missing field of a struct read from a null scalar (`o: ~`: the empty-map path has no container guard): the static error takes the VALUE guard's location (the `~`, as `o: {}` reports the `{`), no longer the key's", base: true,
            run: || finish(catch(|| serde_saphyr::from_str::<Outer>(DOC_MISSING_NULL)), |d| format!("{d:?}"), |_| vec![]),
            script: || vec![A::Scope(false, vec![map(l(1, 1), vec![
                e(l(1, 1), l(1, 4), vec![A::Probe, A::Serr]),
            ])])],
        },
        CallDef {
            name: "unknown", what: "unknown field (deny_unknown_fields) in the second element of a sequence: static error during key deserialization", base: true,
            run: || finish(catch(|| serde_saphyr::from_str::<Vec<Strict>>(DOC_UNKNOWN)), |d| format!("{d:?}"), |_| vec![]),
            script: || vec![A::Scope(false, vec![
                A::G(l(1, 3), vec![leaf(l(1, 3), l(1, 4), l(1, 7))]),
                A::G(l(2, 3), vec![map_tail(l(2, 3), vec![ek(l(2, 4))], vec![A::Serr], false)]),
            ])],
        },
        CallDef {
            name: "ok_arc", what: "ArcAnchor + ArcWeakAnchor: success", base: true,
            run: || finish(catch(|| serde_saphyr::from_str::<ArcDoc>(DOC_ARC)),
                |d| format!("share={} x.v={} z={}", b_(d.w.upgrade().map(|w| Arc::ptr_eq(&w, &d.x.0)).unwrap_or(false)), d.x.0.v.0, d.z.0),
                |d| vec![arcp(&d.x.0), d.w.upgrade().map(|w| arcp(&w)).unwrap_or(0)]),
            script: || vec![A::Scope(false, vec![map(l(1, 1), vec![
                e(l(1, 1), l(1, 7), vec![strong(1, Some(1), vec![leaf(l(1, 7), l(1, 8), l(1, 11))])]),
                e(l(2, 1), l(2, 4), vec![weak(1, Some(1), vec![map(l(2, 4), vec![e(l(1, 8), l(2, 4), vec![])])])]),
                e(l(3, 1), l(3, 4), vec![A::Probe]),
            ])])],
        },
        CallDef {
            name: "ok_rec", what: "RcRecursive node with a self reference through RcRecursion: success (in_progress consulted by the event source)", base: true,
            run: || finish(catch(|| serde_saphyr::from_str::<RecDoc>(DOC_REC)),
                |d| { let g = d.foo.borrow(); format!("k1={} cyc={}", g.k1.0, b_(g.k3.upgrade().map(|u| Rc::ptr_eq(&u.0, &d.foo.0)).unwrap_or(false))) },
                |d| { let g = d.foo.borrow(); vec![g.k3.upgrade().map(|u| rcp(&u.0)).unwrap_or(0), rcp(&d.foo.0)] }),
            script: || vec![A::Scope(false, vec![map(l(1, 1), vec![
                e(l(1, 1), l(2, 3), vec![strong(2, Some(1), vec![map(l(2, 3), vec![
                    e(l(2, 3), l(2, 7), vec![A::Probe]),
                    // the alias is met by the look-ahead of `next_value_seed`, before the value guard
                    ep(l(3, 3), vec![A::RecAlias(1, l(3, 7))], l(3, 7), vec![weak(2, Some(1), vec![])]),
                ])])]),
            ])])],
        },
        CallDef {
            name: "panic", what: "visitor panics inside an anchor-wrapper context inside a map access (caught by catch_unwind at the call site)", base: true,
            run: || finish(catch(|| serde_saphyr::from_str::<PanicDoc>(DOC_PANIC).map(|_| ())), |_| String::new(), |_| vec![]),
            script: || vec![A::Scope(false, vec![map(l(1, 1), vec![
                e(l(1, 1), l(1, 7), vec![strong(0, Some(1), vec![leaf(l(1, 7), l(1, 8), l(1, 11))])]),
                e(l(2, 1), l(2, 7), vec![strong(0, Some(2), vec![map(l(2, 7), vec![e(l(2, 8), l(2, 11), vec![A::Probe, A::Panic])])])]),
            ])])],
        },
        CallDef {
            name: "iter_abandon", what: "read iterator over three documents, second one fails midway, dropped before the third", base: true,
            run: || {
                let text = format!("{DOC_OK}---\n{DOC_FAIL_CTX}---\n{DOC_OK}");
                let r = catch(|| {
                    let mut rd = std::io::Cursor::new(text.into_bytes());
                    let mut it = serde_saphyr::read::<_, Shared>(&mut rd);
                    let a = it.next();
                    let b = it.next();
                    drop(it);
                    (a, b)
                });
                match r {
                    Err(m) => (format!("panic {}", hex(&m)), "panic".into(), vec![]),
                    Ok((a, b)) => {
                        let item = |x: &Option<Result<Shared, Error>>| match x {
                            None => "none".to_string(),
                            Some(Ok(s)) => format!("ok {}", shared_text(s)),
                            Some(Err(e)) => format!("err {}", err_text(e)),
                        };
                        let mut ptrs = vec![];
                        if let Some(Ok(s)) = &a { ptrs.extend(shared_ptrs(s)); }
                        if let Some(Ok(s)) = &b { ptrs.extend(shared_ptrs(s)); }
                        (format!("items {} ; {}", item(&a), item(&b)), "ok".into(), ptrs)
                    }
                }
            },
            script: || {
                let mut s = shared_script(l(3, 1));
                s.push(A::Scope(true, vec![map(l(5, 1), vec![
                    e(l(5, 1), l(5, 7), vec![strong(0, Some(2), vec![leaf(l(5, 7), l(5, 8), l(5, 11))])]),
                    e(l(6, 1), l(6, 7), vec![strong(0, Some(3), vec![map(l(6, 7), vec![e(l(6, 8), l(6, 11), vec![A::Probe, A::Err(l(6, 11))])])])]),
                ])]));
                s
            },
        },
        CallDef {
            name: "multi", what: "from_multiple: two documents, each with its own anchors", base: true,
            run: || {
                let text = format!("{DOC_OK}---\n{DOC_OK}");
                finish(catch(|| serde_saphyr::from_multiple::<Shared>(&text)),
                    |v| v.iter().map(shared_text).collect::<Vec<_>>().join(" ; "),
                    |v| v.iter().flat_map(shared_ptrs).collect())
            },
            script: || {
                let mut s = shared_script(l(3, 1));
                s.push(A::Scope(false, vec![map(l(5, 1), vec![
                    e(l(5, 1), l(5, 7), vec![strong(0, Some(2), vec![leaf(l(5, 7), l(5, 8), l(5, 11))])]),
                    e(l(6, 1), l(6, 4), vec![strong(0, Some(2), vec![leaf(l(6, 4), l(5, 8), l(6, 4))])]),
                    e(l(7, 1), l(7, 4), vec![A::Probe]),
                ])]));
                s
            },
        },
        CallDef {
            name: "valid", what: "from_str_valid (garde): deserialization succeeds, validation fails", base: true,
            run: || finish(catch(|| serde_saphyr::from_str_valid::<GDoc>(DOC_OK)),
                |d| format!("share={} z={}", b_(Rc::ptr_eq(&d.x.0, &d.y.0)), d.z), |d| vec![rcp(&d.x.0), rcp(&d.y.0)]),
            script: || vec![A::Scope(false, vec![map(l(1, 1), vec![
                e(l(1, 1), l(1, 7), vec![strong(0, Some(1), vec![leaf(l(1, 7), l(1, 8), l(1, 11))])]),
                e(l(2, 1), l(2, 4), vec![strong(0, Some(1), vec![leaf(l(2, 4), l(1, 8), l(2, 4))])]),
                e(l(3, 1), l(3, 4), vec![]),
            ])]), A::Err(l(3, 4))],
        },
        CallDef {
            name: "valid_seqmap", what: "from_str_valid (garde) of a sequence turned into an id-keyed map, rule failing in one of five elements: the path lookup runs over a hash map — whatever it answers must not depend on the map's hash seed (compared with a fresh thread at every occurrence)", base: true,
            run: || finish(catch(|| serde_saphyr::from_str_valid::<GSeqMap>(DOC_SEQMAP)), |d| format!("{}", d.entities.len()), |_| vec![]),
            script: || vec![A::Scope(false, vec![]), A::Err(SEQMAP_LOC)],
        },
        CallDef {
            name: "ser", what: "to_string of a value with shared Rc and Arc pointers (no thread-local involved)", base: true,
            run: || {
                let r = Rc::new(SLeaf { v: 1 });
                let a = Arc::new(SLeaf { v: 2 });
                let d = SerDoc { x: RcAnchor(r.clone()), y: RcAnchor(r), z: ArcAnchor(a.clone()), w: ArcAnchor(a) };
                match catch(|| serde_saphyr::to_string(&d)) {
                    Err(m) => (format!("panic {}", hex(&m)), "panic".into(), vec![]),
                    Ok(Err(e)) => (format!("err {}", hex(&e.to_string())), "err 0".into(), vec![]),
                    Ok(Ok(s)) => (format!("ok {}", hex(&s)), "ok".into(), vec![]),
                }
            },
            script: || vec![],
        },
        CallDef {
            name: "ser_y12", what: "to_string_with_options(yaml_12 = true) of a value whose keys / values spell YAML 1.1 booleans, nulls and numbers", base: true,
            run: || ser_lookalikes(|o| o.yaml_12 = true), script: || vec![],
        },
        CallDef {
            name: "ser_def", what: "to_string (default options) of the same look-alike value", base: true,
            run: || ser_lookalikes(|_| ()), script: || vec![],
        },
        CallDef {
            name: "ser_qa", what: "to_string_with_options(quote_all, tagged_enums, indent_step 4, compact_list_indent) of the same look-alike value", base: true,
            run: || ser_lookalikes(|o| { o.quote_all = true; o.tagged_enums = true; o.indent_step = 4; o.compact_list_indent = true; }), script: || vec![],
        },
        CallDef {
            name: "report", what: "from_str_with_options with a budget-report callback: the result text carries every counter of the report (two anchors, one alias) — a counter that survives an earlier call shows here", base: true,
            run: || {
                let seen = Rc::new(std::cell::RefCell::new(String::from("no-report")));
                let sink = seen.clone();
                let o = Options::default().with_budget_report(move |r| *sink.borrow_mut() = format!("{r:?}"));
                let r = catch(|| serde_saphyr::from_str_with_options::<Vec<u32>>("- &x 1\n- &y 2\n- *x\n", o));
                let rep = seen.borrow().clone();
                finish(r, |d| format!("{d:?} {}", hex(&rep)), |_| vec![])
            },
            script: || vec![A::Scope(false, vec![])],
        },
        CallDef {
            name: "ratio", what: "alias-heavy document (1 anchor, 120 aliases) under the default budget: refused by the alias/anchor ratio — the verdict and its counters depend on the anchors counted in THIS call only", base: true,
            run: || {
                let mut doc = String::from("- &a 1\n");
                for _ in 0..120 { doc.push_str("- *a\n"); }
                let mut o = Options::default();
                o.with_snippet = false;
                finish(catch(|| serde_saphyr::from_str_with_options::<Vec<u32>>(&doc, o)), |d| format!("{}", d.len()), |_| vec![])
            },
            script: || vec![A::Scope(false, vec![A::Err(RATIO_LOC)])],
        },
        CallDef {
            name: "nonzero", what: "from_str::<NonZeroU8>(\"0\"): static Serde error with NO guard of the call's own", base: true,
            run: || finish(catch(|| serde_saphyr::from_str::<std::num::NonZeroU8>("0")), |d| format!("{d}"), |_| vec![]),
            script: || vec![A::Scope(false, vec![A::Serr])],
        },
        CallDef {
            name: "nz_value", what: "struct field of type NonZeroU8 holding 0: static Serde error raised while a mapping VALUE is read (value guard: reported at the value, 2:6, not at the key)", base: true,
            run: || finish(catch(|| serde_saphyr::from_str::<NzDoc>(DOC_NZ)), |d| format!("{d:?}"), |_| vec![]),
            script: || vec![A::Scope(false, vec![map(l(1, 1), vec![
                e(l(1, 1), l(1, 4), vec![]),
                e(l(2, 1), l(2, 6), vec![A::Serr]),
            ])])],
        },
        CallDef {
            name: "nested", what: "a field whose Deserialize impl calls from_str, between an anchor definition and its alias", base: false,
            run: || finish(catch(|| serde_saphyr::from_str::<WithNested>(DOC_NESTED)),
                |d| format!("share={} x.v={} y.v={}", b_(Rc::ptr_eq(&d.x.0, &d.y.0)), d.x.0.v.0, d.y.0.v.0), |d| vec![rcp(&d.x.0), rcp(&d.y.0)]),
            script: || vec![A::Scope(false, vec![map(l(1, 1), vec![
                e(l(1, 1), l(1, 7), vec![strong(0, Some(1), vec![leaf(l(1, 7), l(1, 8), l(1, 11))])]),
                e(l(2, 1), l(2, 4), vec![A::Probe, A::Nest(vec![A::Scope(false, vec![A::Serr])]), A::Probe]),
                e(l(3, 1), l(3, 4), vec![strong(0, Some(1), vec![leaf(l(3, 4), l(1, 8), l(3, 4))])]),
            ])])],
        },
    ])
}

#[derive(serde::Serialize)]
enum LookEnum { Y, No(i32), On { off: bool } }
#[derive(serde::Serialize)]
struct LookDoc { y: i32, n: String, on: Vec<String>, null: std::collections::BTreeMap<String, LookEnum>, long: String }

/// serialization of one fixed value full of look-alike keys / values under an option vector: the text must not depend
/// on what was serialized (or deserialized) before on this thread
fn ser_lookalikes(set: impl FnOnce(&mut serde_saphyr::SerializerOptions)) -> (String, String, Vec<usize>) {
    let mut o = serde_saphyr::SerializerOptions::default();
    set(&mut o);
    let d = LookDoc { y: 1, n: "no".into(), on: vec!["yes".into(), "~".into(), "1e3".into(), "off".into(), "plain".into()],
        null: [("yes".to_string(), LookEnum::Y), ("off".to_string(), LookEnum::No(2)), ("0x1F".to_string(), LookEnum::On { off: true })].into_iter().collect(),
        long: "word ".repeat(30) };
    match catch(|| serde_saphyr::to_string_with_options(&d, o)) {
        Err(m) => (format!("panic {}", hex(&m)), "panic".into(), vec![]),
        Ok(Err(e)) => (format!("err {}", hex(&e.to_string())), "err 0".into(), vec![]),
        Ok(Ok(s)) => (format!("ok {}", hex(&s)), "ok".into(), vec![]),
    }
}

/// Run alphabet call `i` on the current thread: oracle text + model-comparable answer.
fn run_call(i: usize) -> CallOut {
    run_generic(alphabet()[i].run)
}

fn run_generic(run: impl FnOnce() -> (String, String, Vec<usize>)) -> CallOut {
    TRACE.with(|t| t.borrow_mut().clear());
    let (oracle, out, ptrs) = run();
    let trace = TRACE.with(|t| std::mem::take(&mut *t.borrow_mut()));
    let end = obs();
    // sharing pattern: pointers renumbered by first occurrence
    let mut seen: Vec<usize> = Vec::new();
    let pat: Vec<String> = ptrs.iter().map(|p| {
        let i = match seen.iter().position(|q| q == p) { Some(i) => i, None => { seen.push(*p); seen.len() - 1 } };
        i.to_string()
    }).collect();
    let out = out.replace(' ', ":");
    let pattern = pat.join(",");
    CallOut { oracle, answer: format!("{} p{} t{} e{}", out, pattern, trace.join(";"), end), out, pattern, trace, end }
}

fn on_fresh_thread<T: Send + 'static>(f: impl FnOnce() -> T + Send + 'static) -> T {
    std::thread::spawn(f).join().expect("worker thread")
}

// ------------------------------------------------------------------------------------------------

fn explore() -> i32 {
    for (i, c) in alphabet().iter().enumerate() {
        let r = on_fresh_thread(move || run_call(i));
        println!("== {} ({})\n   oracle: {}\n   answer: {}\n   script: {}", c.name, c.what, r.oracle, r.answer, toks(&(c.script)()));
    }
    0
}

fn oracle_line(out: &mut Vec<String>, id: &str, what: &str, input: &str, observed: &str, expected: &str) {
    out.push(serde_json::json!({"id": id, "what": what, "input": input, "observed": observed, "expected": expected}).to_string());
}

fn generate(a: &Args) -> i32 {
    let mut sink = Sink::new(&a.out, "calls");
    let mut oracle: Vec<String> = Vec::new();
    let alpha = alphabet();
    let n = alpha.len();
    let mut rng = Rng::new(a.seed);

    // ---- fresh-thread reference results (three independent threads each: determinism)
    let mut fresh: Vec<CallOut> = Vec::new();
    for i in 0..n {
        let r0 = on_fresh_thread(move || run_call(i));
        for _ in 0..2 {
            let r = on_fresh_thread(move || run_call(i));
            if r.oracle != r0.oracle || r.answer != r0.answer {
                oracle_line(&mut oracle, "C15-fresh-run-not-deterministic", "the same call on two fresh threads gave different results", alpha[i].name, &r.oracle, &r0.oracle);
            }
        }
        sink.count(&format!("fresh.{}", r0.answer.split(' ').next().unwrap_or("").split(':').next().unwrap_or("")));
        fresh.push(r0);
    }

    // ---- all sequences up to the length bound (each on its own fresh thread), then random longer ones
    let max_len = if a.thorough { 4 } else { 3 };
    let mut seqs: Vec<Vec<usize>> = Vec::new();
    for len in 1..=max_len {
        let total = n.pow(len as u32);
        for mut code in 0..total {
            let mut s = Vec::with_capacity(len);
            for _ in 0..len {
                s.push(code % n);
                code /= n;
            }
            seqs.push(s);
        }
    }
    let random_long = if a.thorough { 3000 } else { 300 };
    for _ in 0..random_long {
        let len = 5 + rng.below(8);
        seqs.push((0..len).map(|_| rng.below(n)).collect());
    }
    let mut distinct = 0u64;
    let mut calls_run = 0u64;
    for s in &seqs {
        let s2 = s.clone();
        let results: Vec<CallOut> = on_fresh_thread(move || s2.iter().map(|&i| run_call(i)).collect());
        let mut history = String::new();
        for (pos, (&i, r)) in s.iter().zip(results.iter()).enumerate() {
            calls_run += 1;
            if r.oracle != fresh[i].oracle {
                oracle_line(&mut oracle, "C15-history-dependence",
                    "a call's result differs from the result of the same call on a fresh thread",
                    &format!("history [{}] then {}", history.trim_end(), alpha[i].name), &r.oracle, &fresh[i].oracle);
            }
            if !r.answer.ends_with(&format!(" e{CLEAN}")) {
                oracle_line(&mut oracle, "C15-thread-local-not-clean",
                    "a thread-local is not back in its initial state after a completed top-level call",
                    &format!("history [{}] then {}", history.trim_end(), alpha[i].name), &r.answer, CLEAN);
            }
            if pos > 0 { sink.count(&format!("after.{}", alpha[s[pos - 1]].name)); }
            history.push_str(alpha[i].name);
            history.push(' ');
        }
        if s.len() >= 2 { distinct += 1; }
        sink.count(&format!("len.{}", s.len().min(5)));
        let op = format!("calls seq {} {}", s.len(), s.iter().map(|&i| toks(&(alpha[i].script)())).collect::<Vec<_>>().join(" "));
        let ans = results.iter().map(|r| r.answer.clone()).collect::<Vec<_>>().join(" | ");
        sink.case(&op, &ans);
    }

    // ---- nested sweep: every base call nested at four host positions (oracle + differential)
    for h in hosts().iter() {
        for (i, c) in alpha.iter().enumerate() {
            if !c.base { continue; }
            let name = c.name;
            // reference: same enclosing call, the nested parse replaced by a non-parsing Deserialize
            let (ref_outer, _) = on_fresh_thread(move || { NEST_ACTIVE.with(|x| *x.borrow_mut() = false); host_call(h, name) });
            let (outer, inner) = on_fresh_thread(move || host_call(h, name));
            sink.count(&format!("nested.{}", h.name));
            calls_run += 2;
            let input = format!("host position `{}` ({}), nested call `{name}` ({}); document {:?}", h.name, h.what, c.what, (h.doc)(name));
            for part in &inner {
                if *part != fresh[i].oracle {
                    let id = if name == "nonzero" { "C15-nested-call-inherits-fallback-location" } else { "C15-nested-result-differs" };
                    oracle_line(&mut oracle, id, "the result of a call nested inside a user Deserialize impl differs from the result of the same call on a fresh thread (for `nonzero`: regression of fix 4aaf328, the nested call must not start with the enclosing call's fallback location)", &input, part, &fresh[i].oracle);
                }
            }
            if outer.oracle != ref_outer.oracle {
                let id = if name != "ser" { "C15-nested-call-clobbers-anchors" } else { "C15-nested-call-affects-enclosing" };
                oracle_line(&mut oracle, id, "the enclosing call's result changes when a user Deserialize impl performs a nested call (regression of fix b68ea91: a nested document scope must save and restore the enclosing call's thread-local anchor state)", &input, &outer.oracle, &ref_outer.oracle);
            }
            if !outer.answer.ends_with(&format!(" e{CLEAN}")) {
                oracle_line(&mut oracle, "C15-thread-local-not-clean", "a thread-local is not back in its initial state after a completed top-level call", &input, &outer.answer, CLEAN);
            }
            let op = format!("calls seq 1 {}", toks(&(h.script)(name, (c.script)())));
            sink.case(&op, &outer.answer);
        }
    }

    let nt = distinct;
    sink.count("calls_run_total");
    let _ = calls_run;
    sink.finish(&a.out, "calls", serde_json::json!({
        "distinct_nontrivial": nt,
        "calls_run": calls_run,
        "alphabet": alpha.iter().map(|c| format!("{}: {}", c.name, c.what)).collect::<Vec<_>>(),
        "rule": format!("all sequences of length 1..{max_len} over an alphabet of {n} top-level calls (success with Rc/Arc/recursive anchors, failure inside an anchor-wrapper context, failure midway through an anchored sequence, budget breach, budget-report callback with every counter in the result, alias/anchor-ratio refusal, static Serde errors with and without a guard — after the last entry of a mapping (key location), during a key, in a mapping value (value guard) —, leaked map access, panicking visitor, abandoned read iterator, from_multiple, from_str_valid (also with a key-to-index path lookup over the hash map), to_string with shared pointers, a type whose Deserialize impl performs a nested parse) plus {random_long} random sequences of length 5..12 (seeded); every sequence on its own fresh thread; one differential case per sequence (model predicts per call: outcome, sharing pattern, thread-local state at every probe point and after the call); oracle: each call's full textual result = result on a fresh thread, probes clean after each call; nested sweep: every base call nested at 4 host positions (struct field, inside an RcAnchor context, sequence elements, inside an RcRecursive node). Non-trivial = sequences of length >= 2."),
    }));
    std::fs::write(format!("{}/calls.oracle.jsonl", a.out), oracle.join("\n") + if oracle.is_empty() { "" } else { "\n" }).unwrap();
    0
}

/// An enclosing call whose target type performs a nested call (`Nest`) at a particular position.
struct Host {
    name: &'static str,
    what: &'static str,
    doc: fn(&str) -> String,
    run: fn(&str) -> (String, String, Vec<usize>),
    /// script of the enclosing call, given the nested call's name (for column arithmetic) and script
    script: fn(&str, Vec<A>) -> Vec<A>,
}

fn nest_acts(inner: Vec<A>) -> Vec<A> {
    // `Nest::deserialize`: String, probe, nested call (only in the active run), probe
    vec![A::Probe, A::Nest(inner), A::Probe]
}

fn hosts() -> &'static [Host] {
    static HOSTS: std::sync::OnceLock<Vec<Host>> = std::sync::OnceLock::new();
    HOSTS.get_or_init(|| vec![
        Host {
            name: "field", what: "struct field between an anchor definition and its alias",
            doc: |n| format!("x: &a {{v: 1}}\nn: {n}\ny: *a\n"),
            run: |doc| finish(catch(|| serde_saphyr::from_str::<WithNested>(doc)), |d| format!("share={}", b_(Rc::ptr_eq(&d.x.0, &d.y.0))), |d| vec![rcp(&d.x.0), rcp(&d.y.0)]),
            script: |_, inner| vec![A::Scope(false, vec![map(l(1, 1), vec![
                e(l(1, 1), l(1, 7), vec![strong(0, Some(1), vec![leaf(l(1, 7), l(1, 8), l(1, 11))])]),
                e(l(2, 1), l(2, 4), nest_acts(inner)),
                e(l(3, 1), l(3, 4), vec![strong(0, Some(1), vec![leaf(l(3, 4), l(1, 8), l(3, 4))])]),
            ])])],
        },
        Host {
            name: "ctx", what: "inside an RcAnchor context, before the anchored value is stored; replayed through the alias",
            doc: |n| format!("x: &a {{v: 1, h: {n}}}\ny: *a\n"),
            run: |doc| finish(catch(|| serde_saphyr::from_str::<HostCtx>(doc)), |d| format!("share={}", b_(Rc::ptr_eq(&d.x.0, &d.y.0))), |d| vec![rcp(&d.x.0), rcp(&d.y.0)]),
            script: |_, inner| vec![A::Scope(false, vec![map(l(1, 1), vec![
                e(l(1, 1), l(1, 7), vec![strong(0, Some(1), vec![map(l(1, 7), vec![e(l(1, 8), l(1, 11), vec![A::Probe]), e(l(1, 14), l(1, 17), nest_acts(inner.clone()))])])]),
                e(l(2, 1), l(2, 4), vec![strong(0, Some(1), vec![map(l(2, 4), vec![e(l(1, 8), l(2, 4), vec![A::Probe]), e(l(1, 14), l(2, 4), nest_acts(inner))])])]),
            ])])],
        },
        Host {
            name: "seq", what: "two sequence elements (element guards) between an anchor definition and its alias",
            doc: |n| format!("a: &a {{v: 1}}\ns: [{n}, {n}]\nb: *a\n"),
            run: |doc| finish(catch(|| serde_saphyr::from_str::<HostSeq>(doc)), |d| format!("share={}", b_(Rc::ptr_eq(&d.a.0, &d.b.0))), |d| vec![rcp(&d.a.0), rcp(&d.b.0)]),
            script: |n, inner| vec![A::Scope(false, vec![map(l(1, 1), vec![
                e(l(1, 1), l(1, 7), vec![strong(0, Some(1), vec![leaf(l(1, 7), l(1, 8), l(1, 11))])]),
                e(l(2, 1), l(2, 4), vec![A::G(l(2, 5), nest_acts(inner.clone())), A::G(l(2, 7 + n.len() as u64), nest_acts(inner))]),
                e(l(3, 1), l(3, 4), vec![strong(0, Some(1), vec![leaf(l(3, 4), l(1, 8), l(3, 4))])]),
            ])])],
        },
        Host {
            name: "rec", what: "inside an RcRecursive node, before its self reference",
            doc: |n| format!("foo: &a\n  k1: 1\n  h: {n}\n  k3: *a\n"),
            run: |doc| finish(catch(|| serde_saphyr::from_str::<HostRec>(doc)),
                |d| { let g = d.foo.borrow(); format!("cyc={}", b_(g.k3.upgrade().map(|u| Rc::ptr_eq(&u.0, &d.foo.0)).unwrap_or(false))) },
                |d| { let g = d.foo.borrow(); vec![g.k3.upgrade().map(|u| rcp(&u.0)).unwrap_or(0), rcp(&d.foo.0)] }),
            script: |_, inner| vec![A::Scope(false, vec![map(l(1, 1), vec![
                e(l(1, 1), l(2, 3), vec![strong(2, Some(1), vec![map(l(2, 3), vec![
                    e(l(2, 3), l(2, 7), vec![A::Probe]),
                    e(l(3, 3), l(3, 6), nest_acts(inner)),
                    ep(l(4, 3), vec![A::RecAlias(1, l(4, 7))], l(4, 7), vec![weak(2, Some(1), vec![])]),
                ])])]),
            ])])],
        },
    ])
}

/// run a host document; returns (the enclosing call's output, oracle texts of the nested calls)
fn host_call(h: &Host, nested: &str) -> (CallOut, Vec<String>) {
    NESTED.with(|n| n.borrow_mut().clear());
    let doc = (h.doc)(nested);
    let out = run_generic(|| (h.run)(&doc));
    let inner = NESTED.with(|n| n.borrow().iter().map(|(_, r)| r.clone()).collect::<Vec<_>>());
    (out, inner)
}
