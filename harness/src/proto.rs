//! Line protocol + PRNG shared by all property modules.
use std::fmt::Write as _;
use std::io::Write;

pub fn hex_bytes(b: &[u8]) -> String {
    let mut s = String::with_capacity(1 + 2 * b.len());
    s.push('x');
    for x in b {
        let _ = write!(s, "{:02x}", x);
    }
    s
}
pub fn hex(s: &str) -> String {
    hex_bytes(s.as_bytes())
}
pub fn unhex(t: &str) -> Option<Vec<u8>> {
    let t = t.strip_prefix('x')?;
    if t.len() % 2 != 0 {
        return None;
    }
    (0..t.len())
        .step_by(2)
        .map(|i| u8::from_str_radix(&t[i..i + 2], 16).ok())
        .collect()
}
pub fn b(v: bool) -> &'static str {
    if v { "1" } else { "0" }
}
pub fn opt<T, F: Fn(&T) -> String>(o: &Option<T>, f: F) -> String {
    match o {
        None => "none".to_string(),
        Some(v) => format!("some {}", f(v)),
    }
}

/// splitmix64: every random choice of a run derives from VERIF_SEED through this.
#[derive(Clone)]
pub struct Rng(pub u64);
impl Rng {
    pub fn new(seed: u64) -> Self {
        Rng(seed ^ 0x9E37_79B9_7F4A_7C15)
    }
    pub fn next(&mut self) -> u64 {
        self.0 = self.0.wrapping_add(0x9E37_79B9_7F4A_7C15);
        let mut z = self.0;
        z = (z ^ (z >> 30)).wrapping_mul(0xBF58_476D_1CE4_E5B9);
        z = (z ^ (z >> 27)).wrapping_mul(0x94D0_49BB_1331_11EB);
        z ^ (z >> 31)
    }
    pub fn below(&mut self, n: usize) -> usize {
        if n == 0 { 0 } else { (self.next() % n as u64) as usize }
    }
    pub fn chance(&mut self, num: usize, den: usize) -> bool {
        self.below(den) < num
    }
    pub fn pick<'a, T>(&mut self, xs: &'a [T]) -> &'a T {
        &xs[self.below(xs.len())]
    }
}

/// Output sink: `ops` lines go to the model driver, `impl` lines are the implementation's answers
/// to the same requests (same line numbering). Also collects distribution statistics.
pub struct Sink {
    pub ops: std::io::BufWriter<std::fs::File>,
    pub imp: std::io::BufWriter<std::fs::File>,
    pub n: u64,
    pub stats: std::collections::BTreeMap<String, u64>,
    pub samples: Vec<String>,
}
impl Sink {
    pub fn new(dir: &str, name: &str) -> Self {
        std::fs::create_dir_all(dir).unwrap();
        let ops = std::fs::File::create(format!("{dir}/{name}.ops")).unwrap();
        let imp = std::fs::File::create(format!("{dir}/{name}.impl")).unwrap();
        Sink {
            ops: std::io::BufWriter::new(ops),
            imp: std::io::BufWriter::new(imp),
            n: 0,
            stats: Default::default(),
            samples: Vec::new(),
        }
    }
    pub fn case(&mut self, op: &str, answer: &str) {
        debug_assert!(!op.contains('\n') && !answer.contains('\n'));
        writeln!(self.ops, "{op}").unwrap();
        writeln!(self.imp, "{answer}").unwrap();
        if self.n % 997 == 0 && self.samples.len() < 12 {
            self.samples.push(format!("{op} => {answer}"));
        }
        self.n += 1;
    }
    pub fn count(&mut self, key: &str) {
        *self.stats.entry(key.to_string()).or_insert(0) += 1;
    }
    pub fn finish(mut self, dir: &str, name: &str, extra: serde_json::Value) {
        self.ops.flush().unwrap();
        self.imp.flush().unwrap();
        let meta = serde_json::json!({
            "cases": self.n,
            "stats": self.stats,
            "samples": self.samples,
            "extra": extra,
        });
        std::fs::write(format!("{dir}/{name}.meta.json"), serde_json::to_string_pretty(&meta).unwrap()).unwrap();
    }
}

/// Run a piece of implementation code; a panic becomes `Err(message)` (the case answer is then `panic`).
pub fn catch<T>(f: impl FnOnce() -> T) -> Result<T, String> {
    match std::panic::catch_unwind(std::panic::AssertUnwindSafe(f)) {
        Ok(v) => Ok(v),
        Err(e) => Err(if let Some(s) = e.downcast_ref::<&str>() { s.to_string() }
                      else if let Some(s) = e.downcast_ref::<String>() { s.clone() } else { "panic".into() }),
    }
}
