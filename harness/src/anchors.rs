//! C14: shared-pointer topology through anchors and aliases.
//!
//! A fixed family of Rust types built from the eight wrapper types; generated object graphs are
//! (a) converted to the abstract graph of `Model/Anchors.lean` (pointer identities renamed to small
//! numbers in walk order), (b) serialized by the real serializer — the text is lexed into the canonical
//! token stream and compared with the model's `serVal`, (c) read back by the real deserializer — the
//! rebuilt graph is compared, by pointer-equality classes, with the model's `de` (op `rt`) and with
//! the original graph (implementation-only ORACLE).  Op `de`: hand-made documents (all anchor / alias
//! placements over fixed types, including unanchored wrappers nested in anchored ones) with a probe leaf
//! type that snapshots the thread-local anchor store through the hook.
use crate::proto::*;
use crate::Args;
use serde::{Deserialize, Serialize};
use serde_saphyr::verif_hooks::anchors as hook;
use serde_saphyr::{
    ArcAnchor, ArcRecursion, ArcRecursive, ArcWeakAnchor, RcAnchor, RcRecursion, RcRecursive, RcWeakAnchor,
};
use std::cell::RefCell;
use std::collections::{BTreeMap, HashMap};
use std::rc::Rc;
use std::sync::{Arc, Mutex};

// ------------------------------------------------------------------------------------------------
// abstract graph (mirror of Model/Anchors.lean)

#[derive(Clone, Debug, PartialEq)]
enum LK {
    Int(u64),
    Word,
    Null,
    Block,
    /// a recursive cell whose `Option` is still `None` (only ever seen in rebuilt graphs)
    Unfilled,
}

#[derive(Clone, Debug)]
enum Val {
    Leaf(LK),
    /// `variant`: an enum variant with data (harness-only marker for the failure classifier; not encoded)
    Node { variant: bool, is_map: bool, items: Vec<Val> },
    Strong { k: u8, tid: u32, p: usize },
    Weak { k: u8, tid: u32, p: usize },
}

struct Graph {
    heap: Vec<(usize, Val)>,
    root: Val,
}

#[derive(Default)]
struct Conv {
    ids: HashMap<usize, usize>,
    cells: Vec<(usize, Option<Val>)>,
}

impl Conv {
    fn pid(&mut self, addr: usize) -> usize {
        let n = self.ids.len() + 1;
        *self.ids.entry(addr).or_insert(n)
    }
    fn ensure_cell(&mut self, p: usize, payload: impl FnOnce(&mut Conv) -> Val) {
        if self.cells.iter().any(|c| c.0 == p) {
            return;
        }
        self.cells.push((p, None));
        let v = payload(self);
        for c in self.cells.iter_mut() {
            if c.0 == p {
                c.1 = Some(v);
                break;
            }
        }
    }
}

trait ToVal {
    fn to_val(&self, c: &mut Conv) -> Val;
}
trait Tid {
    const TID: u32;
}

impl ToVal for i64 {
    fn to_val(&self, _c: &mut Conv) -> Val {
        Val::Leaf(LK::Int(*self as u64))
    }
}
impl Tid for i64 {
    const TID: u32 = 2;
}
impl ToVal for String {
    fn to_val(&self, _c: &mut Conv) -> Val {
        Val::Leaf(if self.contains('\n') { LK::Block } else { LK::Word })
    }
}
impl Tid for String {
    const TID: u32 = 3;
}
impl<T: ToVal> ToVal for Option<T> {
    fn to_val(&self, c: &mut Conv) -> Val {
        match self {
            None => Val::Leaf(LK::Null),
            Some(x) => x.to_val(c),
        }
    }
}
impl Tid for Option<i64> {
    const TID: u32 = 4;
}
impl<T: ToVal> ToVal for Vec<T> {
    fn to_val(&self, c: &mut Conv) -> Val {
        Val::Node { variant: false, is_map: false, items: self.iter().map(|x| x.to_val(c)).collect() }
    }
}
impl Tid for Vec<i64> {
    const TID: u32 = 6;
}
impl<T: ToVal> ToVal for BTreeMap<String, T> {
    fn to_val(&self, c: &mut Conv) -> Val {
        Val::Node { variant: false, is_map: true, items: self.values().map(|x| x.to_val(c)).collect() }
    }
}
impl<T: ToVal + Tid> ToVal for RcAnchor<T> {
    fn to_val(&self, c: &mut Conv) -> Val {
        let p = c.pid(Rc::as_ptr(&self.0) as *const u8 as usize);
        c.ensure_cell(p, |c| (*self.0).to_val(c));
        Val::Strong { k: 0, tid: T::TID, p }
    }
}
impl<T: Tid> Tid for RcAnchor<T> {
    const TID: u32 = 100 + T::TID;
}
impl<T: Tid> Tid for ArcAnchor<T> {
    const TID: u32 = 200 + T::TID;
}
impl<T: ToVal + Tid> ToVal for ArcAnchor<T> {
    fn to_val(&self, c: &mut Conv) -> Val {
        let p = c.pid(Arc::as_ptr(&self.0) as *const u8 as usize);
        c.ensure_cell(p, |c| (*self.0).to_val(c));
        Val::Strong { k: 1, tid: T::TID, p }
    }
}
impl<T: ToVal + Tid> ToVal for RcWeakAnchor<T> {
    fn to_val(&self, c: &mut Conv) -> Val {
        match self.0.upgrade() {
            Some(rc) => {
                let p = c.pid(Rc::as_ptr(&rc) as *const u8 as usize);
                c.ensure_cell(p, |c| (*rc).to_val(c));
                Val::Weak { k: 0, tid: T::TID, p }
            }
            None => Val::Weak { k: 0, tid: T::TID, p: c.pid(self.0.as_ptr() as *const u8 as usize) },
        }
    }
}
impl<T: ToVal + Tid> ToVal for ArcWeakAnchor<T> {
    fn to_val(&self, c: &mut Conv) -> Val {
        match self.0.upgrade() {
            Some(rc) => {
                let p = c.pid(Arc::as_ptr(&rc) as *const u8 as usize);
                c.ensure_cell(p, |c| (*rc).to_val(c));
                Val::Weak { k: 1, tid: T::TID, p }
            }
            None => Val::Weak { k: 1, tid: T::TID, p: c.pid(self.0.as_ptr() as *const u8 as usize) },
        }
    }
}
fn opt_cell<T: ToVal>(o: &Option<T>, c: &mut Conv) -> Val {
    match o {
        Some(v) => v.to_val(c),
        None => Val::Leaf(LK::Unfilled),
    }
}
impl<T: ToVal + Tid> ToVal for RcRecursive<T> {
    fn to_val(&self, c: &mut Conv) -> Val {
        let p = c.pid(Rc::as_ptr(&self.0) as *const u8 as usize);
        c.ensure_cell(p, |c| opt_cell(&*self.0.borrow(), c));
        Val::Strong { k: 2, tid: T::TID, p }
    }
}
impl<T: ToVal + Tid> ToVal for RcRecursion<T> {
    fn to_val(&self, c: &mut Conv) -> Val {
        match self.0.upgrade() {
            Some(rc) => {
                let p = c.pid(Rc::as_ptr(&rc) as *const u8 as usize);
                c.ensure_cell(p, |c| opt_cell(&*rc.borrow(), c));
                Val::Weak { k: 2, tid: T::TID, p }
            }
            None => Val::Weak { k: 2, tid: T::TID, p: c.pid(self.0.as_ptr() as *const u8 as usize) },
        }
    }
}
impl<T: ToVal + Tid> ToVal for ArcRecursive<T> {
    fn to_val(&self, c: &mut Conv) -> Val {
        let p = c.pid(Arc::as_ptr(&self.0) as *const u8 as usize);
        c.ensure_cell(p, |c| opt_cell(&*self.0.lock().unwrap(), c));
        Val::Strong { k: 3, tid: T::TID, p }
    }
}
impl<T: ToVal + Tid> ToVal for ArcRecursion<T> {
    fn to_val(&self, c: &mut Conv) -> Val {
        match self.0.upgrade() {
            Some(rc) => {
                let p = c.pid(Arc::as_ptr(&rc) as *const u8 as usize);
                c.ensure_cell(p, |c| opt_cell(&*rc.lock().unwrap(), c));
                Val::Weak { k: 3, tid: T::TID, p }
            }
            None => Val::Weak { k: 3, tid: T::TID, p: c.pid(self.0.as_ptr() as *const u8 as usize) },
        }
    }
}

fn graph_of<T: ToVal>(v: &T) -> Graph {
    let mut c = Conv::default();
    let root = v.to_val(&mut c);
    Graph { heap: c.cells.into_iter().map(|(p, v)| (p, v.expect("cell"))).collect(), root }
}

/// struct fields: only the non-skipped ones, in declaration order
struct Fields<'a> {
    c: &'a mut Conv,
    items: Vec<Val>,
}
impl<'a> Fields<'a> {
    fn new(c: &'a mut Conv) -> Self {
        Fields { c, items: vec![] }
    }
    fn always<T: ToVal>(&mut self, x: &T) {
        let v = x.to_val(self.c);
        self.items.push(v);
    }
    fn vec<T: ToVal>(&mut self, x: &Vec<T>) {
        if !x.is_empty() {
            self.always(x);
        }
    }
    fn map<T: ToVal>(&mut self, x: &BTreeMap<String, T>) {
        if !x.is_empty() {
            self.always(x);
        }
    }
    fn opt<T: ToVal>(&mut self, x: &Option<T>) {
        if let Some(v) = x {
            self.always(v);
        }
    }
    fn done(self) -> Val {
        Val::Node { variant: false, is_map: true, items: self.items }
    }
}

// ------------------------------------------------------------------------------------------------
// the Rust type family

#[derive(Serialize, Deserialize, Debug, Clone)]
enum EN {
    Unit,
    New(i64),
    Tup(i64, i64),
    St { a: i64 },
}
impl Tid for EN {
    const TID: u32 = 5;
}
impl ToVal for EN {
    fn to_val(&self, c: &mut Conv) -> Val {
        let variant = |inner: Val| Val::Node { variant: true, is_map: true, items: vec![inner] };
        match self {
            EN::Unit => Val::Leaf(LK::Word),
            EN::New(n) => variant(n.to_val(c)),
            EN::Tup(a, b) => variant(Val::Node { variant: false, is_map: false, items: vec![a.to_val(c), b.to_val(c)] }),
            EN::St { a } => variant(Val::Node { variant: false, is_map: true, items: vec![a.to_val(c)] }),
        }
    }
}

/// Arc world (`Send + Sync`)
#[derive(Serialize, Deserialize, Default)]
struct AN {
    id: i64,
    #[serde(default, skip_serializing_if = "Vec::is_empty")]
    wfirst: Vec<ArcWeakAnchor<AN>>,
    #[serde(default, skip_serializing_if = "Vec::is_empty")]
    kids: Vec<ArcAnchor<AN>>,
    #[serde(default, skip_serializing_if = "Vec::is_empty")]
    weak: Vec<ArcWeakAnchor<AN>>,
    #[serde(default, skip_serializing_if = "Vec::is_empty")]
    ints: Vec<ArcAnchor<i64>>,
}
impl Tid for AN {
    const TID: u32 = 8;
}
impl ToVal for AN {
    fn to_val(&self, c: &mut Conv) -> Val {
        let mut f = Fields::new(c);
        f.always(&self.id);
        f.vec(&self.wfirst);
        f.vec(&self.kids);
        f.vec(&self.weak);
        f.vec(&self.ints);
        f.done()
    }
}

/// a weak pointer in a mapping-value position
#[derive(Serialize, Deserialize)]
struct WField {
    w: RcWeakAnchor<RN>,
}
impl ToVal for WField {
    fn to_val(&self, c: &mut Conv) -> Val {
        let mut f = Fields::new(c);
        f.always(&self.w);
        f.done()
    }
}

/// Rc world
#[derive(Serialize, Deserialize, Default)]
struct RN {
    id: i64,
    #[serde(default, skip_serializing_if = "Vec::is_empty")]
    wfirst: Vec<RcWeakAnchor<RN>>,
    #[serde(default, skip_serializing_if = "Vec::is_empty")]
    kids: Vec<RcAnchor<RN>>,
    #[serde(default, skip_serializing_if = "Option::is_none")]
    one: Option<RcAnchor<RN>>,
    #[serde(default, skip_serializing_if = "BTreeMap::is_empty")]
    named: BTreeMap<String, RcAnchor<RN>>,
    #[serde(default, skip_serializing_if = "Vec::is_empty")]
    weak: Vec<RcWeakAnchor<RN>>,
    #[serde(default, skip_serializing_if = "Option::is_none")]
    wfield: Option<WField>,
    #[serde(default, skip_serializing_if = "Vec::is_empty")]
    ints: Vec<RcAnchor<i64>>,
    #[serde(default, skip_serializing_if = "Vec::is_empty")]
    strs: Vec<RcAnchor<String>>,
    #[serde(default, skip_serializing_if = "Vec::is_empty")]
    opts: Vec<RcAnchor<Option<i64>>>,
    #[serde(default, skip_serializing_if = "Vec::is_empty")]
    enums: Vec<RcAnchor<EN>>,
    #[serde(default, skip_serializing_if = "Option::is_none")]
    vone: Option<RcAnchor<Vec<i64>>>,
    #[serde(default, skip_serializing_if = "Option::is_none")]
    vtwo: Option<RcAnchor<Vec<i64>>>,
    #[serde(default, skip_serializing_if = "Vec::is_empty")]
    vecs: Vec<RcAnchor<Vec<i64>>>,
    #[serde(default, skip_serializing_if = "Vec::is_empty")]
    nest: Vec<RcAnchor<RcAnchor<i64>>>,
    #[serde(default, skip_serializing_if = "Vec::is_empty")]
    nestmix: Vec<RcAnchor<ArcAnchor<i64>>>,
    #[serde(default, skip_serializing_if = "Vec::is_empty")]
    arcs: Vec<ArcAnchor<AN>>,
    #[serde(default, skip_serializing_if = "Vec::is_empty")]
    aweak: Vec<ArcWeakAnchor<AN>>,
    #[serde(default, skip_serializing_if = "Vec::is_empty")]
    plain: Vec<RN>,
    #[serde(default, skip_serializing_if = "Option::is_none")]
    pe: Option<EN>,
    #[serde(default, skip_serializing_if = "Option::is_none")]
    tail: Option<i64>,
}
impl Tid for RN {
    const TID: u32 = 1;
}
impl ToVal for RN {
    fn to_val(&self, c: &mut Conv) -> Val {
        let mut f = Fields::new(c);
        f.always(&self.id);
        f.vec(&self.wfirst);
        f.vec(&self.kids);
        f.opt(&self.one);
        f.map(&self.named);
        f.vec(&self.weak);
        f.opt(&self.wfield);
        f.vec(&self.ints);
        f.vec(&self.strs);
        f.vec(&self.opts);
        f.vec(&self.enums);
        f.opt(&self.vone);
        f.opt(&self.vtwo);
        f.vec(&self.vecs);
        f.vec(&self.nest);
        f.vec(&self.nestmix);
        f.vec(&self.arcs);
        f.vec(&self.aweak);
        f.vec(&self.plain);
        f.opt(&self.pe);
        f.opt(&self.tail);
        f.done()
    }
}

#[derive(Serialize, Deserialize)]
struct RR {
    id: i64,
    #[serde(default, skip_serializing_if = "Vec::is_empty")]
    bfirst: Vec<RcRecursion<RR>>,
    #[serde(default, skip_serializing_if = "Vec::is_empty")]
    kids: Vec<RcRecursive<RR>>,
    #[serde(default, skip_serializing_if = "Vec::is_empty")]
    back: Vec<RcRecursion<RR>>,
}
impl Tid for RR {
    const TID: u32 = 9;
}
impl ToVal for RR {
    fn to_val(&self, c: &mut Conv) -> Val {
        let mut f = Fields::new(c);
        f.always(&self.id);
        f.vec(&self.bfirst);
        f.vec(&self.kids);
        f.vec(&self.back);
        f.done()
    }
}
#[derive(Serialize, Deserialize)]
struct AR {
    id: i64,
    #[serde(default, skip_serializing_if = "Vec::is_empty")]
    bfirst: Vec<ArcRecursion<AR>>,
    #[serde(default, skip_serializing_if = "Vec::is_empty")]
    kids: Vec<ArcRecursive<AR>>,
    #[serde(default, skip_serializing_if = "Vec::is_empty")]
    back: Vec<ArcRecursion<AR>>,
}
impl Tid for AR {
    const TID: u32 = 10;
}
impl ToVal for AR {
    fn to_val(&self, c: &mut Conv) -> Val {
        let mut f = Fields::new(c);
        f.always(&self.id);
        f.vec(&self.bfirst);
        f.vec(&self.kids);
        f.vec(&self.back);
        f.done()
    }
}

#[derive(Serialize, Deserialize, Default)]
struct Top {
    #[serde(default, skip_serializing_if = "Option::is_none")]
    rn: Option<RN>,
    #[serde(default, skip_serializing_if = "Vec::is_empty")]
    rwfirst: Vec<RcRecursion<RR>>,
    #[serde(default, skip_serializing_if = "Vec::is_empty")]
    rr: Vec<RcRecursive<RR>>,
    #[serde(default, skip_serializing_if = "Vec::is_empty")]
    rw: Vec<RcRecursion<RR>>,
    #[serde(default, skip_serializing_if = "Vec::is_empty")]
    ar: Vec<ArcRecursive<AR>>,
    #[serde(default, skip_serializing_if = "Vec::is_empty")]
    aw: Vec<ArcRecursion<AR>>,
    fin: i64,
}
impl ToVal for Top {
    fn to_val(&self, c: &mut Conv) -> Val {
        let mut f = Fields::new(c);
        f.opt(&self.rn);
        f.vec(&self.rwfirst);
        f.vec(&self.rr);
        f.vec(&self.rw);
        f.vec(&self.ar);
        f.vec(&self.aw);
        f.always(&self.fin);
        f.done()
    }
}

// ------------------------------------------------------------------------------------------------
// protocol encoding, lexer, canonical form

fn enc_lk(k: &LK, out: &mut Vec<String>) {
    match k {
        LK::Int(n) => {
            out.push("i".into());
            out.push(n.to_string());
        }
        LK::Word => out.push("w".into()),
        LK::Null => out.push("n".into()),
        LK::Block => out.push("b".into()),
        LK::Unfilled => out.push("u".into()),
    }
}
fn enc_val(v: &Val, out: &mut Vec<String>) {
    match v {
        Val::Leaf(k) => {
            out.push("L".into());
            enc_lk(k, out);
        }
        Val::Node { is_map, items, .. } => {
            out.push("N".into());
            out.push(b(*is_map).into());
            out.push(items.len().to_string());
            for i in items {
                enc_val(i, out);
            }
        }
        Val::Strong { k, tid, p } => out.extend(["S".to_string(), k.to_string(), tid.to_string(), p.to_string()]),
        Val::Weak { k, tid, p } => out.extend(["W".to_string(), k.to_string(), tid.to_string(), p.to_string()]),
    }
}
fn enc_graph(g: &Graph) -> String {
    let mut out = vec![g.heap.len().to_string()];
    for (p, v) in &g.heap {
        out.push(p.to_string());
        enc_val(v, &mut out);
    }
    enc_val(&g.root, &mut out);
    out.join(" ")
}

/// canonical token stream of serializer output (see `Model/Anchors.lean::render`)
fn lex(text: &str) -> String {
    fn key_prefix(s: &str) -> Option<usize> {
        let bytes = s.as_bytes();
        let mut i = 0;
        if i < bytes.len() && bytes[i] == b'"' {
            i += 1;
        }
        let start = i;
        while i < bytes.len() && (bytes[i].is_ascii_alphabetic() || bytes[i] == b'_') {
            i += 1;
        }
        if i == start {
            return None;
        }
        if i < bytes.len() && bytes[i] == b'"' {
            i += 1;
        }
        if i < bytes.len() && bytes[i] == b':' { Some(i + 1) } else { None }
    }
    let mut out: Vec<String> = vec![];
    for line in text.lines() {
        let mut rest = line.trim_start();
        if rest.is_empty() || rest == "bb" {
            continue;
        }
        loop {
            if rest == "-" {
                out.push("-".into());
                rest = "";
                break;
            }
            if let Some(r) = rest.strip_prefix("- ") {
                out.push("-".into());
                rest = r.trim_start();
                continue;
            }
            if let Some(pos) = key_prefix(rest) {
                out.push("K".into());
                rest = rest[pos..].trim_start();
                continue;
            }
            break;
        }
        for atom in rest.split_whitespace() {
            let t = if let Some(n) = atom.strip_prefix("&a") {
                format!("D{n}")
            } else if let Some(n) = atom.strip_prefix("*a") {
                format!("A{n}")
            } else if atom.chars().all(|c| c.is_ascii_digit()) {
                format!("I{atom}")
            } else if atom == "null" {
                "N".into()
            } else if atom == "[]" {
                "E".into()
            } else if atom == "{}" {
                "M".into()
            } else if atom.starts_with('|') || atom.starts_with('>') {
                "B".into()
            } else {
                "W".into()
            };
            out.push(t);
        }
    }
    out.join(",")
}

/// pointer-equality classes of a graph: classes are numbered in walk order, a cell is expanded at its
/// first strong occurrence
fn canon(g: &Graph) -> String {
    fn lk(k: &LK) -> String {
        match k {
            LK::Int(n) => format!("I{n}"),
            LK::Word => "W".into(),
            LK::Null => "N".into(),
            LK::Block => "B".into(),
            LK::Unfilled => "U".into(),
        }
    }
    struct St<'a> {
        g: &'a Graph,
        cls: HashMap<usize, usize>,
        expanded: Vec<usize>,
        out: Vec<String>,
    }
    fn class(st: &mut St, p: usize) -> usize {
        let n = st.cls.len() + 1;
        *st.cls.entry(p).or_insert(n)
    }
    fn go(st: &mut St, v: &Val) {
        match v {
            Val::Leaf(k) => st.out.push(lk(k)),
            Val::Node { items, .. } => {
                st.out.push("(".into());
                for i in items {
                    go(st, i);
                }
                st.out.push(")".into());
            }
            Val::Strong { p, .. } => {
                let c = class(st, *p);
                if st.expanded.contains(p) {
                    st.out.push(format!("S{c}"));
                } else {
                    st.expanded.push(*p);
                    st.out.push(format!("S{c}<"));
                    let g = st.g;
                    match g.heap.iter().find(|c| c.0 == *p) {
                        Some((_, payload)) => go(st, payload),
                        None => st.out.push("?".into()),
                    }
                    st.out.push(">".into());
                }
            }
            Val::Weak { p, .. } => {
                if st.g.heap.iter().any(|c| c.0 == *p) {
                    let c = class(st, *p);
                    st.out.push(format!("W{c}"));
                } else {
                    st.out.push("Wx".into());
                }
            }
        }
    }
    let mut st = St { g, cls: HashMap::new(), expanded: vec![], out: vec![] };
    go(&mut st, &g.root);
    st.out.join(",")
}

fn err_kind(msg: &str) -> &'static str {
    let m = msg.to_lowercase();
    if m.contains("must refer to an existing") {
        "weak_no_anchor"
    } else if m.contains("strong anchor must be defined before weak") || m.contains("refers to unknown recursive anchor id") {
        "weak_unknown"
    } else if m.contains("recursive references require") {
        "rec_needs_weak"
    } else if m.contains("unknown anchor") {
        "unknown_anchor"
    } else if m.contains("reused with incompatible") {
        "type_reuse"
    } else {
        "shape"
    }
}

// ------------------------------------------------------------------------------------------------
// graph analysis used to (a) decide which cases the `rt` differential covers and (b) classify oracle
// failures into stable ids

#[derive(Default, Debug)]
struct Feat {
    /// a cell whose payload is a block scalar: it cannot carry an anchor, the pointer is written in full
    /// at every occurrence (values right, sharing of that pointer lost)
    leak: bool,
    /// a cell whose payload is `null` or an enum variant with data (formerly lost their anchor)
    null_or_variant_payload: bool,
    /// a wrapper directly inside a wrapper (one YAML node, one id)
    nested: bool,
    dangling: bool,
    dangling_map_value: bool,
    /// a live weak edge met before its strong owner (or whose owner is not part of the graph)
    weak_first: bool,
    /// a non-recursive weak edge (or a strong edge) to a cell that is still being serialized
    cycle_nonrec: bool,
    /// a strong recursive edge to a cell still being serialized
    strong_cycle: bool,
    /// a strong `ArcRecursive` edge to a cell whose mutex is held by an enclosing serialize call
    deadlock: bool,
    /// first sight of a cell whose payload is a sequence, in a sequence-element position
    seq_in_seq: bool,
    shared: bool,
    weak_live: bool,
    rec_back: bool,
}

fn takes_root(v: &Val) -> bool {
    match v {
        Val::Leaf(LK::Block) => false,
        Val::Leaf(_) | Val::Node { .. } => true,
        _ => false,
    }
}

fn analyse(g: &Graph) -> Feat {
    struct A<'a> {
        g: &'a Graph,
        seen: Vec<usize>,
        open: Vec<usize>,
        f: Feat,
    }
    fn enter(a: &mut A, p: usize, via_weak: bool, k: u8, seq_elem: bool) {
        if k == 3 && !via_weak && a.open.contains(&p) {
            a.f.deadlock = true;
        }
        if a.seen.contains(&p) {
            a.f.shared = true;
            if a.open.contains(&p) {
                if k >= 2 && via_weak {
                    a.f.rec_back = true;
                } else if k >= 2 {
                    a.f.strong_cycle = true;
                } else {
                    a.f.cycle_nonrec = true;
                }
            }
            return;
        }
        if via_weak {
            a.f.weak_first = true;
        }
        a.seen.push(p);
        a.open.push(p);
        let g = a.g;
        if let Some((_, payload)) = g.heap.iter().find(|c| c.0 == p) {
            match payload {
                Val::Leaf(LK::Block) => a.f.leak = true,
                Val::Leaf(LK::Null) | Val::Node { variant: true, .. } => a.f.null_or_variant_payload = true,
                Val::Strong { .. } | Val::Weak { .. } => a.f.nested = true,
                _ => {}
            }
            if seq_elem && matches!(payload, Val::Node { is_map: false, variant: false, .. }) {
                a.f.seq_in_seq = true;
            }
            go(a, payload, false, false);
        }
        a.open.pop();
    }
    fn go(a: &mut A, v: &Val, map_value: bool, seq_elem: bool) {
        match v {
            Val::Leaf(_) => {}
            Val::Node { items, is_map, .. } => {
                for i in items {
                    go(a, i, *is_map, !*is_map);
                }
            }
            Val::Strong { p, k, .. } => enter(a, *p, false, *k, seq_elem),
            Val::Weak { p, k, .. } => {
                if a.g.heap.iter().any(|c| c.0 == *p) {
                    a.f.weak_live = true;
                    enter(a, *p, true, *k, seq_elem)
                } else {
                    a.f.dangling = true;
                    if map_value {
                        a.f.dangling_map_value = true;
                    }
                }
            }
        }
    }
    let mut a = A { g, seen: vec![], open: vec![], f: Feat::default() };
    go(&mut a, &g.root, false, false);
    a.f
}

// ------------------------------------------------------------------------------------------------
// generators

#[derive(Clone, Copy, Default)]
struct Cfg {
    weak: bool,
    weak_first: bool,
    dangling: bool,
    dangling_field: bool,
    /// payloads `None` / enum variants with data
    nullvar: bool,
    /// multi-line string payloads (block scalars)
    block: bool,
    /// wrappers directly inside wrappers
    nest: bool,
    arcs: bool,
    self_weak: bool,
    outside: bool,
    seqseq: bool,
}

struct Gen<'a> {
    rng: &'a mut Rng,
    next_id: i64,
    /// owners kept alive outside the serialized graph
    keep_rc: Vec<Rc<RN>>,
    keep_arc: Vec<Arc<AN>>,
}

impl<'a> Gen<'a> {
    fn id(&mut self) -> i64 {
        self.next_id += 1;
        self.next_id
    }
    fn picks<T: Clone>(&mut self, pool: &[T], max: usize) -> Vec<T> {
        if pool.is_empty() {
            return vec![];
        }
        let n = self.rng.below(max + 1);
        (0..n).map(|_| pool[self.rng.below(pool.len())].clone()).collect()
    }

    fn arc_world(&mut self, cfg: Cfg) -> Vec<Arc<AN>> {
        let n = self.rng.below(4);
        let ints: Vec<Arc<i64>> = (0..2).map(|_| Arc::new(self.id())).collect();
        let mut pool: Vec<Arc<AN>> = vec![];
        for _ in 0..n {
            let mut node = AN { id: self.id(), ..Default::default() };
            node.kids = self.picks(&pool, 2).into_iter().map(ArcAnchor).collect();
            if self.rng.chance(1, 3) {
                node.ints = self.picks(&ints, 2).into_iter().map(ArcAnchor).collect();
            }
            if cfg.weak && self.rng.chance(1, 2) {
                node.weak = self.picks(&pool, 2).iter().map(|a| ArcWeakAnchor(Arc::downgrade(a))).collect();
            }
            if cfg.weak_first && self.rng.chance(1, 3) {
                node.wfirst = self.picks(&pool, 1).iter().map(|a| ArcWeakAnchor(Arc::downgrade(a))).collect();
            }
            if cfg.dangling && self.rng.chance(1, 3) {
                let tmp = Arc::new(AN::default());
                node.weak.push(ArcWeakAnchor(Arc::downgrade(&tmp)));
            }
            pool.push(Arc::new(node));
        }
        pool
    }

    fn rn_world(&mut self, cfg: Cfg) -> RN {
        let arcs = if cfg.arcs { self.arc_world(cfg) } else { vec![] };
        let ints: Vec<Rc<i64>> = (0..2).map(|_| Rc::new(self.id())).collect();
        let strs: Vec<Rc<String>> = vec![
            Rc::new("wa".to_string()),
            Rc::new(if cfg.block { "bb\nbb\n".to_string() } else { "wb".to_string() }),
        ];
        let opts: Vec<Rc<Option<i64>>> = vec![Rc::new(Some(self.id())), Rc::new(if cfg.nullvar { None } else { Some(self.id()) })];
        let enums: Vec<Rc<EN>> = if cfg.nullvar {
            vec![Rc::new(EN::Unit), Rc::new(EN::New(self.id())), Rc::new(EN::Tup(self.id(), self.id())), Rc::new(EN::St { a: self.id() })]
        } else {
            vec![Rc::new(EN::Unit)]
        };
        let vecs: Vec<Rc<Vec<i64>>> = vec![Rc::new(vec![]), Rc::new(vec![self.id(), self.id()])];
        let nests: Vec<Rc<RcAnchor<i64>>> = if cfg.nest { vec![Rc::new(RcAnchor(ints[0].clone())), Rc::new(RcAnchor(Rc::new(self.id())))] } else { vec![] };
        let aints: Vec<Arc<i64>> = (0..2).map(|_| Arc::new(self.id())).collect();
        let nestmix: Vec<Rc<ArcAnchor<i64>>> = if cfg.nest {
            vec![Rc::new(ArcAnchor(aints[0].clone())), Rc::new(ArcAnchor(aints[0].clone())), Rc::new(ArcAnchor(aints[1].clone()))]
        } else { vec![] };
        let n = 1 + self.rng.below(5);
        let mut pool: Vec<Rc<RN>> = vec![];
        for i in 0..=n {
            let is_root = i == n;
            let mut node = RN { id: self.id(), ..Default::default() };
            let fan = if is_root { 3 } else { 2 };
            node.kids = self.picks(&pool, fan).into_iter().map(RcAnchor).collect();
            if self.rng.chance(1, 3) {
                node.one = self.picks(&pool, 1).into_iter().map(RcAnchor).next();
            }
            if self.rng.chance(1, 3) {
                for (j, x) in self.picks(&pool, 2).into_iter().enumerate() {
                    node.named.insert(["ka", "kb"][j].to_string(), RcAnchor(x));
                }
            }
            if self.rng.chance(1, 3) {
                node.ints = self.picks(&ints, 2).into_iter().map(RcAnchor).collect();
            }
            if self.rng.chance(1, 4) {
                node.strs = self.picks(&strs, 2).into_iter().map(RcAnchor).collect();
            }
            if self.rng.chance(1, 4) {
                node.opts = self.picks(&opts, 2).into_iter().map(RcAnchor).collect();
            }
            if self.rng.chance(1, 4) {
                node.enums = self.picks(&enums, 2).into_iter().map(RcAnchor).collect();
            }
            if self.rng.chance(1, 4) {
                node.vone = self.picks(&vecs, 1).into_iter().map(RcAnchor).next();
                node.vtwo = self.picks(&vecs, 1).into_iter().map(RcAnchor).next();
            }
            if cfg.seqseq && self.rng.chance(1, 2) {
                node.vecs = self.picks(&vecs, 2).into_iter().map(RcAnchor).collect();
            }
            if self.rng.chance(1, 3) {
                node.nest = self.picks(&nests, 2).into_iter().map(RcAnchor).collect();
            }
            if self.rng.chance(1, 3) {
                node.nestmix = self.picks(&nestmix, 2).into_iter().map(RcAnchor).collect();
            }
            if self.rng.chance(1, 2) {
                node.arcs = self.picks(&arcs, 2).into_iter().map(ArcAnchor).collect();
            }
            if cfg.weak && self.rng.chance(1, 2) {
                node.weak = self.picks(&pool, 2).iter().map(|a| RcWeakAnchor(Rc::downgrade(a))).collect();
                if self.rng.chance(1, 2) {
                    node.aweak = self.picks(&arcs, 2).iter().map(|a| ArcWeakAnchor(Arc::downgrade(a))).collect();
                }
            }
            if cfg.weak_first && self.rng.chance(1, 3) {
                node.wfirst = self.picks(&pool, 1).iter().map(|a| RcWeakAnchor(Rc::downgrade(a))).collect();
            }
            if cfg.outside && self.rng.chance(1, 3) {
                let owner = Rc::new(RN { id: self.id(), ..Default::default() });
                node.weak.push(RcWeakAnchor(Rc::downgrade(&owner)));
                self.keep_rc.push(owner);
            }
            if cfg.dangling && self.rng.chance(1, 3) {
                let tmp = Rc::new(RN::default());
                node.weak.push(RcWeakAnchor(Rc::downgrade(&tmp)));
            }
            if cfg.dangling_field && self.rng.chance(1, 3) {
                let tmp = Rc::new(RN::default());
                node.wfield = Some(WField { w: RcWeakAnchor(Rc::downgrade(&tmp)) });
            } else if cfg.weak && self.rng.chance(1, 6) {
                node.wfield = self.picks(&pool, 1).iter().map(|a| WField { w: RcWeakAnchor(Rc::downgrade(a)) }).next();
            }
            if self.rng.chance(1, 5) && !pool.is_empty() {
                // a plain (non-wrapper) nested struct holding more shared pointers
                let mut inner = RN { id: self.id(), ..Default::default() };
                inner.kids = self.picks(&pool, 2).into_iter().map(RcAnchor).collect();
                node.plain.push(inner);
            }
            if self.rng.chance(1, 5) {
                node.pe = Some([EN::Unit, EN::New(3), EN::St { a: 4 }][self.rng.below(3)].clone());
            }
            if self.rng.chance(1, 2) {
                node.tail = Some(self.id());
            }
            if is_root {
                return node;
            }
            if cfg.self_weak && self.rng.chance(1, 3) {
                let rc = Rc::new_cyclic(|me| {
                    node.weak.push(RcWeakAnchor(me.clone()));
                    node
                });
                pool.push(rc);
            } else {
                pool.push(Rc::new(node));
            }
        }
        unreachable!()
    }

    /// cells 0..n; strong edges i -> j only for j > i (no strong cycles), weak edges anywhere
    fn rr_world(&mut self, top: &mut Top, forward: bool, dangling: bool, strong_cycle: bool) {
        let n = 1 + self.rng.below(4);
        let cells: Vec<Rc<RefCell<Option<RR>>>> = (0..n).map(|_| Rc::new(RefCell::new(None))).collect();
        for i in 0..n {
            let mut node = RR { id: self.id(), bfirst: vec![], kids: vec![], back: vec![] };
            for j in (i + 1)..n {
                if self.rng.chance(1, 2) {
                    node.kids.push(RcRecursive(cells[j].clone()));
                }
            }
            if strong_cycle && self.rng.chance(1, 3) {
                node.kids.push(RcRecursive(cells[self.rng.below(i + 1)].clone()));
            }
            let nb = self.rng.below(3);
            for _ in 0..nb {
                let t = if forward { self.rng.below(n) } else { self.rng.below(i + 1) };
                let w = RcRecursion(Rc::downgrade(&cells[t]));
                if forward && self.rng.chance(1, 4) { node.bfirst.push(w) } else { node.back.push(w) }
            }
            if dangling && self.rng.chance(1, 3) {
                let tmp = Rc::new(RefCell::new(Some(RR { id: 0, bfirst: vec![], kids: vec![], back: vec![] })));
                node.back.push(RcRecursion(Rc::downgrade(&tmp)));
            }
            *cells[i].borrow_mut() = Some(node);
        }
        top.rr.push(RcRecursive(cells[0].clone()));
        if self.rng.chance(1, 2) {
            let k = self.rng.below(n);
            top.rr.push(RcRecursive(cells[k].clone()));
        }
        if self.rng.chance(1, 2) {
            let k = self.rng.below(n);
            top.rw.push(RcRecursion(Rc::downgrade(&cells[k])));
        }
        if forward && self.rng.chance(1, 4) {
            let k = self.rng.below(n);
            top.rwfirst.push(RcRecursion(Rc::downgrade(&cells[k])));
        }
    }

    fn ar_world(&mut self, top: &mut Top, forward: bool) {
        let n = 1 + self.rng.below(3);
        let cells: Vec<Arc<Mutex<Option<AR>>>> = (0..n).map(|_| Arc::new(Mutex::new(None))).collect();
        for i in 0..n {
            let mut node = AR { id: self.id(), bfirst: vec![], kids: vec![], back: vec![] };
            for j in (i + 1)..n {
                if self.rng.chance(1, 2) {
                    node.kids.push(ArcRecursive(cells[j].clone()));
                }
            }
            let nb = self.rng.below(3);
            for _ in 0..nb {
                let t = if forward { self.rng.below(n) } else { self.rng.below(i + 1) };
                node.back.push(ArcRecursion(Arc::downgrade(&cells[t])));
            }
            *cells[i].lock().unwrap() = Some(node);
        }
        top.ar.push(ArcRecursive(cells[0].clone()));
        if self.rng.chance(1, 2) {
            let k = self.rng.below(n);
            top.ar.push(ArcRecursive(cells[k].clone()));
        }
        if self.rng.chance(1, 2) {
            let k = self.rng.below(n);
            top.aw.push(ArcRecursion(Arc::downgrade(&cells[k])));
        }
    }
}

/// break the weak cycles' owners so that nothing leaks between cases (strong edges form a DAG, nothing to do)
fn profile_name(p: usize) -> &'static str {
    ["clean_dag", "weak_after", "weak_any_order", "dangling_seq", "dangling_field", "null_or_variant_payload", "self_weak", "outside_owner", "rec_back", "rec_forward", "rec_dangling", "rec_strong_cycle", "mixed", "seq_in_seq", "block_payload", "nested_wrappers"][p]
}

fn gen_case(rng: &mut Rng, profile: usize) -> (Top, Vec<Rc<RN>>, Vec<Arc<AN>>) {
    let mut g = Gen { rng, next_id: 10, keep_rc: vec![], keep_arc: vec![] };
    let mut top = Top::default();
    let mut cfg = Cfg { arcs: true, ..Default::default() };
    match profile {
        0 => {}
        1 => cfg.weak = true,
        2 => { cfg.weak = true; cfg.weak_first = true; }
        3 => { cfg.weak = true; cfg.dangling = true; }
        4 => { cfg.dangling_field = true; }
        5 => cfg.nullvar = true,
        14 => cfg.block = true,
        15 => { cfg.nest = true; cfg.weak = true; }
        6 => { cfg.weak = true; cfg.self_weak = true; }
        7 => { cfg.weak = true; cfg.outside = true; }
        12 => { cfg = Cfg { weak: true, weak_first: true, dangling: true, dangling_field: true, nullvar: true, block: true, nest: true, arcs: true, self_weak: true, outside: true, seqseq: true }; }
        13 => cfg.seqseq = true,
        _ => {}
    }
    if profile <= 7 || profile >= 12 {
        top.rn = Some(g.rn_world(cfg));
    }
    match profile {
        8 => { g.rr_world(&mut top, false, false, false); if g.rng.chance(1, 2) { g.ar_world(&mut top, false); } }
        9 => { g.rr_world(&mut top, true, false, false); if g.rng.chance(1, 2) { g.ar_world(&mut top, true); } }
        10 => g.rr_world(&mut top, false, true, false),
        11 => g.rr_world(&mut top, false, false, true),
        12 => { g.rr_world(&mut top, true, true, false); g.ar_world(&mut top, true); }
        13 | 14 | 15 => {}
        _ => { if g.rng.chance(1, 4) { g.rr_world(&mut top, false, false, false); } }
    }
    top.fin = g.id();
    let keep = (std::mem::take(&mut g.keep_rc), std::mem::take(&mut g.keep_arc));
    (top, keep.0, keep.1)
}

// ------------------------------------------------------------------------------------------------
// op `de`: hand-made documents over fixed types, with the probe leaf

thread_local! {
    static TRACE: RefCell<Vec<hook::Snapshot>> = const { RefCell::new(Vec::new()) };
}

/// a leaf that records the state of the thread-local anchor store when it is deserialized
#[derive(Debug)]
struct Probe(#[allow(dead_code)] i64);
impl<'de> Deserialize<'de> for Probe {
    fn deserialize<D: serde::Deserializer<'de>>(d: D) -> Result<Self, D::Error> {
        let v = i64::deserialize(d)?;
        TRACE.with(|t| t.borrow_mut().push(hook::snapshot()));
        Ok(Probe(v))
    }
}
impl ToVal for Probe {
    fn to_val(&self, _c: &mut Conv) -> Val {
        Val::Leaf(LK::Int(self.0 as u64))
    }
}

macro_rules! de_family {
    ($m:ident, $strong:ident, $weak:ident, $rstrong:ident, $rweak:ident) => {
        mod $m {
            use super::*;
            #[derive(Deserialize, Debug)]
            pub struct DV {
                pub v: Probe,
            }
            impl Tid for DV {
                const TID: u32 = 21;
            }
            impl ToVal for DV {
                fn to_val(&self, c: &mut Conv) -> Val {
                    let mut f = Fields::new(c);
                    f.always(&self.v);
                    f.done()
                }
            }
            #[derive(Deserialize, Debug)]
            pub struct DW {
                pub v: Probe,
            }
            impl Tid for DW {
                const TID: u32 = 22;
            }
            impl ToVal for DW {
                fn to_val(&self, c: &mut Conv) -> Val {
                    let mut f = Fields::new(c);
                    f.always(&self.v);
                    f.done()
                }
            }
            #[derive(Deserialize, Debug)]
            pub struct DO {
                pub a: $strong<DV>,
                pub b: $strong<DV>,
                pub c: $strong<DW>,
                pub w: $weak<DV>,
                pub p: DV,
            }
            impl Tid for DO {
                const TID: u32 = 23;
            }
            impl ToVal for DO {
                fn to_val(&self, c: &mut Conv) -> Val {
                    let mut f = Fields::new(c);
                    f.always(&self.a);
                    f.always(&self.b);
                    f.always(&self.c);
                    f.always(&self.w);
                    f.always(&self.p);
                    f.done()
                }
            }
            #[derive(Deserialize, Debug)]
            pub struct DTop {
                pub o: $strong<DO>,
                pub x: $strong<DV>,
                pub y: DV,
                pub z: $weak<DV>,
            }
            impl ToVal for DTop {
                fn to_val(&self, c: &mut Conv) -> Val {
                    let mut f = Fields::new(c);
                    f.always(&self.o);
                    f.always(&self.x);
                    f.always(&self.y);
                    f.always(&self.z);
                    f.done()
                }
            }
            #[derive(Deserialize, Debug)]
            pub struct DP {
                pub a: $strong<DV>,
                pub b: $strong<DV>,
            }
            impl Tid for DP {
                const TID: u32 = 25;
            }
            impl ToVal for DP {
                fn to_val(&self, c: &mut Conv) -> Val {
                    let mut f = Fields::new(c);
                    f.always(&self.a);
                    f.always(&self.b);
                    f.done()
                }
            }
            #[derive(Deserialize, Debug)]
            pub struct DN {
                pub o: $strong<DP>,
                pub t: $strong<DV>,
            }
            impl ToVal for DN {
                fn to_val(&self, c: &mut Conv) -> Val {
                    let mut f = Fields::new(c);
                    f.always(&self.o);
                    f.always(&self.t);
                    f.done()
                }
            }
            #[derive(Deserialize, Debug)]
            pub struct DK {
                pub n: Probe,
                pub c: $rweak<DK>,
                pub k: Vec<$rstrong<DK>>,
            }
            impl Tid for DK {
                const TID: u32 = 24;
            }
            impl ToVal for DK {
                fn to_val(&self, c: &mut Conv) -> Val {
                    let mut f = Fields::new(c);
                    f.always(&self.n);
                    f.always(&self.c);
                    f.always(&self.k);
                    f.done()
                }
            }
            #[derive(Deserialize, Debug)]
            pub struct DKTop {
                pub k: $rstrong<DK>,
                pub again: $rstrong<DK>,
                pub w: $rweak<DK>,
            }
            impl ToVal for DKTop {
                fn to_val(&self, c: &mut Conv) -> Val {
                    let mut f = Fields::new(c);
                    f.always(&self.k);
                    f.always(&self.again);
                    f.always(&self.w);
                    f.done()
                }
            }
        }
    };
}
de_family!(rcfam, RcAnchor, RcWeakAnchor, RcRecursive, RcRecursion);
de_family!(arcfam, ArcAnchor, ArcWeakAnchor, ArcRecursive, ArcRecursion);

/// type description with field names (for rendering)
#[derive(Clone, Debug)]
enum Ty {
    Leaf(bool),
    Node(bool, Vec<(&'static str, Ty)>),
    Strong(u8, u32, Box<Ty>),
    Weak(u8, u32),
}

fn ty_dv() -> Ty {
    Ty::Node(true, vec![("v", Ty::Leaf(true))])
}
fn ty_do(k: u8) -> Ty {
    Ty::Node(true, vec![
        ("a", Ty::Strong(k, 21, Box::new(ty_dv()))),
        ("b", Ty::Strong(k, 21, Box::new(ty_dv()))),
        ("c", Ty::Strong(k, 22, Box::new(ty_dv()))),
        ("w", Ty::Weak(k, 21)),
        ("p", ty_dv()),
    ])
}
fn ty_dtop(k: u8) -> Ty {
    Ty::Node(true, vec![
        ("o", Ty::Strong(k, 23, Box::new(ty_do(k)))),
        ("x", Ty::Strong(k, 21, Box::new(ty_dv()))),
        ("y", ty_dv()),
        ("z", Ty::Weak(k, 21)),
    ])
}
/// DK unfolded along a document with `depth` levels of `k` children (each level has `width` children)
fn ty_dk(k: u8, kids: &[Ty]) -> Ty {
    Ty::Node(true, vec![
        ("n", Ty::Leaf(true)),
        ("c", Ty::Weak(k, 24)),
        ("k", Ty::Node(false, kids.iter().map(|t| ("", t.clone())).collect())),
    ])
}

#[derive(Clone, Debug)]
enum Doc {
    Leaf(usize, u64),
    Null(usize),
    Node(usize, bool, Vec<Doc>),
    Alias(usize),
}

fn enc_ty(t: &Ty, out: &mut Vec<String>) {
    match t {
        Ty::Leaf(p) => out.extend(["l".to_string(), b(*p).to_string()]),
        Ty::Node(_, items) => {
            out.extend(["n".to_string(), items.len().to_string()]);
            for (_, i) in items {
                enc_ty(i, out);
            }
        }
        Ty::Strong(k, tid, inner) => {
            out.extend(["s".to_string(), k.to_string(), tid.to_string()]);
            enc_ty(inner, out);
        }
        Ty::Weak(k, tid) => out.extend(["w".to_string(), k.to_string(), tid.to_string()]),
    }
}
fn enc_doc(d: &Doc, out: &mut Vec<String>) {
    match d {
        Doc::Leaf(a, n) => out.extend(["L".to_string(), a.to_string(), "i".to_string(), n.to_string()]),
        Doc::Null(a) => out.extend(["L".to_string(), a.to_string(), "n".to_string()]),
        Doc::Node(a, is_map, items) => {
            out.extend(["N".to_string(), a.to_string(), b(*is_map).to_string(), items.len().to_string()]);
            for i in items {
                enc_doc(i, out);
            }
        }
        Doc::Alias(id) => out.extend(["A".to_string(), id.to_string()]),
    }
}

/// flow-style YAML of a document; keys are taken from the type where it is a map of the same arity
fn render_doc(d: &Doc, t: Option<&Ty>, out: &mut String) {
    fn strip(t: Option<&Ty>) -> Option<&Ty> {
        match t {
            Some(Ty::Strong(_, _, inner)) => strip(Some(inner)),
            other => other,
        }
    }
    let anchor = |a: usize, out: &mut String| {
        if a != 0 {
            out.push_str(&format!("&a{a} "));
        }
    };
    match d {
        Doc::Leaf(a, n) => {
            anchor(*a, out);
            out.push_str(&n.to_string());
        }
        Doc::Null(a) => {
            anchor(*a, out);
            out.push_str("null");
        }
        Doc::Alias(id) => out.push_str(&format!("*a{id}")),
        Doc::Node(a, is_map, items) => {
            anchor(*a, out);
            let tys: Option<&Vec<(&'static str, Ty)>> = match strip(t) {
                Some(Ty::Node(_, its)) if its.len() == items.len() => Some(its),
                _ => None,
            };
            out.push(if *is_map { '{' } else { '[' });
            for (i, it) in items.iter().enumerate() {
                if i > 0 {
                    out.push_str(", ");
                }
                if *is_map {
                    let key = tys.map(|t| t[i].0).filter(|k| !k.is_empty()).unwrap_or(["q", "r", "s", "t", "u"][i % 5]);
                    out.push_str(key);
                    out.push_str(": ");
                }
                render_doc(it, tys.map(|t| &t[i].1), out);
            }
            out.push(if *is_map { '}' } else { ']' });
        }
    }
}

/// random anchor / alias placement over a type: every node may be anchored, every position may be an
/// alias to an anchor defined earlier (completed or still open), rarely to an unknown one
struct DocGen<'a> {
    rng: &'a mut Rng,
    next_anchor: usize,
    /// anchors defined so far: id, (wrapper-stripped) type of the position, the wrapper directly above
    defined: Vec<(usize, Ty, Option<(u8, u32)>)>,
    /// anchored containers still open
    open: Vec<usize>,
    next_leaf: u64,
    p_anchor: usize,
    p_alias: usize,
    /// mostly-valid mode: aliases only where they resolve, wrappers mostly anchored
    valid: bool,
}
fn core(t: &Ty) -> &Ty {
    match t {
        Ty::Strong(_, _, inner) => core(inner),
        other => other,
    }
}
fn sig(t: &Ty) -> String {
    let mut v = vec![];
    enc_ty(t, &mut v);
    v.join(" ")
}
/// may a node written at a position of type `def` be replayed at a position of type `at` without the
/// outcome depending on Serde details the model does not describe (Vec lengths, field names)?
fn replay_ok(def: &Ty, at: &Ty) -> bool {
    let (d, a) = (core(def), core(at));
    match (d, a) {
        (Ty::Weak(..), _) | (_, Ty::Weak(..)) => true,
        (Ty::Leaf(_), Ty::Leaf(_)) => true,
        (Ty::Leaf(_), Ty::Node(..)) | (Ty::Node(..), Ty::Leaf(_)) => true,
        (Ty::Node(m1, i1), Ty::Node(m2, i2)) => sig(d) == sig(a) || (*m1 && *m2 && i1.len() != i2.len()),
        _ => false,
    }
}
impl<'a> DocGen<'a> {
    fn anchor(&mut self, force: bool) -> usize {
        if force || self.rng.below(100) < self.p_anchor {
            self.next_anchor += 1;
            self.next_anchor
        } else {
            0
        }
    }
    fn alias_for(&mut self, t: &Ty) -> Option<Doc> {
        let cands: Vec<usize> = if self.valid {
            match t {
                Ty::Weak(k, tid) => self.defined.iter()
                    .filter(|(id, _, w)| *w == Some((*k, *tid)) && (*k >= 2 || !self.open.contains(id)))
                    .map(|d| d.0).collect(),
                Ty::Strong(k, tid, _) => self.defined.iter()
                    .filter(|(id, d, w)| *w == Some((*k, *tid)) && !self.open.contains(id) && sig(d) == sig(core(t)))
                    .map(|d| d.0).collect(),
                _ => self.defined.iter()
                    .filter(|(id, d, _)| !self.open.contains(id) && sig(d) == sig(t))
                    .map(|d| d.0).collect(),
            }
        } else {
            if self.rng.chance(1, 40) {
                return Some(Doc::Alias(self.next_anchor + 7));
            }
            self.defined.iter().filter(|(_, d, _)| replay_ok(d, t)).map(|d| d.0).collect()
        };
        if cands.is_empty() { None } else { Some(Doc::Alias(cands[self.rng.below(cands.len())])) }
    }
    fn go(&mut self, t: &Ty, wrapper: Option<(u8, u32)>) -> Doc {
        let plain_seq = matches!(t, Ty::Node(false, _));
        let p_alias = match (self.valid, t) {
            (true, Ty::Weak(..)) => 92,
            (true, Ty::Strong(..)) => 45,
            (true, _) => 10,
            _ => self.p_alias,
        };
        if !plain_seq && !self.defined.is_empty() && self.rng.below(100) < p_alias {
            if let Some(d) = self.alias_for(t) {
                return d;
            }
        }
        match t {
            Ty::Leaf(_) => {
                let a = self.anchor(false);
                if a != 0 {
                    self.defined.push((a, t.clone(), wrapper));
                }
                self.next_leaf += 1;
                Doc::Leaf(a, self.next_leaf)
            }
            Ty::Node(is_map, items) => {
                let force = wrapper.is_some() && self.rng.chance(if self.valid { 9 } else { 2 }, if self.valid { 10 } else { 3 });
                let a = self.anchor(force);
                if a != 0 {
                    self.defined.push((a, t.clone(), wrapper));
                    self.open.push(a);
                }
                let docs = items.iter().map(|(_, t)| self.go(t, None)).collect();
                if a != 0 {
                    self.open.pop();
                }
                Doc::Node(a, *is_map, docs)
            }
            Ty::Strong(k, tid, _) => {
                let c = core(t).clone();
                self.go(&c, Some((*k, *tid)))
            }
            Ty::Weak(..) => {
                // not an alias: an inline node (error paths) or null
                if self.rng.chance(1, 2) {
                    let a = self.anchor(false);
                    if a != 0 {
                        self.defined.push((a, Ty::Leaf(true), None));
                    }
                    Doc::Null(a)
                } else {
                    self.go(&ty_dv(), None)
                }
            }
        }
    }
}

fn trace_tok(tr: &[hook::Snapshot]) -> String {
    let fmt = |v: &[(u8, usize)]| v.iter().map(|(k, id)| format!("{k}:{id}")).collect::<Vec<_>>().join(".");
    tr.iter().map(|s| format!("[{}|{}]", fmt(&s.stack), fmt(&s.stored))).collect::<Vec<_>>().join("")
}

/// the in-progress counters always equal the multiplicity of the key on the stack
fn in_progress_consistent(tr: &[hook::Snapshot]) -> bool {
    tr.iter().all(|s| {
        let mut cnt: BTreeMap<(u8, usize), usize> = BTreeMap::new();
        for e in &s.stack {
            *cnt.entry(*e).or_insert(0) += 1;
        }
        let got: BTreeMap<(u8, usize), usize> = s.in_progress.iter().map(|(k, id, c)| ((*k, *id), *c)).collect();
        cnt == got
    })
}

fn run_de<T: for<'de> Deserialize<'de> + ToVal>(text: &str) -> (String, Vec<hook::Snapshot>) {
    TRACE.with(|t| t.borrow_mut().clear());
    let r = catch(|| serde_saphyr::from_str::<T>(text));
    let tr = TRACE.with(|t| std::mem::take(&mut *t.borrow_mut()));
    if std::env::var("ANCHORS_DEBUG").is_ok() { eprintln!("#de {text}  => {:?}", r.as_ref().map(|r| r.as_ref().map(|_| ()).map_err(|e| e.to_string().lines().next().unwrap_or("").to_string()))); }
    let ans = match r {
        Err(_) => "panic".to_string(),
        Ok(Err(e)) => format!("err {}", err_kind(&e.to_string())),
        Ok(Ok(v)) => format!("ok {} {}", canon(&graph_of(&v)), trace_tok(&tr)),
    };
    (ans, tr)
}

// ------------------------------------------------------------------------------------------------

pub fn run(mode: &str, a: &Args) -> i32 {
    match mode {
        "gen" => generate(a),
        _ => {
            eprintln!("anchors: unknown mode {mode}");
            2
        }
    }
}

struct Oracle {
    f: std::io::BufWriter<std::fs::File>,
    n: u64,
}
impl Oracle {
    fn fail(&mut self, id: &str, what: &str, input: &str, observed: &str, expected: &str) {
        use std::io::Write;
        let j = serde_json::json!({"id": id, "what": what, "input": input, "observed": observed, "expected": expected});
        writeln!(self.f, "{j}").unwrap();
        self.n += 1;
    }
}

fn same_names(id: usize) -> String {
    format!("a{id}")
}

fn generate(a: &Args) -> i32 {
    let mut rng = Rng::new(a.seed);
    let mut sink = Sink::new(&a.out, "anchors");
    let mut oracle = Oracle {
        f: std::io::BufWriter::new(std::fs::File::create(format!("{}/anchors.oracle.jsonl", a.out)).unwrap()),
        n: 0,
    };
    let mut distinct: std::collections::BTreeSet<String> = Default::default();
    let mut oracle_seen: BTreeMap<String, u64> = BTreeMap::new();

    // ---- generated object graphs: ser / rt / oracle
    let per_profile = if a.thorough { 12000 } else { 1200 };
    let mut deadlock_checked = 0u32;
    let mut deadlock_seen = false;
    for profile in 0..16 {
        for _ in 0..per_profile {
            let snap = rng.clone();
            let (top, _keep_rc, _keep_arc) = gen_case(&mut rng, profile);
            let g = graph_of(&top);
            let f = analyse(&g);
            let enc = enc_graph(&g);
            sink.count(&format!("profile.{}", profile_name(profile)));
            if f.shared { sink.count("graph.shared"); }
            if f.weak_live { sink.count("graph.weak_live"); }
            if f.dangling { sink.count("graph.dangling"); }
            if f.leak { sink.count("graph.block_scalar_payload"); }
            if f.null_or_variant_payload { sink.count("graph.null_or_variant_payload"); }
            if f.nested { sink.count("graph.nested_wrappers"); }
            if f.weak_first { sink.count("graph.weak_before_strong"); }
            if f.rec_back { sink.count("graph.rec_back_edge"); }
            if f.cycle_nonrec { sink.count("graph.cycle_nonrec"); }
            if f.strong_cycle { sink.count("graph.strong_cycle"); }
            if f.seq_in_seq { sink.count("graph.seq_in_seq"); }
            if f.deadlock {
                // A strong `ArcRecursive` edge to a cell whose payload is being written further up the
                // stack: before the repair `to_string` never returned.  The first such cases run on a
                // sacrificial thread with a time-out so that a regression is reported instead of hanging.
                sink.count("graph.arc_recursive_relock");
                if deadlock_seen {
                    continue;
                }
                if deadlock_checked < 10 {
                    deadlock_checked += 1;
                    let (tx, rx) = std::sync::mpsc::channel::<()>();
                    let mut r2 = snap.clone();
                    std::thread::spawn(move || {
                        let (top2, _k1, _k2) = gen_case(&mut r2, profile);
                        let _ = catch(|| serde_saphyr::to_string(&top2));
                        let _ = tx.send(());
                    });
                    if rx.recv_timeout(std::time::Duration::from_millis(3000)).is_err() {
                        deadlock_seen = true;
                        sink.case(&format!("anchors ser {enc}"), "deadlock");
                        oracle.fail("C14-arc-recursive-serialize-deadlock", "to_string never returns: ArcRecursive::serialize locks a mutex that an enclosing ArcRecursive/ArcRecursion serialize call of the same thread still holds",
                            &enc, "no return within 3 s (thread abandoned)", "YAML text");
                        continue;
                    }
                }
            }
            sink.count(&format!("graph.cells.{}", g.heap.len().min(12)));

            // (i) serializer differential
            let ser = catch(|| serde_saphyr::to_string(&top));
            let (ser_ans, yaml) = match &ser {
                Err(_) => ("panic".to_string(), None),
                Ok(Err(_)) => ("sererr".to_string(), None),
                Ok(Ok(y)) => (lex(y), Some(y.clone())),
            };
            sink.case(&format!("anchors ser {enc}"), &ser_ans);
            let Some(yaml) = yaml else {
                if ser_ans == "sererr" && f.nested {
                    // a wrapper directly inside a wrapper whose pointer is already anchored: not expressible
                    sink.count("oracle.fail.C14-nested-wrapper-limits");
                    let c = oracle_seen.entry("C14-nested-wrapper-limits".to_string()).or_insert(0);
                    *c += 1;
                    if *c <= 3 {
                        oracle.fail("C14-nested-wrapper-limits", "serialization refused: wrapper directly inside a wrapper, inner pointer already anchored", &enc, &ser_ans, "YAML text");
                    }
                    // the model must predict the refusal
                    sink.case(&format!("anchors rt {enc}"), "sererr");
                } else {
                    oracle.fail(if ser_ans == "panic" { "C14-ser-panic" } else { "C14-ser-error" }, "serialization of an object graph failed", &enc, &ser_ans, "YAML text");
                }
                continue;
            };
            // custom anchor generator with the same names: exercises `write_anchor_name`'s `id - 1` index
            {
                let opts = serde_saphyr::ser_options! { anchor_generator: Some(same_names as fn(usize) -> String) };
                let r = catch(|| serde_saphyr::to_string_with_options(&top, opts));
                match r {
                    Ok(Ok(y2)) if y2 == yaml => {}
                    other => oracle.fail("C14-anchor-generator-differs", "custom anchor generator producing the default names changes the output or fails",
                        &enc, &format!("{:?}", other.map(|r| r.map_err(|e| e.to_string()))), &yaml),
                }
            }

            if std::env::var("ANCHORS_DEBUG").is_ok() { eprintln!("#case {} profile {profile}\n{yaml}", sink.n); }
            // (ii) read back
            let back = catch(|| serde_saphyr::from_str::<Top>(&yaml));
            let expected = canon(&g);
            let rt_ans = match &back {
                Err(_) => "panic".to_string(),
                Ok(Err(e)) => format!("err {}", err_kind(&e.to_string())),
                Ok(Ok(t2)) => format!("ok {}", canon(&graph_of(t2))),
            };
            // the model covers the round trip unless the value's type is infinite (strong cycle)
            if !f.strong_cycle {
                sink.case(&format!("anchors rt {enc}"), &rt_ans);
                sink.count(&format!("rt.{}", rt_ans.split(' ').take(if rt_ans.starts_with("err") { 2 } else { 1 }).collect::<Vec<_>>().join("_")));
            }
            if rt_ans == format!("ok {expected}") {
                sink.count("oracle.roundtrip_ok");
                if f.shared {
                    distinct.insert(expected.clone());
                }
            } else {
                // limitations that are still there first; the ids of repaired defects are only used when
                // none of those can explain the failure, so a regression is reported as a violation
                let id = if rt_ans == "panic" {
                    "C14-de-panic"
                } else if f.leak {
                    "C14-anchor-not-on-block-scalar"
                } else if f.nested {
                    "C14-nested-wrapper-limits"
                } else if f.strong_cycle {
                    "C14-strong-cycle"
                } else if f.cycle_nonrec {
                    "C14-weak-cycle-needs-recursive-wrappers"
                } else if f.weak_first {
                    "C14-weak-before-strong"
                } else if f.dangling_map_value && rt_ans == "err shape" {
                    "C14-dangling-weak-mapvalue-layout"
                } else if f.dangling && (rt_ans == "err weak_no_anchor" || rt_ans == "err weak_unknown") {
                    "C14-dangling-weak-null-rejected"
                } else if f.seq_in_seq && rt_ans == "err shape" {
                    "C14-anchored-seq-in-seq-layout"
                } else if f.null_or_variant_payload {
                    "C14-anchor-not-on-payload"
                } else {
                    "C14-roundtrip-mismatch"
                };
                sink.count(&format!("oracle.fail.{id}"));
                let c = oracle_seen.entry(id.to_string()).or_insert(0);
                *c += 1;
                if *c <= 3 || id == "C14-roundtrip-mismatch" || id == "C14-de-panic" {
                    oracle.fail(id, "serialize -> deserialize does not rebuild the same pointer-equality classes", &yaml, &rt_ans, &format!("ok {expected}"));
                }
            }
        }
    }

    // ---- fixed witnesses of the recorded findings (replayed on every run)
    {
        #[derive(Serialize, Deserialize, Debug)]
        struct WS { x: RcAnchor<Option<i64>>, z: i64, w: RcAnchor<Option<i64>> }
        let n = Rc::new(None);
        let v = WS { x: RcAnchor(n.clone()), z: 1, w: RcAnchor(n) };
        let r = catch(|| serde_saphyr::to_string(&v).map(|y| (y.clone(), serde_saphyr::from_str::<WS>(&y).map(|r| (*r.x.0, r.z, *r.w.0, Rc::ptr_eq(&r.x.0, &r.w.0))))));
        sink.count("witness.checked");
        match r {
            Ok(Ok((_, Ok((None, 1, None, true))))) => {}
            other => oracle.fail("C14-anchor-not-on-payload", "witness: {x: RcAnchor(None), z: 1, w: same pointer as x}: the anchor of the shared None lands on the plain field z",
                "WS { x: RcAnchor(p), z: 1, w: RcAnchor(p) } with *p == None", &format!("{:?}", other.map(|r| r.map(|(y, v)| (y, v.map_err(|e| err_kind(&e.to_string())))).map_err(|e| e.to_string()))), "(None, 1, None, ptr_eq = true)"),
        }
        #[derive(Serialize, Deserialize, Debug)]
        struct WT { x: RcAnchor<String>, z: String, w: RcAnchor<String> }
        let n = Rc::new("line1\nline2\n".to_string());
        let v = WT { x: RcAnchor(n.clone()), z: "other".into(), w: RcAnchor(n) };
        let r = catch(|| serde_saphyr::to_string(&v).map(|y| (y.clone(), serde_saphyr::from_str::<WT>(&y).map(|r| ((*r.x.0).clone(), r.z.clone(), (*r.w.0).clone(), Rc::ptr_eq(&r.x.0, &r.w.0))))));
        sink.count("witness.checked");
        // since 63913c0 the values must be right (no anchor on `z`); the sharing of x and w is still lost
        let values_right = matches!(&r, Ok(Ok((_, Ok((a, b, c, _))))) if a == "line1\nline2\n" && b == "other" && c == a);
        let shared = matches!(&r, Ok(Ok((_, Ok((_, _, _, true))))));
        if !values_right {
            oracle.fail("C14-block-scalar-anchor-leaks", "witness: a shared multi-line String (block scalar): a value is wrong after the round trip",
                "WT { x: RcAnchor(p), z: \"other\", w: RcAnchor(p) } with *p == \"line1\\nline2\\n\"", &format!("{:?}", r.as_ref().map(|r| r.as_ref().map(|(y, v)| (y.clone(), v.as_ref().map_err(|e| err_kind(&e.to_string())))).map_err(|e| e.to_string()))), "(p, other, p)");
        } else if !shared {
            oracle.fail("C14-anchor-not-on-block-scalar", "witness: a shared multi-line String (block scalar) is written in full twice: x and w are two allocations after the round trip",
                "WT { x: RcAnchor(p), z: \"other\", w: RcAnchor(p) } with *p == \"line1\\nline2\\n\"", &format!("{:?}", r.map(|r| r.map(|(y, v)| (y, v.map_err(|e| err_kind(&e.to_string())))).map_err(|e| e.to_string()))), "(p, other, p, ptr_eq = true)");
        }
        // two different block-scalar payloads inside one anchored wrapper, and that wrapper aliased
        #[derive(Serialize, Deserialize, Debug)]
        struct WIn { a: RcAnchor<String>, b: RcAnchor<String>, n: i64 }
        #[derive(Serialize, Deserialize, Debug)]
        struct WOut { o: RcAnchor<WIn>, p: Option<RcAnchor<WIn>> }
        for alias in [false, true] {
            let i = Rc::new(WIn { a: RcAnchor(Rc::new("a1\na2\n".into())), b: RcAnchor(Rc::new("b1\nb2\n".into())), n: 1 });
            let v = WOut { o: RcAnchor(i.clone()), p: if alias { Some(RcAnchor(i)) } else { None } };
            let r = catch(|| serde_saphyr::to_string(&v).map(|y| (y.clone(), serde_saphyr::from_str::<WOut>(&y).map(|r| ((*r.o.a.0).clone(), (*r.o.b.0).clone(), Rc::ptr_eq(&r.o.a.0, &r.o.b.0))))));
            sink.count("witness.checked");
            let good = matches!(&r, Ok(Ok((_, Ok((a, b, false))))) if a == "a1\na2\n" && b == "b1\nb2\n");
            if !good {
                oracle.fail("C14-unanchored-wrapper-takes-enclosing-anchor", "witness: two different block-scalar payloads inside an anchored wrapper: written without anchors, the inner wrappers took the enclosing wrapper's anchor id on reading (b read back as a's text; with the outer wrapper aliased: `reused with incompatible Rc type`)",
                    if alias { "WOut { o: RcAnchor(i), p: Some(RcAnchor(i)) }" } else { "WOut { o: RcAnchor(i), p: None }" },
                    &format!("{:?}", r.map(|r| r.map(|(y, v)| (y, v.map_err(|e| err_kind(&e.to_string())))).map_err(|e| e.to_string()))), "(a1.., b1.., distinct)");
            }
        }
        #[derive(Serialize, Deserialize, Debug)]
        struct WV { v: i64 }
        #[derive(Serialize, Deserialize)]
        struct WD { s: RcAnchor<WV>, d: Vec<RcWeakAnchor<WV>> }
        let owner = Rc::new(WV { v: 7 });
        let dang = { let t = Rc::new(WV { v: 9 }); Rc::downgrade(&t) };
        let v = WD { s: RcAnchor(owner.clone()), d: vec![RcWeakAnchor(Rc::downgrade(&owner)), RcWeakAnchor(dang)] };
        let r = catch(|| serde_saphyr::to_string(&v).map(|y| (y.clone(), serde_saphyr::from_str::<WD>(&y).map(|r| (Rc::ptr_eq(&r.d[0].upgrade().unwrap(), &r.s.0), r.d[1].is_dangling())))));
        sink.count("witness.checked");
        match r {
            Ok(Ok((_, Ok((true, true))))) => {}
            other => oracle.fail("C14-dangling-weak-null-rejected", "witness: {s: strong p, d: [weak p, dangling weak]}",
                "WD", &format!("{:?}", other.map(|r| r.map(|(y, v)| (y, v.map_err(|e| err_kind(&e.to_string())))).map_err(|e| e.to_string()))), "(weak upgrades to s, second weak dangling)"),
        }
        #[derive(Serialize, Deserialize)]
        struct WB { w: RcWeakAnchor<WV>, s: RcAnchor<WV> }
        let v = WB { w: RcWeakAnchor(Rc::downgrade(&owner)), s: RcAnchor(owner.clone()) };
        let r = catch(|| serde_saphyr::to_string(&v).map(|y| (y.clone(), serde_saphyr::from_str::<WB>(&y).map(|r| Rc::ptr_eq(&r.w.upgrade().unwrap(), &r.s.0)))));
        sink.count("witness.checked");
        match r {
            Ok(Ok((_, Ok(true)))) => {}
            other => oracle.fail("C14-weak-before-strong", "witness: {w: weak p, s: strong p}",
                "WB", &format!("{:?}", other.map(|r| r.map(|(y, v)| (y, v.map_err(|e| err_kind(&e.to_string())))).map_err(|e| e.to_string()))), "weak upgrades to s"),
        }
    }

    // ---- witnesses of the repaired defects
    {
        #[derive(Serialize, Deserialize, Debug)]
        struct WE { x: RcAnchor<EN>, l: Vec<RcAnchor<EN>>, w: RcAnchor<EN> }
        for e in [EN::New(3), EN::Tup(1, 2), EN::St { a: 4 }] {
            let p = Rc::new(e);
            let q = Rc::new(EN::New(9));
            let v = WE { x: RcAnchor(p.clone()), l: vec![RcAnchor(q.clone()), RcAnchor(p.clone()), RcAnchor(q)], w: RcAnchor(p) };
            let r = catch(|| serde_saphyr::to_string(&v).map(|y| (y.clone(), serde_saphyr::from_str::<WE>(&y).map(|r|
                (Rc::ptr_eq(&r.x.0, &r.w.0), Rc::ptr_eq(&r.x.0, &r.l[1].0), Rc::ptr_eq(&r.l[0].0, &r.l[2].0), !Rc::ptr_eq(&r.x.0, &r.l[0].0), format!("{:?}", r.x.0) == format!("{:?}", v.x.0))))));
            sink.count("witness.checked");
            match r {
                Ok(Ok((_, Ok((true, true, true, true, true))))) => {}
                other => oracle.fail("C14-anchor-not-on-payload", "witness: shared enum variant with data, as a mapping value and as a sequence element",
                    "WE", &format!("{:?}", other.map(|r| r.map(|(y, v)| (y, v.map_err(|e| err_kind(&e.to_string())))).map_err(|e| e.to_string()))), "all sharing preserved, value equal"),
            }
        }
        #[derive(Serialize, Deserialize, Debug)]
        struct WQ { a: Vec<RcAnchor<Vec<i64>>> }
        let p = Rc::new(vec![1i64, 2]);
        let e = Rc::new(Vec::<i64>::new());
        let v = WQ { a: vec![RcAnchor(p.clone()), RcAnchor(e.clone()), RcAnchor(p), RcAnchor(e)] };
        let r = catch(|| serde_saphyr::to_string(&v).map(|y| (y.clone(), serde_saphyr::from_str::<WQ>(&y).map(|r|
            (Rc::ptr_eq(&r.a[0].0, &r.a[2].0), Rc::ptr_eq(&r.a[1].0, &r.a[3].0), *r.a[0].0 == vec![1, 2], r.a[1].0.is_empty())))));
        sink.count("witness.checked");
        match r {
            Ok(Ok((_, Ok((true, true, true, true))))) => {}
            other => oracle.fail("C14-anchored-seq-in-seq-layout", "witness: shared sequences as elements of a sequence", "WQ",
                &format!("{:?}", other.map(|r| r.map(|(y, v)| (y, v.map_err(|e| err_kind(&e.to_string())))).map_err(|e| e.to_string()))), "sharing and values preserved"),
        }
        #[derive(Serialize, Deserialize, Debug)]
        struct WV2 { v: i64 }
        #[derive(Serialize, Deserialize)]
        struct WF { s: RcAnchor<WV2>, d: RcWeakAnchor<WV2>, n: i64 }
        let owner = Rc::new(WV2 { v: 7 });
        let dang = { let t = Rc::new(WV2 { v: 9 }); Rc::downgrade(&t) };
        let v = WF { s: RcAnchor(owner), d: RcWeakAnchor(dang), n: 5 };
        let r = catch(|| serde_saphyr::to_string(&v).map(|y| (y.clone(), serde_saphyr::from_str::<WF>(&y).map(|r| (r.s.v, r.d.is_dangling(), r.n)))));
        sink.count("witness.checked");
        match r {
            Ok(Ok((_, Ok((7, true, 5))))) => {}
            other => oracle.fail("C14-dangling-weak-mapvalue-layout", "witness: a dangling weak as a struct field", "WF",
                &format!("{:?}", other.map(|r| r.map(|(y, v)| (y, v.map_err(|e| err_kind(&e.to_string())))).map_err(|e| e.to_string()))), "(7, dangling, 5)"),
        }
        // the ArcRecursive re-lock graph: strong c0 -> c2 <- c1, weak c2 ~> c1, serialize [c0, c1]
        let (tx, rx) = std::sync::mpsc::channel::<String>();
        std::thread::spawn(move || {
            let c: Vec<Arc<Mutex<Option<AR>>>> = (0..3).map(|_| Arc::new(Mutex::new(None))).collect();
            *c[0].lock().unwrap() = Some(AR { id: 1, bfirst: vec![], kids: vec![ArcRecursive(c[2].clone())], back: vec![] });
            *c[1].lock().unwrap() = Some(AR { id: 2, bfirst: vec![], kids: vec![ArcRecursive(c[2].clone())], back: vec![] });
            *c[2].lock().unwrap() = Some(AR { id: 3, bfirst: vec![], kids: vec![], back: vec![ArcRecursion(Arc::downgrade(&c[1]))] });
            let top = vec![ArcRecursive(c[0].clone()), ArcRecursive(c[1].clone())];
            // (reading it back is refused by the documented weak-before-strong limitation: c1 is defined
            // at the weak site)
            let ans = match catch(|| serde_saphyr::to_string(&top)) {
                Ok(Ok(y)) if lex(&y) == "-,D1,K,I1,K,-,D2,K,I3,K,-,D3,K,I2,K,-,A2,-,A3" => "ok".to_string(),
                other => format!("{:?}", other.map(|r| r.map_err(|e| e.to_string()))),
            };
            let _ = tx.send(ans);
        });
        sink.count("witness.checked");
        match rx.recv_timeout(std::time::Duration::from_millis(3000)) {
            Ok(a) if a == "ok" => {}
            Ok(a) => oracle.fail("C14-arc-recursive-serialize-deadlock", "witness: ArcRecursive DAG with a weak edge that defines a cell below a locked one", "[c0, c1]", &a, "- &a1 {id: 1, kids: [&a2 {id: 3, back: [&a3 {id: 2, kids: [*a2]}]}]}, - *a3"),
            Err(_) => oracle.fail("C14-arc-recursive-serialize-deadlock", "witness: to_string never returns (mutex re-locked by the same thread)", "[c0, c1]", "no return within 3 s (thread abandoned)", "YAML text"),
        }
    }

    // ---- plain fields: aliases read into non-wrapper fields give equal independent copies
    {
        #[derive(Deserialize, Debug, PartialEq, Clone)]
        struct PV { v: i64, l: Vec<i64> }
        #[derive(Deserialize, Debug)]
        struct PT { x: PV, y: PV, s: RcAnchor<PV>, t: RcAnchor<PV>, z: PV }
        for (n, text) in [
            "x: &a {v: 1, l: [1, 2]}\ny: *a\ns: *a\nt: *a\nz: *a\n",
            "x: {v: 1, l: &l [1, 2]}\ny: {v: 2, l: *l}\ns: &s {v: 3, l: *l}\nt: *s\nz: *s\n",
        ].iter().enumerate() {
            let r = catch(|| serde_saphyr::from_str::<PT>(text));
            match r {
                Ok(Ok(t)) => {
                    let copies_equal = if n == 0 { t.x == t.y && t.x == t.z && *t.s.0 == t.x } else { t.x.l == t.y.l && t.z == *t.s.0 };
                    let independent = !std::ptr::eq(&t.x, &t.y) && !std::ptr::eq(t.x.l.as_ptr(), t.y.l.as_ptr()) && !std::ptr::eq(&*t.s.0 as *const PV, &t.z as *const PV);
                    let shared = Rc::ptr_eq(&t.s.0, &t.t.0);
                    sink.count("plain.checked");
                    if !(copies_equal && independent && shared) {
                        oracle.fail("C14-plain-copy", "alias read into plain fields", text, &format!("equal={copies_equal} independent={independent} wrappers_shared={shared}"), "equal independent copies; wrappers share");
                    }
                }
                other => oracle.fail("C14-plain-copy", "alias read into plain fields", text, &format!("{:?}", other.map(|r| r.map(|_| ()).map_err(|e| e.to_string()))), "ok"),
            }
        }
    }

    // ---- hand-made documents over fixed types (op `de`)
    {
        // exhaustive: an anchored / unanchored wrapper around two anchored / unanchored / aliased wrappers
        // (contains the document `o: &o {a: {v: 1}, b: {v: 2}}` of DESIGN.md section 6)
        for k in 0u8..2 {
            let ty = Ty::Node(true, vec![
                ("o", Ty::Strong(k, 25, Box::new(Ty::Node(true, vec![
                    ("a", Ty::Strong(k, 21, Box::new(ty_dv()))),
                    ("b", Ty::Strong(k, 21, Box::new(ty_dv()))),
                ])))),
                ("t", Ty::Strong(k, 21, Box::new(ty_dv()))),
            ]);
            for o_anch in [false, true] {
                for a_anch in [false, true] {
                    for b_mode in 0..3 {
                        for t_mode in 0..4 {
                            let mut next = 0usize;
                            let mut fresh = |on: bool| if on { next += 1; next } else { 0 };
                            let oa = fresh(o_anch);
                            let aa = fresh(a_anch);
                            if b_mode == 2 && aa == 0 { continue; }
                            let ba = fresh(b_mode == 1);
                            let dv = |a: usize, n: u64| Doc::Node(a, true, vec![Doc::Leaf(0, n)]);
                            let b = if b_mode == 2 { Doc::Alias(aa) } else { dv(ba, 2) };
                            let t = match t_mode {
                                0 => dv(0, 3),
                                1 => { if aa == 0 { continue; } Doc::Alias(aa) }
                                2 => { if ba == 0 { continue; } Doc::Alias(ba) }
                                _ => { if oa == 0 { continue; } Doc::Alias(oa) }
                            };
                            let doc = Doc::Node(0, true, vec![Doc::Node(oa, true, vec![dv(aa, 1), b]), t]);
                            let mut text = String::new();
                            render_doc(&doc, Some(&ty), &mut text);
                            text.push('\n');
                            let (ans, _) = if k == 0 { run_de::<rcfam::DN>(&text) } else { run_de::<arcfam::DN>(&text) };
                            let mut toks = vec![];
                            enc_ty(&ty, &mut toks);
                            enc_doc(&doc, &mut toks);
                            sink.case(&format!("anchors de {}", toks.join(" ")), &ans);
                            sink.count("de.fixed_nested");
                            if !o_anch || a_anch || b_mode != 0 || t_mode != 0 { continue; }
                            // `o: &a1 {a: {v: 1}, b: {v: 2}}`: the unanchored inner wrappers are two fresh
                            // allocations (before afd0262 `b` was the allocation of `a`)
                            if ans.starts_with("ok (,S1<,(,S2<,(,I1,),>,S3<,(,I2,),>,),>") {
                                sink.count("de.nested_unanchored_independent");
                            } else {
                                oracle.fail("C14-unanchored-wrapper-takes-enclosing-anchor", "an unanchored wrapper nested in an anchored one does not get a fresh pointer of its own", &text, &ans, "ok (,S1<,(,S2<,(,I1,),>,S3<,(,I2,),>,),>,...");
                            }
                            if false {
                                sink.count("de.nested_unanchored_takes_sibling");
                            }
                        }
                    }
                }
            }
        }
    }
    let docs = if a.thorough { 60000 } else { 6000 };
    for i in 0..docs {
        let k: u8 = (i % 2) as u8;
        let recursive = i % 5 >= 3;
        let (ty, is_rec) = if !recursive {
            (ty_dtop(k), false)
        } else {
            let kk = k + 2;
            // k: DK with 0..2 children (each a leaf DK), again: DK alias or inline, w: weak
            let nkids = rng.below(3);
            let leaf_dk = ty_dk(kk, &[]);
            let kids: Vec<Ty> = (0..nkids).map(|_| Ty::Strong(kk, 24, Box::new(leaf_dk.clone()))).collect();
            let dk = ty_dk(kk, &kids);
            (Ty::Node(true, vec![
                ("k", Ty::Strong(kk, 24, Box::new(dk.clone()))),
                ("again", Ty::Strong(kk, 24, Box::new(dk.clone()))),
                ("w", Ty::Weak(kk, 24)),
            ]), true)
        };
        let (pa, pl) = [(30, 25), (60, 30), (90, 40), (15, 10)][rng.below(4)];
        let valid = i % 3 != 0;
        let mut dg = DocGen { rng: &mut rng, next_anchor: 0, defined: vec![], open: vec![], next_leaf: 0, p_anchor: pa, p_alias: pl, valid };
        // the root mapping itself is never an alias
        let doc = match &ty {
            Ty::Node(is_map, items) => {
                let docs = items.iter().map(|(_, t)| dg.go(t, None)).collect();
                Doc::Node(0, *is_map, docs)
            }
            _ => unreachable!(),
        };
        let mut text = String::new();
        render_doc(&doc, Some(&ty), &mut text);
        text.push('\n');
        let (ans, tr) = match (is_rec, k) {
            (false, 0) => run_de::<rcfam::DTop>(&text),
            (false, _) => run_de::<arcfam::DTop>(&text),
            (true, 0) => run_de::<rcfam::DKTop>(&text),
            (true, _) => run_de::<arcfam::DKTop>(&text),
        };
        let mut toks = vec![];
        enc_ty(&ty, &mut toks);
        enc_doc(&doc, &mut toks);
        sink.case(&format!("anchors de {}", toks.join(" ")), &ans);
        sink.count(&format!("de.{}", ans.split(' ').take(if ans.starts_with("err") { 2 } else { 1 }).collect::<Vec<_>>().join("_")));
        if !in_progress_consistent(&tr) {
            oracle.fail("C14-inprogress-ne-stack-count", "in_progress counter differs from the multiplicity on the context stack", &text, &format!("{tr:?}"), "equal");
        }
        if ans == "panic" {
            oracle.fail("C14-de-panic", "deserialization panicked", &text, "panic", "Ok or Err");
        }
    }

    // ---- a top-level call NESTED in a user Deserialize impl (an embedded YAML text) between the definition of a shared
    // node and its aliases — in an ordinary field, inside a sequence, inside another wrapper's payload; the embedded
    // document has anchors of its own (same parser ids). The sharing relation of the OUTER document must survive.
    {
        #[derive(Debug, PartialEq)]
        struct Embedded(Vec<i32>);
        impl serde::Serialize for Embedded {
            fn serialize<S: serde::Serializer>(&self, s: S) -> Result<S::Ok, S::Error> {
                s.serialize_str(&format!("- &a1 {}\n- &x [{}]\n- *a1\n", self.0.first().copied().unwrap_or(0), self.0.len()))
            }
        }
        impl<'de> Deserialize<'de> for Embedded {
            fn deserialize<D: serde::Deserializer<'de>>(d: D) -> Result<Self, D::Error> {
                let text = String::deserialize(d)?;
                let v: Vec<serde_json::Value> = serde_saphyr::from_str(&text).map_err(serde::de::Error::custom)?;
                Ok(Embedded(vec![v.len() as i32]))
            }
        }
        #[derive(serde::Serialize, Deserialize, Debug, PartialEq)]
        struct NNode { v: i32 }
        #[derive(serde::Serialize, Deserialize)]
        struct NDoc { first: RcAnchor<NNode>, settings: Embedded, second: RcAnchor<NNode>, list: Vec<RcAnchor<NNode>>, mid: Vec<Embedded>, third: RcAnchor<NNode>, observer: RcWeakAnchor<NNode> }
        for variant in 0..3u8 {
            let shared = Rc::new(NNode { v: 7 });
            let other = Rc::new(NNode { v: 8 });
            let doc = NDoc {
                first: RcAnchor(shared.clone()), settings: Embedded(vec![1, 2, 3]), second: RcAnchor(shared.clone()),
                list: vec![RcAnchor(other.clone()), RcAnchor(shared.clone()), RcAnchor(other.clone())],
                mid: (0..variant).map(|i| Embedded(vec![i as i32])).collect(), third: RcAnchor(if variant == 2 { other.clone() } else { shared.clone() }),
                observer: RcWeakAnchor::from(&shared),
            };
            sink.count("nested_call_cases");
            let text = match serde_saphyr::to_string(&doc) { Ok(t) => t, Err(e) => { oracle.fail("C14-nested-call-topology", "to_string failed", "", &e.to_string(), "Ok"); continue; } };
            match catch(|| serde_saphyr::from_str::<NDoc>(&text)) {
                Ok(Ok(b)) => {
                    let same = |x: &RcAnchor<NNode>, y: &RcAnchor<NNode>| Rc::ptr_eq(&x.0, &y.0);
                    let ok = same(&b.first, &b.second) && same(&b.first, &b.list[1]) && same(&b.list[0], &b.list[2]) && !same(&b.first, &b.list[0])
                        && (if variant == 2 { same(&b.third, &b.list[0]) } else { same(&b.third, &b.first) })
                        && b.observer.upgrade().map(|w| Rc::ptr_eq(&w, &b.first.0)).unwrap_or(false);
                    if !ok { oracle.fail("C14-nested-call-topology", "a nested top-level call between an anchor and its aliases changed the sharing relation of the enclosing document", &text, "sharing differs", "first = second = list[1] (= third) = observer; list[0] = list[2]; the two groups distinct"); }
                }
                Ok(Err(e)) => oracle.fail("C14-nested-call-topology", "a nested top-level call between an anchor and its aliases made the enclosing document fail", &text, &e.to_string(), "Ok with the sharing relation"),
                Err(_) => oracle.fail("C14-de-panic", "deserialization panicked", &text, "panic", "Ok or Err"),
            }
        }
    }

    // ---- many anchored wrappers OPEN AT ONCE: a linked list of n shared nodes (each node's `next` is written inside the
    // node), n around and beyond the sizes at which the event source's anchor table grows; the innermost id is stored first
    {
        #[derive(serde::Serialize, Deserialize, Debug)]
        struct LNode { v: i32, next: Option<RcAnchor<LNode>>, again: Option<RcAnchor<LNode>> }
        for n in [1usize, 7, 8, 9, 14, 15, 16, 17, 33, 70] {
            let mut head: Option<Rc<LNode>> = None;
            // (one alias only, at the head: an alias at EVERY level would double the expansion per level — an alias bomb)
            for i in 0..n { let prev = head.take(); head = Some(Rc::new(LNode { v: i as i32, again: if i + 1 == n { prev.clone().map(RcAnchor) } else { None }, next: prev.map(RcAnchor) })); }
            let root = RcAnchor(head.unwrap());
            sink.count("deep_chain_cases");
            let text = match serde_saphyr::to_string(&root) { Ok(t) => t, Err(e) => { oracle.fail("C14-deep-chain", "to_string of a chain of shared nodes failed", &format!("n={n}"), &e.to_string(), "Ok"); continue; } };
            match catch(|| serde_saphyr::from_str::<RcAnchor<LNode>>(&text)) {
                Ok(Ok(b)) => {
                    let (mut cur, mut len, mut shared) = (Some(b.0.clone()), 0usize, true);
                    while let Some(nd) = cur { len += 1; if let (Some(a), Some(c)) = (&nd.next, &nd.again) { if !Rc::ptr_eq(&a.0, &c.0) { shared = false; } } cur = nd.next.as_ref().map(|x| x.0.clone()); }
                    if len != n || !shared { oracle.fail("C14-deep-chain", "a chain of shared nodes does not read back with its length and sharing", &text, &format!("len {len} shared {shared}"), &format!("len {n}, next = again at every node")); }
                }
                Ok(Err(e)) => oracle.fail("C14-deep-chain", "a chain of shared nodes written by the serializer is rejected", &text, &e.to_string(), "Ok"),
                Err(_) => oracle.fail("C14-de-panic", "deserialization panicked", &text, "panic", "Ok or Err"),
            }
        }
    }

    use std::io::Write;
    oracle.f.flush().unwrap();
    let nontrivial = distinct.len() as u64;
    let oracle_n = oracle.n;
    sink.finish(&a.out, "anchors", serde_json::json!({
        "distinct_nontrivial": nontrivial,
        "oracle_records": oracle_n,
        "oracle_failure_classes": oracle_seen,
        "rule": "generated object graphs over a fixed family of derive types (Rc world RN with Vec/Option/BTreeMap/nested-struct fields of RcAnchor, weak fields in sequences and in a struct field, scalar/string/Option/enum (newtype, tuple, struct variants)/Vec payloads, wrapper-in-wrapper of the same and of mixed kinds; Arc world AN nested in it; recursive worlds RR/AR with weak back edges), 16 profiles (clean DAG, weak after/any order, dangling in sequence / in field, None and enum-variant payloads, weak self-cycle, owner outside the graph, recursive back / forward / dangling / strong cycle, mixed, sequence in sequence, block-scalar payloads, nested wrappers); each graph: op `ser` (lexed serializer text vs model token stream), op `rt` (rebuilt pointer-equality classes or error class vs model; all graphs except those where a block scalar leaks its anchor or the type is infinite), ORACLE original vs rebuilt classes, failures classified by still-known limitations first so that a regression of a repaired defect is reported under its (fixed) id; fixed witnesses of every repaired defect incl. the ArcRecursive re-lock graph on a sacrificial thread; op `de`: random anchor/alias placements (incl. unanchored wrappers inside anchored ones, aliases to open / unknown anchors, null and inline nodes at weak positions) over fixed Rc/Arc struct families with a probe leaf that snapshots the anchor store through the hook. Non-trivial = distinct pointer-equality class patterns with at least one shared node that round-trip.",
    }));
    0
}
