//! Instrumented readers / writers shared by the `reader` (C09) and `iofault` (C10) areas.
use std::collections::VecDeque;
use std::io::{self, ErrorKind, Read, Write};
use std::sync::atomic::{AtomicU64, Ordering};

pub fn kind_of(code: u8) -> ErrorKind {
    match code {
        0 => ErrorKind::Other,
        1 => ErrorKind::UnexpectedEof,
        2 => ErrorKind::Interrupted,
        3 => ErrorKind::InvalidData,
        4 => ErrorKind::FileTooLarge,
        5 => ErrorKind::BrokenPipe,
        6 => ErrorKind::WriteZero,
        7 => ErrorKind::ConnectionReset,
        8 => ErrorKind::TimedOut,
        _ => ErrorKind::Other,
    }
}

/// One scheduled result of a `read` call — exactly the Lean `Reader.RItem`.
#[derive(Clone, Debug)]
pub enum RItem {
    Data(Vec<u8>),
    Fail(u8),
}

pub fn items_tok(items: &[RItem]) -> String {
    let v: Vec<String> = items
        .iter()
        .map(|i| match i {
            RItem::Data(b) => format!("d{}", &crate::proto::hex_bytes(b)[1..]),
            RItem::Fail(k) => format!("f{k}"),
        })
        .collect();
    if v.is_empty() { "-".to_string() } else { v.join(",") }
}

/// Reader that follows a schedule of read results (Lean `Reader.readCall`): a `Data` item hands out
/// `min(buf.len(), len)` bytes and keeps the rest at the head; a `Fail` item is one failing call; an
/// exhausted schedule is end of input.
pub struct ItemReader {
    pub items: VecDeque<RItem>,
    pub pulled: usize,
    pub calls: usize,
    pub max_req: usize,
}
impl ItemReader {
    pub fn new(items: &[RItem]) -> Self {
        ItemReader { items: items.iter().cloned().collect(), pulled: 0, calls: 0, max_req: 0 }
    }
}
impl Read for ItemReader {
    fn read(&mut self, buf: &mut [u8]) -> io::Result<usize> {
        self.calls += 1;
        self.max_req = self.max_req.max(buf.len());
        match self.items.pop_front() {
            None => Ok(0),
            Some(RItem::Fail(k)) => Err(io::Error::new(kind_of(k), "injected")),
            Some(RItem::Data(mut bs)) => {
                if bs.len() <= buf.len() {
                    buf[..bs.len()].copy_from_slice(&bs);
                    self.pulled += bs.len();
                    Ok(bs.len())
                } else {
                    let n = buf.len();
                    buf.copy_from_slice(&bs[..n]);
                    let rest = bs.split_off(n);
                    self.items.push_front(RItem::Data(rest));
                    self.pulled += n;
                    Ok(n)
                }
            }
        }
    }
}

/// How the stream ends after `data[..end]` has been delivered.
#[derive(Clone, Copy, Debug, PartialEq, Eq)]
pub enum Tail {
    /// clean end of input
    Eof,
    /// every further call fails with this kind (a broken connection stays broken)
    FailSticky(u8),
    /// one failing call, then end of input
    FailOnce(u8),
}

/// Reader over a byte string delivered in chunks of the given sizes (then `rest_chunk`-sized pieces),
/// cut at `end`, followed by `tail`. Counts what was pulled.
pub struct SchedReader {
    pub data: Vec<u8>,
    pub end: usize,
    pub pos: usize,
    pub sizes: Vec<usize>,
    pub si: usize,
    pub left_in_chunk: usize,
    pub rest_chunk: usize,
    pub tail: Tail,
    pub failed: bool,
    pub pulled: usize,
    pub calls: usize,
    pub fail_calls: usize,
}
impl SchedReader {
    pub fn new(data: &[u8], sizes: &[usize], rest_chunk: usize, end: usize, tail: Tail) -> Self {
        SchedReader {
            data: data.to_vec(), end: end.min(data.len()), pos: 0, sizes: sizes.to_vec(), si: 0, left_in_chunk: 0,
            rest_chunk: rest_chunk.max(1), tail, failed: false, pulled: 0, calls: 0, fail_calls: 0,
        }
    }
    pub fn whole(data: &[u8]) -> Self {
        Self::new(data, &[], usize::MAX, data.len(), Tail::Eof)
    }
}
impl Read for SchedReader {
    fn read(&mut self, buf: &mut [u8]) -> io::Result<usize> {
        self.calls += 1;
        if buf.is_empty() {
            return Ok(0);
        }
        if self.pos >= self.end {
            return match self.tail {
                Tail::Eof => Ok(0),
                Tail::FailSticky(k) => { self.fail_calls += 1; Err(io::Error::new(kind_of(k), "injected")) }
                Tail::FailOnce(k) => {
                    if self.failed { Ok(0) } else { self.failed = true; self.fail_calls += 1; Err(io::Error::new(kind_of(k), "injected")) }
                }
            };
        }
        if self.left_in_chunk == 0 {
            self.left_in_chunk = if self.si < self.sizes.len() { self.si += 1; self.sizes[self.si - 1].max(1) } else { self.rest_chunk };
        }
        let n = buf.len().min(self.left_in_chunk).min(self.end - self.pos);
        buf[..n].copy_from_slice(&self.data[self.pos..self.pos + n]);
        self.pos += n;
        self.left_in_chunk -= n;
        self.pulled += n;
        Ok(n)
    }
}

/// One scheduled result of a `write` call: accept at most `n` bytes, or fail.
#[derive(Clone, Copy, Debug)]
pub enum WItem {
    Accept(usize),
    Fail(u8),
}

/// Writer following a schedule (then accepting everything). Records accepted bytes and call count.
pub struct SchedWriter {
    pub items: VecDeque<WItem>,
    pub written: Vec<u8>,
    pub calls: usize,
    pub flushes: usize,
}
impl SchedWriter {
    pub fn new(items: &[WItem]) -> Self {
        SchedWriter { items: items.iter().cloned().collect(), written: Vec::new(), calls: 0, flushes: 0 }
    }
}
impl Write for SchedWriter {
    fn write(&mut self, buf: &[u8]) -> io::Result<usize> {
        self.calls += 1;
        match self.items.pop_front() {
            None => { self.written.extend_from_slice(buf); Ok(buf.len()) }
            Some(WItem::Fail(k)) => Err(io::Error::new(kind_of(k), "injected")),
            Some(WItem::Accept(n)) => {
                let n = n.min(buf.len());
                self.written.extend_from_slice(&buf[..n]);
                Ok(n)
            }
        }
    }
    fn flush(&mut self) -> io::Result<()> {
        self.flushes += 1;
        Ok(())
    }
}

/// Watchdog: the external scanner is known not to return on some reader inputs (DESIGN.md section 6).
/// Generators avoid that class; should a case hang anyway the process is killed with the case named.
static BEAT: AtomicU64 = AtomicU64::new(0);
static CURRENT: std::sync::Mutex<String> = std::sync::Mutex::new(String::new());

pub fn beat(what: &str) {
    BEAT.fetch_add(1, Ordering::Relaxed);
    if let Ok(mut c) = CURRENT.lock() {
        c.clear();
        c.push_str(what);
    }
}

pub fn start_watchdog(limit_s: u64) {
    std::thread::spawn(move || {
        let mut last = BEAT.load(Ordering::Relaxed);
        let mut idle = 0;
        loop {
            std::thread::sleep(std::time::Duration::from_secs(1));
            let now = BEAT.load(Ordering::Relaxed);
            if now == last { idle += 1 } else { idle = 0; last = now }
            if idle >= limit_s {
                let c = CURRENT.lock().map(|c| c.clone()).unwrap_or_default();
                eprintln!("WATCHDOG: case did not return within {limit_s}s: {c}");
                std::process::exit(3);
            }
        }
    });
}

/// The class on which `from_reader` never returns: some line of the text the scanner sees begins with
/// `%` (a fault or malformed byte can cut the input anywhere inside that line). Generators skip it.
pub fn hang_risk(bytes: &[u8]) -> bool {
    let mut at_line_start = true;
    let mut i = 0;
    while i < bytes.len() {
        let b = bytes[i];
        if at_line_start {
            // skip byte-order marks at line start
            if bytes[i..].starts_with(&[0xEF, 0xBB, 0xBF]) { i += 3; continue; }
            if b == b'%' { return true; }
        }
        at_line_start = b == b'\n' || b == b'\r' || (at_line_start && (b == b' ' || b == b'\t'));
        i += 1;
    }
    false
}
