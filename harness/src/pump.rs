//! Event pump (LiveEvents) differential: real parser items in, logical events / errors out.
use crate::proto::*;
use crate::yamlgen::*;
use crate::Args;
use serde_saphyr::budget::Budget;
use serde_saphyr::options::AliasLimits;
use serde_saphyr::verif_hooks::events as h;

pub fn run(mode: &str, a: &Args) -> i32 {
    match mode {
        "gen" => generate(a),
        _ => 2,
    }
}

/// parser items of a text in protocol form: `@<loc> <event tokens>` or `!<0|1>@<loc>` for a scan error.
/// After the first error up to two more items are recorded (the parser's post-error behaviour).
pub fn items_tokens(text: &str) -> (String, usize, bool) {
    let mut parser = saphyr_parser::Parser::new_from_str(text);
    let mut toks: Vec<String> = Vec::new();
    let mut n = 0;
    let mut errs = 0;
    loop {
        match parser.next() {
            None => break,
            Some(Ok((ev, span))) => {
                toks.push(format!("@{} {}", crate::yamlgen::span_code_in(&span, text), raw_tokens(&ev)));
                n += 1;
            }
            Some(Err(e)) => {
                let ua = e.info().to_ascii_lowercase().contains("unknown anchor");
                let code = crate::yamlgen::scan_error_code_in(e, text);
                toks.push(format!("!{}@{}", b(ua), code));
                errs += 1;
                if errs >= 12 { break; }
            }
        }
        if n > 200000 { break; }
    }
    (toks.join(" "), n, errs > 0)
}

fn ev_tok(e: &h::HookEv) -> String {
    let rt = match &e.raw_tag { None => "-".to_string(), Some(t) => hex(t) };
    match e.kind {
        0 => format!("s:{}:{}:{}:{}:{}:{}:{}", e.tag, rt, e.style, e.anchor, loc_code(&e.location), loc_code(&e.reference_location), hex(&e.value)),
        1 => format!("[:{}:{}:{}:{}:{}", e.tag, rt, e.anchor, loc_code(&e.location), loc_code(&e.reference_location)),
        2 => format!("]:{}:{}", loc_code(&e.location), loc_code(&e.reference_location)),
        3 => format!("{{:{}:{}:{}", e.anchor, loc_code(&e.location), loc_code(&e.reference_location)),
        4 => format!("}}:{}:{}", loc_code(&e.location), loc_code(&e.reference_location)),
        _ => "taken".to_string(),
    }
}

pub fn dump_tok(d: &h::LiveDump) -> String {
    let evs: Vec<String> = d.events.iter().map(ev_tok).collect();
    let end = match &d.error { None => "eof".to_string(), Some(e) => format!("err {}", crate::errs::pump_tok(e)) };
    let fin = match (&d.error, &d.finish_error) {
        (Some(_), _) => "skipped".to_string(),
        (None, None) => "ok".to_string(),
        (None, Some(e)) => format!("err {}", crate::errs::pump_tok(e)),
    };
    format!("n={} {} end={} fin={} sde={} syn={} last={}", d.events.len(), evs.join(" "), end, fin,
            b(d.seen_doc_end), b(d.synthesized_null), loc_code(&d.last_location))
}

pub fn alias_tok(l: &AliasLimits) -> String {
    format!("{} {} {}", l.max_total_replayed_events, l.max_replay_stack_depth, l.max_alias_expansions_per_anchor)
}

pub fn one(sink: &mut Sink, text: &str, items: &str, budget: &Option<Budget>, limits: AliasLimits, stop: bool) {
    one_capped(sink, text, items, budget, limits, stop, usize::MAX);
}

/// like `one`, but a run that delivers more than `cap` events is not handed to the model (whose recording buffers are
/// plain lists: quadratic in the size of an anchored node); returns the number of delivered events in that case
pub fn one_capped(sink: &mut Sink, text: &str, items: &str, budget: &Option<Budget>, limits: AliasLimits, stop: bool, cap: usize) -> Option<usize> {
    let bt = match budget { None => "-".to_string(), Some(bd) => format!("0 {}", crate::c07::limits_tok(bd)) };
    let d = match catch(|| h::live_events_from_str(text, budget.clone(), limits, stop, 1_000_000)) {
        Ok(d) => d,
        Err(msg) => {
            sink.count("panic");
            sink.case(&format!("pump drain {} {} {} {}", b(stop), bt, alias_tok(&limits), items), &format!("panic {}", hex(&msg)));
            return None;
        }
    };
    if d.events.len() > cap {
        sink.count("impl_only.too_large_for_model");
        return Some(d.events.len());
    }
    match &d.error {
        None => sink.count("end.eof"),
        Some(e) => sink.count(&format!("end.{}", crate::errs::pump_tok(e).split(' ').next().unwrap())),
    }
    if d.finish_error.is_some() { sink.count("finish.err"); }
    sink.case(&format!("pump drain {} {} {} {}", b(stop), bt, alias_tok(&limits), items), &dump_tok(&d));
    // what `finish()` reports to the budget-report callback (counts of the whole run, replayed events included)
    if budget.is_some() {
        if let Ok(dr) = catch(|| h::live_events_from_str_with_report(text, budget.clone(), limits, stop, 1_000_000)) {
            let rep = match (&dr.error, &dr.report) { (None, Some(r)) => format!("rep={}", crate::c07::report_tok(r)), _ => "rep=none".to_string() };
            sink.case(&format!("pump report {} {} {} {}", b(stop), bt, alias_tok(&limits), items), &rep);
        }
    }
    None
}

/// Expansion on the generator's tree: every alias replaced by a copy of the node most recently anchored
/// under that name (anchors are registered at the START of their node, as the parser resolves names), every
/// anchor mark removed. `Err(())` = some alias has no anchor of that name before it, or refers to a node
/// that is still open (recursive reference): the document has no finite expansion and must be rejected.
fn expand_gnode(n: &GNode, defs: &mut Vec<(String, Option<GNode>)>) -> Result<GNode, ()> {
    match n {
        GNode::Alias(a) => match defs.iter().rev().find(|(k, _)| k == a) {
            Some((_, Some(v))) => Ok(v.clone()),
            _ => Err(()),
        },
        GNode::Scalar { text, style, anchor, tag } => {
            let e = GNode::Scalar { text: text.clone(), style: *style, anchor: None, tag: tag.clone() };
            if let Some(a) = anchor { defs.push((a.clone(), Some(e.clone()))); }
            Ok(e)
        }
        GNode::Seq { anchor, tag, items, flow } => {
            let slot = anchor.as_ref().map(|a| { defs.push((a.clone(), None)); defs.len() - 1 });
            let mut out = Vec::new();
            for it in items { out.push(expand_gnode(it, defs)?); }
            let e = GNode::Seq { anchor: None, tag: tag.clone(), items: out, flow: *flow };
            if let Some(i) = slot { defs[i].1 = Some(e.clone()); }
            Ok(e)
        }
        GNode::Map { anchor, tag, entries, flow } => {
            let slot = anchor.as_ref().map(|a| { defs.push((a.clone(), None)); defs.len() - 1 });
            let mut out = Vec::new();
            for (k, v) in entries {
                let k2 = expand_gnode(k, defs)?;
                let v2 = expand_gnode(v, defs)?;
                out.push((k2, v2));
            }
            let e = GNode::Map { anchor: None, tag: tag.clone(), entries: out, flow: *flow };
            if let Some(i) = slot { defs[i].1 = Some(e.clone()); }
            Ok(e)
        }
    }
}

/// implementation-only oracle for C02: value(aliased document) = value(expanded document) into the untyped
/// target, and a document with an alias that has no completed anchor is an error.
fn transparency_oracle(rng: &mut Rng, out: &mut Vec<serde_json::Value>, stats: &mut Sink) {
    use crate::tyseed::Ty;
    let mut g = Gen::new(rng, GenCfg { max_depth: 4, merges: false, ..Default::default() });
    let d = g.document();
    check_transparent(&d, &[Ty::Any], out, stats);
}

/// the same oracle on merge-key documents (anchored / aliased `<<` indicators, merges through nested anchors): the
/// typed result of the document equals the typed result of its anchor-free, alias-free expansion
fn transparency_oracle_merge(rng: &mut Rng, out: &mut Vec<serde_json::Value>, stats: &mut Sink) {
    use crate::tyseed::Ty;
    let d = crate::e2e::merge_doc(rng);
    check_transparent(&d, &[Ty::Any, Ty::Map(Box::new(Ty::Str), Box::new(Ty::Any))], out, stats);
}

fn check_transparent(d: &GNode, tys: &[crate::tyseed::Ty], out: &mut Vec<serde_json::Value>, stats: &mut Sink) {
    use crate::e2e::{run_single, Cfg};
    let mut has_alias = false;
    fn walk(n: &GNode, f: &mut bool) { match n { GNode::Alias(_) => *f = true, GNode::Seq { items, .. } => items.iter().for_each(|i| walk(i, f)), GNode::Map { entries, .. } => entries.iter().for_each(|(k, v)| { walk(k, f); walk(v, f) }), _ => {} } }
    walk(d, &mut has_alias);
    let cfg = Cfg { dup: 2, legacy_octal: false, strict_bool: false, ignore_binary: false, no_schema: false, budget: None,
                    limits: serde_saphyr::options::AliasLimits { max_total_replayed_events: usize::MAX, max_replay_stack_depth: 64, max_alias_expansions_per_anchor: usize::MAX } };
    let text = render_doc(d);
    let mut tab = Vec::new();
    let expanded = expand_gnode(d, &mut tab);
    for ty in tys {
        let got = run_single(&text, ty, &cfg);
        match &expanded {
            Ok(e) => {
                let etext = render_doc(e);
                let want = run_single(&etext, ty, &cfg);
                stats.count(if has_alias { "oracle.expanded_with_alias" } else { "oracle.expanded_no_alias" });
                // compare values; when both fail only the fact of failing is compared (error positions differ by construction)
                let same = if got.starts_with("ok") || want.starts_with("ok") { got == want } else { true };
                if !same {
                    out.push(serde_json::json!({"id": "C02-alias-not-transparent", "what": "value of the aliased document differs from the value of its expansion",
                        "input": text, "expanded": etext, "type": ty.tokens(), "observed": got, "expected": want}));
                }
            }
            Err(()) => {
                stats.count("oracle.unknown_alias_docs");
                if got.starts_with("ok") {
                    out.push(serde_json::json!({"id": "C02-unknown-alias-accepted", "what": "alias without an earlier completed anchor did not produce an error",
                        "input": text, "observed": got, "expected": "an error"}));
                }
            }
        }
    }
}

/// transparency with the anchor WRAPPER types as targets (`RcAnchor<T>` at the anchored and at the aliased position): the
/// value behind every pointer of the aliased document equals the value in the expanded document, also when the anchored
/// node carries core-schema tags, `!!binary` payloads, nested containers
fn transparency_oracle_wrappers(out: &mut Vec<serde_json::Value>, stats: &mut Sink) {
    use serde_saphyr::{ArcAnchor, RcAnchor};
    #[derive(Debug, serde::Deserialize, PartialEq, Clone)]
    struct Inner { v: i32, #[serde(default)] s: Option<String>, #[serde(default)] f: Option<f64>, #[serde(default)] t: Option<bool>, #[serde(default)] l: Vec<u8> }
    let nodes = ["!!int 5", "5", "{v: !!int 5, s: !!str x}", "{v: 7, f: !!float 1.5, t: !!bool true}", "{v: 1, l: !!binary AAEC}", "{v: 2, l: [1, 2]}", "{v: 3, s: !!str ~}", "{v: 4, s: \"q\"}"];
    for node in nodes {
        let aliased = format!("- &a {node}\n- *a\n- *a\n");
        let expanded = format!("- {node}\n- {node}\n- {node}\n");
        stats.count("oracle.wrapper_transparency");
        macro_rules! cmp { ($t:ty, $proj:expr, $name:expr) => {{
            let a = serde_saphyr::from_str::<Vec<$t>>(&aliased).map(|v| v.iter().map($proj).collect::<Vec<_>>()).map_err(|e| crate::errs::kind(&e).to_string());
            let e = serde_saphyr::from_str::<Vec<$t>>(&expanded).map(|v| v.iter().map($proj).collect::<Vec<_>>()).map_err(|e| crate::errs::kind(&e).to_string());
            if a.is_ok() != e.is_ok() || (a.is_ok() && a != e) {
                out.push(serde_json::json!({"id": "C02-alias-not-transparent", "what": format!("anchor wrapper target {}: value of the aliased document differs from the value of its expansion", $name),
                    "input": aliased, "expanded": expanded, "observed": format!("{a:?}"), "expected": format!("{e:?}")}));
            }
        }}; }
        if node.starts_with('{') {
            cmp!(RcAnchor<Inner>, |p: &RcAnchor<Inner>| (*p.0).clone(), "RcAnchor<struct>");
            cmp!(ArcAnchor<Inner>, |p: &ArcAnchor<Inner>| (*p.0).clone(), "ArcAnchor<struct>");
        } else {
            cmp!(RcAnchor<i32>, |p: &RcAnchor<i32>| *p.0, "RcAnchor<i32>");
            cmp!(ArcAnchor<i32>, |p: &ArcAnchor<i32>| *p.0, "ArcAnchor<i32>");
        }
    }
}

fn alias_heavy(rng: &mut Rng) -> String {
    // alias chains / bombs / aliases inside anchored containers
    match rng.below(5) {
        0 => {
            let levels = 1 + rng.below(4);
            let fan = 1 + rng.below(3);
            let mut s = String::from("a0: &a0 [x]\n");
            for i in 1..=levels {
                let refs: Vec<String> = (0..fan).map(|_| format!("*a{}", i - 1)).collect();
                s.push_str(&format!("a{i}: &a{i} [{}]\n", refs.join(", ")));
            }
            s
        }
        1 => "a: &a {k: &b [1, 2], j: *b}\nb: *a\nc: [*a, *b]\n".to_string(),
        2 => "x: &x [a, &y {b: c}, *y]\nz: *x\nw: *y\n".to_string(),
        3 => "- &a a\n- &a b\n- *a\n- &b [*a, &a c, *a]\n- *a\n- *b\n".to_string(),
        _ => "r: &r [*r]\n".to_string(),
    }
}

fn generate(a: &Args) -> i32 {
    let mut rng = Rng::new(a.seed);
    let mut sink = Sink::new(&a.out, "pump");
    let mut texts: Vec<String> = vec![
        "".into(), "~".into(), "a".into(), "---\n".into(), "--- a\n...\n".into(), "a\n...\nb\n".into(), "a\n---\nb\n".into(),
        // merge keys met while an alias is replayed (budget: merge-key count of the expansion)
        "base: &a {k: 1}\nmid: &b {<<: *a, x: 2}\ntop: *b\nagain: {<<: *b}\n".into(),
        "a: &a {<<: {p: 1}, q: 2}\nb: [*a, *a]\nc: {<<: [*a, {r: 3}]}\n".into(),
        "&a \"\"".into(), "&a ''".into(), "- &a \"\"\n- *a\n".into(), "*x".into(), "a: *x\n".into(), "&a [*a]".into(),
        "k: &a 1\n---\nj: *a\n".into(), ">\nfolded\n".into(), "k: >\n  ok\n".into(), "[a, b".into(), "{a: 1".into(), "a: b: c".into(),
        "--- >\nx\n".into(), "- !!str &a x\n- !custom *a\n".into(), "? [a, b]\n: &m {c: d}\n<<: *m\n".into(),
        "a: &a [1]\n...\nb: *a\n".into(), "%YAML 1.2\n---\na\n".into(), "a\n... junk\n".into(), "a\n...\n---\nb\n".into(),
    ];
    // many anchored containers OPEN AT ONCE before any of them is stored (the table of recorded buffers is indexed by the
    // parser's anchor ids and must take ids that arrive out of order and far apart), with aliases to the innermost, a middle
    // and the outermost level; sequences and mappings; then the same behind a document boundary
    for depth in [3usize, 8, 9, 16, 17, 33, 70] {
        for kind in 0..2 {
            let mut t = String::new();
            if kind == 0 {
                t.push_str("top: ");
                for i in 0..depth { t.push_str(&format!("&n{i} [")); }
                t.push_str("leaf");
                for _ in 0..depth { t.push(']'); }
                t.push('\n');
            } else {
                for i in 0..depth { t.push_str(&"  ".repeat(i)); t.push_str(&format!("k{i}: &n{i}\n")); }
                t.push_str(&"  ".repeat(depth)); t.push_str("leaf: &lf 1\n");
            }
            t.push_str(&format!("inner: *n{}\nmid: *n{}\nouter: *n0\n", depth - 1, depth / 2));
            texts.push(t.clone());
            texts.push(format!("{t}---\nlate: *n{}\n", depth - 1));
            texts.push(format!("first: &f 1\n---\n{t}---\nx: &n{} 2\ny: *n{}\n", depth - 1, depth - 1));
        }
    }
    // a container that holds nested anchors is stored AFTER them (smaller id, later store): alias to the nested name from the
    // next document is unknown, within the document it resolves
    texts.push("defaults: &d {retries: &r 3}\nuse: *r\n---\nretries: *r\n".into());
    texts.push("defaults: &d {retries: &r 3, more: &m [1, &i 2]}\n---\na: &a 1\n---\nx: *i\ny: *m\nz: *d\n".into());
    texts.push("- &a [&b [&c 1]]\n- *c\n---\n- &a 2\n- *a\n- *b\n".into());
    for _ in 0..40 { texts.push(alias_heavy(&mut rng)); }
    let ndocs = if a.thorough { 8000 } else { 700 };
    for i in 0..ndocs {
        let k = 1 + rng.below(3);
        let mut text = String::new();
        for j in 0..k {
            let mut g = Gen::new(&mut rng, GenCfg { max_depth: 1 + i % 5, ..Default::default() });
            let d = g.document();
            if j > 0 || rng.chance(1, 4) { text.push_str("---\n"); }
            text.push_str(&render_doc(&d));
            if !text.ends_with('\n') { text.push('\n'); }
            if rng.chance(1, 8) { text.push_str("...\n"); }
        }
        // occasional damage
        if rng.chance(1, 10) && !text.is_empty() {
            let mut cs: Vec<char> = text.chars().collect();
            let p = rng.below(cs.len());
            match rng.below(3) { 0 => { cs.remove(p); } 1 => cs.insert(p, *rng.pick(&['[', '}', '*', '&', ':', '\t', '"'])), _ => cs.truncate(p) }
            text = cs.into_iter().collect();
        }
        texts.push(text);
    }
    let mut distinct = std::collections::BTreeSet::new();
    for text in &texts {
        let (items, n, _had_err) = items_tokens(text);
        if distinct.insert(items.clone()) && n > 4 { sink.count("distinct_nontrivial"); }
        let stop = rng.chance(1, 2);
        // default configuration
        one(&mut sink, text, &items, &Some(Budget::default()), AliasLimits::default(), stop);
        one(&mut sink, text, &items, &None, AliasLimits::default(), !stop);
        // tight alias limits
        let lim = AliasLimits {
            max_total_replayed_events: rng.below(12),
            max_replay_stack_depth: rng.below(3),
            max_alias_expansions_per_anchor: if rng.chance(1, 2) { usize::MAX } else { rng.below(3) },
        };
        one(&mut sink, text, &items, &None, lim, stop);
        // tight budgets (replayed events are counted too)
        let mut bd = Budget::default();
        match rng.below(5) {
            0 => bd.max_events = 3 + rng.below(n + 6),
            1 => bd.max_nodes = 1 + rng.below(n + 2),
            2 => bd.max_depth = rng.below(4),
            3 => bd.max_total_scalar_bytes = rng.below(20),
            _ => { bd.alias_anchor_min_aliases = rng.below(3); bd.alias_anchor_ratio_multiplier = rng.below(3); }
        }
        one(&mut sink, text, &items, &Some(bd), AliasLimits::default(), stop);
    }
    // implementation-only oracle stream
    let mut fails: Vec<serde_json::Value> = Vec::new();
    for _ in 0..(if a.thorough { 20000 } else { 1500 }) {
        transparency_oracle(&mut rng, &mut fails, &mut sink);
    }
    for _ in 0..(if a.thorough { 10000 } else { 1000 }) {
        transparency_oracle_merge(&mut rng, &mut fails, &mut sink);
    }
    transparency_oracle_wrappers(&mut fails, &mut sink);
    // fixed witnesses of past findings
    for (aliased, expanded) in [("&a \"\"", "\"\""), ("- &a ''\n- *a\n", "- ''\n- ''\n"), ("k: &a \"\"\nj: *a\n", "k: \"\"\nj: \"\"\n")] {
        let cfg = crate::e2e::Cfg { dup: 2, legacy_octal: false, strict_bool: false, ignore_binary: false, no_schema: false, budget: None, limits: AliasLimits::default() };
        let got = crate::e2e::run_single(aliased, &crate::tyseed::Ty::Any, &cfg);
        let want = crate::e2e::run_single(expanded, &crate::tyseed::Ty::Any, &cfg);
        if got != want {
            fails.push(serde_json::json!({"id": "C02-anchored-empty-quoted", "what": "anchored empty quoted scalar changes value", "input": aliased, "observed": got, "expected": want}));
        }
    }
    let lines: Vec<String> = fails.iter().map(|f| f.to_string()).collect();
    std::fs::write(format!("{}/pump.oracle.jsonl", a.out), lines.join("\n")).unwrap();
    let nt = sink.stats.get("distinct_nontrivial").copied().unwrap_or(0);
    sink.finish(&a.out, "pump", serde_json::json!({
        "distinct_nontrivial": nt,
        "rule": "texts (hand corpus of boundary documents, alias chains/bombs, generated multi-document streams with anchors/aliases/tags/merges, 10% damaged by deleting/inserting an indicator or truncating) are scanned by the real parser; its items (events with span start, scan errors) feed the Lean pump model while the real LiveEvents (hook live_events_from_str) is drained with peek/reference_location/next/finish; compared: every delivered event (kind, text, tag class, raw tag, style, anchor id, location, reference location), the terminating error (kind, numbers, location), the finish() result, seen_doc_end, synthesized-null flag, last_location; configurations: default budget, no budget, tight alias limits, tight budget, stop_at_doc_end on/off. Non-trivial = distinct item stream with more than 4 events.",
    }));
    0
}
