//! C07: BudgetEnforcer over real parser event streams and synthetic (incl. unbalanced) sequences.
use crate::proto::*;
use crate::yamlgen::*;
use crate::Args;
use saphyr_parser::{Event, ScalarStyle};
use serde_saphyr::budget::{Budget, BudgetBreach, BudgetReport};
use serde_saphyr::verif_hooks::events as h;
use std::borrow::Cow;

pub fn run(mode: &str, a: &Args) -> i32 {
    match mode {
        "gen" => generate(a),
        _ => 2,
    }
}

pub fn limits_tok(bd: &Budget) -> String {
    format!(
        "{} {} {} {} {} {} {} {} {} {} {}",
        bd.max_events, bd.max_aliases, bd.max_anchors, bd.max_depth, bd.max_documents, bd.max_nodes,
        bd.max_total_scalar_bytes, bd.max_merge_keys, b(bd.enforce_alias_anchor_ratio),
        bd.alias_anchor_min_aliases, bd.alias_anchor_ratio_multiplier
    )
}

pub fn breach_tok(br: &BudgetBreach) -> String {
    match br {
        BudgetBreach::Events { events } => format!("events {events}"),
        BudgetBreach::Aliases { aliases } => format!("aliases {aliases}"),
        BudgetBreach::Anchors { anchors } => format!("anchors {anchors}"),
        BudgetBreach::Depth { depth } => format!("depth {depth}"),
        BudgetBreach::Documents { documents } => format!("documents {documents}"),
        BudgetBreach::Nodes { nodes } => format!("nodes {nodes}"),
        BudgetBreach::ScalarBytes { total_scalar_bytes } => format!("scalarbytes {total_scalar_bytes}"),
        BudgetBreach::MergeKeys { merge_keys } => format!("mergekeys {merge_keys}"),
        BudgetBreach::AliasAnchorRatio { aliases, anchors } => format!("ratio {aliases} {anchors}"),
        BudgetBreach::SequenceUnbalanced => "unbalanced".into(),
        BudgetBreach::InputBytes { input_bytes } => format!("inputbytes {input_bytes}"),
        _ => "other".into(),
    }
}

pub fn report_tok(r: &BudgetReport) -> String {
    format!("{} {} {} {} {} {} {} {}", r.events, r.aliases, r.anchors, r.documents, r.nodes, r.max_depth, r.total_scalar_bytes, r.merge_keys)
}

fn unlimited() -> Budget {
    let mut bd = Budget::default();
    bd.max_events = usize::MAX;
    bd.max_aliases = usize::MAX;
    bd.max_anchors = usize::MAX;
    bd.max_depth = usize::MAX;
    bd.max_documents = usize::MAX;
    bd.max_nodes = usize::MAX;
    bd.max_total_scalar_bytes = usize::MAX;
    bd.max_merge_keys = usize::MAX;
    bd.enforce_alias_anchor_ratio = false;
    bd
}

fn one(sink: &mut Sink, bd: &Budget, perdoc: bool, evs: &[Event<'static>], toks: &str) -> Option<BudgetReport> {
    let r = match catch(|| h::budget_run(bd.clone(), perdoc, evs)) {
        Ok(r) => r,
        Err(msg) => {
            sink.count("panic");
            sink.case(&format!("c07 run {} {} {}", b(perdoc), limits_tok(bd), toks), &format!("panic {}", hex(&msg)));
            return None;
        }
    };
    let ans = match &r.breach_at {
        Some((i, br)) => {
            sink.count(&format!("breach.{}", breach_tok(br).split(' ').next().unwrap()));
            format!("err {} {}", i, breach_tok(br))
        }
        None => {
            sink.count("accepted");
            let ratio = match &r.report.breached {
                Some(br) => breach_tok(br),
                None => "none".into(),
            };
            format!("ok {} {}", report_tok(&r.report), ratio)
        }
    };
    sink.case(&format!("c07 run {} {} {}", b(perdoc), limits_tok(bd), toks), &ans);
    if r.breach_at.is_none() { Some(r.report) } else { None }
}

fn thresholds(sink: &mut Sink, rng: &mut Rng, evs: &[Event<'static>], toks: &str) {
    for perdoc in [false, true] {
        let base = unlimited();
        let Some(u) = one(sink, &base, perdoc, evs, toks) else { continue };
        // limit = usage accepts, usage-1 rejects, per counter
        let fields: [(&str, usize); 8] = [
            ("events", u.events), ("aliases", u.aliases), ("anchors", u.anchors), ("depth", u.max_depth),
            ("documents", u.documents), ("nodes", u.nodes), ("bytes", u.total_scalar_bytes), ("merge", u.merge_keys),
        ];
        for (name, usage) in fields {
            for delta in [0usize, 1] {
                if usage < delta { continue; }
                let v = usage - delta;
                let mut bd = unlimited();
                match name {
                    "events" => bd.max_events = v, "aliases" => bd.max_aliases = v, "anchors" => bd.max_anchors = v,
                    "depth" => bd.max_depth = v, "documents" => bd.max_documents = v, "nodes" => bd.max_nodes = v,
                    "bytes" => bd.max_total_scalar_bytes = v, _ => bd.max_merge_keys = v,
                }
                one(sink, &bd, perdoc, evs, toks);
            }
        }
        // ratio heuristic around its threshold, including huge multipliers (saturation)
        for mult in [0usize, 1, 2, 10, usize::MAX / 2, usize::MAX] {
            let mut bd = unlimited();
            bd.enforce_alias_anchor_ratio = true;
            bd.alias_anchor_min_aliases = rng.below(4);
            bd.alias_anchor_ratio_multiplier = mult;
            one(sink, &bd, perdoc, evs, toks);
        }
        // random tight budgets
        for _ in 0..3 {
            let mut bd = unlimited();
            let pick = |rng: &mut Rng, u: usize| if rng.chance(1, 2) { usize::MAX } else { rng.below(u + 2) };
            bd.max_events = pick(rng, u.events);
            bd.max_nodes = pick(rng, u.nodes);
            bd.max_depth = pick(rng, u.max_depth);
            bd.max_anchors = pick(rng, u.anchors);
            bd.max_aliases = pick(rng, u.aliases);
            bd.max_merge_keys = pick(rng, u.merge_keys);
            bd.max_total_scalar_bytes = pick(rng, u.total_scalar_bytes);
            bd.max_documents = pick(rng, u.documents);
            one(sink, &bd, perdoc, evs, toks);
        }
    }
}

fn synthetic(rng: &mut Rng) -> Vec<Event<'static>> {
    let n = rng.below(14);
    let mut v = Vec::new();
    for _ in 0..n {
        let a = if rng.chance(1, 3) { rng.below(4) } else { 0 };
        let ev = match rng.below(12) {
            0 => Event::SequenceStart(a, None),
            1 => Event::SequenceEnd,
            2 => Event::MappingStart(a, None),
            3 => Event::MappingEnd,
            4 => Event::Alias(rng.below(4)),
            5 => Event::DocumentStart(rng.chance(1, 2)),
            6 => Event::DocumentEnd,
            7 => Event::Scalar(Cow::Borrowed("<<"), if rng.chance(3, 4) { ScalarStyle::Plain } else { ScalarStyle::DoubleQuoted }, a,
                               if rng.chance(1, 5) { Some(Cow::Owned(saphyr_parser::Tag { handle: "!".into(), suffix: "t".into() })) } else { None }),
            8 => Event::StreamStart,
            9 => Event::Nothing,
            _ => Event::Scalar(Cow::Borrowed(*rng.pick(&["", "a", "é", "日本語", "<<"])), ScalarStyle::Plain, a, None),
        };
        v.push(ev);
    }
    v
}

/// Entry-level oracle (implementation only): a breach that is only known when the stream has been scanned to its end
/// (alias/anchor ratio) and the budget report reach the caller through EVERY single-document entry point, also when the
/// document ends with `...` followed by comments or by text the scanner rejects; the callback runs exactly once.
fn entry_oracle(out: &str, sink: &mut Sink) {
    use serde::de::IgnoredAny;
    use serde_saphyr::Options;
    let mut fails: Vec<serde_json::Value> = Vec::new();
    let bodies = ["a: &a 1\nb: [*a, *a, *a, *a, *a]\n", "- &x {k: v}\n- *x\n- *x\n- *x\n", "p: 1\nq: [2, 3]\n"];
    let suffixes = ["", "...\n", "...\n# trailing comment\n", "...\n@garbage: [\n", "...\n]\n", "...\n\t- x\n"];
    for body in bodies {
        for suffix in suffixes {
            for (bi, ratio_on) in [(0, true), (1, false)] {
                let text = format!("{body}{suffix}");
                let mk = |count: std::rc::Rc<std::cell::Cell<u32>>| -> Options {
                    let mut o = Options::default();
                    let mut bd = Budget::default();
                    bd.enforce_alias_anchor_ratio = ratio_on;
                    bd.alias_anchor_min_aliases = 2;
                    bd.alias_anchor_ratio_multiplier = 1;
                    o.budget = Some(bd);
                    o.with_budget_report(move |_r| count.set(count.get() + 1))
                };
                let kind = |r: Result<(), serde_saphyr::Error>| match r { Ok(()) => "ok".to_string(), Err(e) => format!("err {}", crate::errs::kind(&e)) };
                let mut results: Vec<(String, String, u32)> = Vec::new();
                let c = std::rc::Rc::new(std::cell::Cell::new(0u32));
                results.push(("from_str_with_options".into(), kind(serde_saphyr::from_str_with_options::<IgnoredAny>(&text, mk(c.clone())).map(|_| ())), c.get()));
                let c = std::rc::Rc::new(std::cell::Cell::new(0u32));
                results.push(("from_slice_with_options".into(), kind(serde_saphyr::from_slice_with_options::<IgnoredAny>(text.as_bytes(), mk(c.clone())).map(|_| ())), c.get()));
                let c = std::rc::Rc::new(std::cell::Cell::new(0u32));
                results.push(("with_deserializer_from_str_with_options".into(), kind(serde_saphyr::with_deserializer_from_str_with_options(&text, mk(c.clone()), |d| <IgnoredAny as serde::Deserialize>::deserialize(d)).map(|_| ())), c.get()));
                let c = std::rc::Rc::new(std::cell::Cell::new(0u32));
                results.push(("from_reader_with_options".into(), kind(serde_saphyr::from_reader_with_options::<_, IgnoredAny>(std::io::Cursor::new(text.as_bytes().to_vec()), mk(c.clone())).map(|_| ())), c.get()));
                sink.count("entry_oracle.cases");
                let first = results[0].clone();
                for (name, res, calls) in &results {
                    if *res != first.1 {
                        fails.push(serde_json::json!({"id": "C07-entry-points-differ-on-final-breach", "what": format!("{name} vs {}: outcome differs", first.0), "input": text, "ratio_check": ratio_on, "observed": res, "expected": first.1}));
                    }
                    // the report is promised on success and on a budget breach; a syntax error may end the call without one
                    let promised = res == "ok" || res.contains("Budget");
                    if (promised && *calls != 1) || *calls > 1 {
                        fails.push(serde_json::json!({"id": "C07-report-callback-count", "what": format!("{name}: the budget-report callback ran {calls} times"), "input": text, "ratio_check": ratio_on, "observed": calls.to_string(), "expected": "1"}));
                    }
                }
                // documents with more aliases than anchors allow must be rejected when the ratio check is on
                let has_aliases = body.contains('*');
                if bi == 0 && has_aliases && !first.1.starts_with("err") {
                    fails.push(serde_json::json!({"id": "C07-final-breach-not-surfaced", "what": "alias/anchor ratio exceeded but the call succeeded", "input": text, "observed": first.1, "expected": "err Budget"}));
                }
            }
        }
    }
    // ---- the report handed to the callback for TYPED targets, including the recursive anchor wrappers (whose self-referencing
    // alias is answered by a placeholder instead of a replay): events / nodes / aliases / anchors equal an independent count
    // over the raw parser events (a self-reference adds nothing beyond its own alias event), and a budget set exactly to
    // that usage accepts
    {
        use serde_saphyr::{RcRecursion, RcRecursive};
        #[derive(serde::Deserialize)]
        #[allow(dead_code)]
        struct RNode { name: String, #[serde(default)] me: Option<RcRecursion<RNode>>, #[serde(default)] kids: Vec<RcRecursive<RNode>>, #[serde(default)] back: Vec<RcRecursion<RNode>> }
        #[derive(serde::Deserialize)]
        #[allow(dead_code)]
        struct RDoc { root: RcRecursive<RNode> }
        let docs = [
            "root: &r\n  name: top\n  me: *r\n",
            "root: &r\n  name: top\n  back: [*r, *r]\n",
            "root: &r\n  name: top\n  kids:\n    - &k\n      name: kid\n      me: *k\n      back: [*r]\n    - name: other\n      back: [*r, *r]\n",
            "root:\n  name: plain\n",
        ];
        for text in docs {
            // independent count over the raw parser events
            let (mut ev, mut nodes, mut aliases) = (0usize, 0usize, 0usize);
            let mut anchors = std::collections::BTreeSet::new();
            for item in saphyr_parser::Parser::new_from_str(text) {
                let Ok((e, _)) = item else { break };
                ev += 1;
                match e {
                    Event::Scalar(_, _, a, _) => { nodes += 1; if a != 0 { anchors.insert(a); } }
                    Event::SequenceStart(a, _) | Event::MappingStart(a, _) => { nodes += 1; if a != 0 { anchors.insert(a); } }
                    Event::Alias(_) => { aliases += 1; }
                    _ => {}
                }
            }
            let seen: std::rc::Rc<std::cell::RefCell<Option<BudgetReport>>> = Default::default();
            let s2 = seen.clone();
            let mut o = Options::default();
            o.budget = Some(unlimited());
            let o = o.with_budget_report(move |r| { *s2.borrow_mut() = Some(r.clone()); });
            let r = serde_saphyr::from_str_with_options::<RDoc>(text, o);
            sink.count("entry_oracle.typed_report");
            let rep = seen.borrow().clone();
            match (r, rep) {
                (Ok(_), Some(rep)) => {
                    let got = (rep.events, rep.nodes, rep.aliases, rep.anchors);
                    let want = (ev, nodes, aliases, anchors.len());
                    if got != want {
                        fails.push(serde_json::json!({"id": "C07-typed-report-differs-from-count", "what": "report (events, nodes, aliases, anchors) for a typed target with recursive anchor wrappers differs from the count over the parser's events", "input": text, "observed": format!("{got:?}"), "expected": format!("{want:?}")}));
                    }
                    // limit = usage accepts
                    let mut o = Options::default();
                    let mut bd = unlimited();
                    bd.max_events = rep.events; bd.max_nodes = rep.nodes; bd.max_aliases = rep.aliases; bd.max_anchors = rep.anchors;
                    o.budget = Some(bd);
                    if let Err(e) = serde_saphyr::from_str_with_options::<RDoc>(text, o) {
                        fails.push(serde_json::json!({"id": "C07-exact-limits-rejected", "what": "a budget equal to the reported usage rejects the document", "input": text, "observed": crate::errs::kind(&e), "expected": "ok"}));
                    }
                }
                (Err(e), _) => fails.push(serde_json::json!({"id": "C07-typed-report-differs-from-count", "what": "recursive document rejected under an unlimited budget", "input": text, "observed": crate::errs::kind(&e), "expected": "ok"})),
                (Ok(_), None) => fails.push(serde_json::json!({"id": "C07-report-callback-count", "what": "no report for a typed recursive document", "input": text, "observed": "0", "expected": "1"})),
            }
        }
    }
    let lines: Vec<String> = fails.iter().map(|f| f.to_string()).collect();
    std::fs::write(format!("{out}/c07.oracle.jsonl"), lines.join("\n")).unwrap();
}

fn generate(a: &Args) -> i32 {
    let mut rng = Rng::new(a.seed);
    let mut sink = Sink::new(&a.out, "c07");
    let ndocs = if a.thorough { 6000 } else { 500 };
    let mut distinct = std::collections::BTreeSet::new();
    let mut parse_fail = 0;
    for i in 0..ndocs {
        // a stream of 1..3 documents
        let k = 1 + rng.below(3);
        let mut text = String::new();
        for j in 0..k {
            let mut g = Gen::new(&mut rng, GenCfg { max_depth: 1 + i % 5, ..Default::default() });
            let d = g.document();
            if j > 0 || rng.chance(1, 3) { text.push_str("---\n"); }
            text.push_str(&render_doc(&d));
            if !text.ends_with('\n') { text.push('\n'); }
        }
        let (evs, err) = raw_events(&text);
        if err.is_some() { parse_fail += 1; }
        let events: Vec<Event<'static>> = evs.iter().map(|e| e.0.clone()).collect();
        let toks: Vec<String> = events.iter().map(raw_tokens).collect();
        let toks = toks.join(" ");
        if distinct.insert(toks.clone()) && events.len() > 4 {
            sink.count("streams.distinct_nontrivial");
        }
        thresholds(&mut sink, &mut rng, &events, &toks);
    }
    let nsyn = if a.thorough { 60000 } else { 4000 };
    for _ in 0..nsyn {
        let events = synthetic(&mut rng);
        let toks: Vec<String> = events.iter().map(raw_tokens).collect();
        let toks = toks.join(" ");
        let mut bd = unlimited();
        if rng.chance(1, 2) {
            bd.max_depth = rng.below(4);
            bd.max_nodes = rng.below(8);
            bd.max_anchors = rng.below(3);
            bd.max_merge_keys = rng.below(3);
            bd.max_documents = rng.below(3);
        }
        one(&mut sink, &bd, rng.chance(1, 2), &events, &toks);
    }
    entry_oracle(&a.out, &mut sink);
    let nt = sink.stats.get("streams.distinct_nontrivial").copied().unwrap_or(0);
    sink.count("noop");
    sink.stats.insert("generated_texts_with_scan_error".into(), parse_fail);
    sink.finish(&a.out, "c07", serde_json::json!({
        "distinct_nontrivial": nt,
        "rule": "generated multi-document YAML streams (anchors, aliases, tags, merge keys, block+flow) are parsed by the real saphyr parser; the raw events drive the real BudgetEnforcer (hook budget_run) and the Lean model: unlimited run, then for each of the 8 counters limit = usage and usage-1, ratio heuristic with multipliers {0,1,2,10,MAX/2,MAX}, random tight budgets, both policies; plus random synthetic (also unbalanced) event sequences. Non-trivial = distinct event stream with more than 4 events.",
    }));
    0
}
