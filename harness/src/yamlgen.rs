//! Structured YAML generator (node trees with anchors, aliases, tags, merge keys) rendered in block
//! and flow style, plus extraction of the raw saphyr-parser event stream in protocol form.
use crate::proto::*;
use saphyr_parser::{Event, Parser, ScalarStyle, Span};

#[derive(Clone, Debug)]
pub enum GNode {
    Scalar { text: String, style: u8, anchor: Option<String>, tag: Option<String> },
    Seq { anchor: Option<String>, tag: Option<String>, items: Vec<GNode>, flow: bool },
    Map { anchor: Option<String>, tag: Option<String>, entries: Vec<(GNode, GNode)>, flow: bool },
    Alias(String),
}

pub fn plain(s: &str) -> GNode {
    GNode::Scalar { text: s.to_string(), style: 0, anchor: None, tag: None }
}

fn props(anchor: &Option<String>, tag: &Option<String>) -> String {
    let mut s = String::new();
    if let Some(a) = anchor {
        s.push('&');
        s.push_str(a);
        s.push(' ');
    }
    if let Some(t) = tag {
        s.push_str(t);
        s.push(' ');
    }
    s
}

fn dq(text: &str) -> String {
    let mut s = String::from("\"");
    for c in text.chars() {
        match c {
            '"' => s.push_str("\\\""),
            '\\' => s.push_str("\\\\"),
            '\n' => s.push_str("\\n"),
            '\t' => s.push_str("\\t"),
            '\r' => s.push_str("\\r"),
            c if (c as u32) < 0x20 || c as u32 == 0x7f => s.push_str(&format!("\\x{:02x}", c as u32)),
            c => s.push(c),
        }
    }
    s.push('"');
    s
}

fn plain_ok(text: &str, flow: bool) -> bool {
    if text.is_empty() || text.starts_with(' ') || text.ends_with(' ') {
        return false;
    }
    let first = text.chars().next().unwrap();
    if "-?:,[]{}#&*!|>'\"%@`".contains(first) && !(text == "<<" ) {
        // allow things like "-1" / "-x" / "?x"
        let second = text.chars().nth(1);
        if !(matches!(first, '-' | '?' | ':') && second.map(|c| c != ' ').unwrap_or(false)) {
            return false;
        }
    }
    if text.contains(": ") || text.contains(" #") || text.ends_with(':') || text.contains('\n') || text.contains('\t') {
        return false;
    }
    if flow && text.chars().any(|c| ",[]{}".contains(c)) {
        return false;
    }
    if text.starts_with("---") || text.starts_with("...") {
        return false;
    }
    text.chars().all(|c| (c as u32) >= 0x20 && c as u32 != 0x7f && c != '\u{feff}')
}

fn scalar_inline(text: &str, style: u8, flow: bool) -> String {
    match style {
        0 if plain_ok(text, flow) => text.to_string(),
        1 if !text.contains('\n') && text.chars().all(|c| (c as u32) >= 0x20) => format!("'{}'", text.replace('\'', "''")),
        _ => dq(text),
    }
}

/// Render in flow style (single line).
pub fn render_flow(n: &GNode) -> String {
    match n {
        GNode::Scalar { text, style, anchor, tag } => {
            let p = props(anchor, tag);
            let body = scalar_inline(text, *style, true);
            if body.is_empty() { p.trim_end().to_string() } else { format!("{p}{body}") }
        }
        GNode::Alias(a) => format!("*{a}"),
        GNode::Seq { anchor, tag, items, .. } => {
            let inner: Vec<String> = items.iter().map(render_flow).collect();
            format!("{}[{}]", props(anchor, tag), inner.join(", "))
        }
        GNode::Map { anchor, tag, entries, .. } => {
            let inner: Vec<String> = entries
                .iter()
                .map(|(k, v)| {
                    let ks = render_flow(k);
                    let complex = !matches!(k, GNode::Scalar { .. }) || ks.len() > 60;
                    if complex { format!("? {} : {}", ks, render_flow(v)) } else { format!("{} : {}", ks, render_flow(v)) }
                })
                .collect();
            format!("{}{{{}}}", props(anchor, tag), inner.join(", "))
        }
    }
}

fn is_block_collection(n: &GNode) -> bool {
    match n {
        GNode::Seq { flow, items, .. } => !*flow && !items.is_empty(),
        GNode::Map { flow, entries, .. } => !*flow && !entries.is_empty(),
        _ => false,
    }
}

/// Render a node as the value part after `key:` or `-` at indentation `ind` (the current line already
/// holds the introducer). Returns text that starts either with " inline\n" or with props + "\n" + nested block.
fn render_block_value(n: &GNode, ind: usize, out: &mut String) {
    match n {
        GNode::Seq { anchor, tag, items, .. } if is_block_collection(n) => {
            let p = props(anchor, tag);
            if !p.is_empty() {
                out.push(' ');
                out.push_str(p.trim_end());
            }
            out.push('\n');
            for it in items {
                out.push_str(&" ".repeat(ind));
                out.push('-');
                render_block_value(it, ind + 2, out);
            }
        }
        GNode::Map { anchor, tag, entries, .. } if is_block_collection(n) => {
            let p = props(anchor, tag);
            if !p.is_empty() {
                out.push(' ');
                out.push_str(p.trim_end());
            }
            out.push('\n');
            for (k, v) in entries {
                out.push_str(&" ".repeat(ind));
                let ks = render_flow(k);
                let simple = matches!(k, GNode::Scalar { .. } | GNode::Alias(_)) && ks.len() < 80 && !ks.is_empty();
                if simple {
                    out.push_str(&ks);
                    if matches!(k, GNode::Alias(_)) { out.push(' '); }
                    out.push(':');
                    render_block_value(v, ind + 2, out);
                } else {
                    out.push_str("? ");
                    out.push_str(&ks);
                    out.push('\n');
                    out.push_str(&" ".repeat(ind));
                    out.push(':');
                    render_block_value(v, ind + 2, out);
                }
            }
        }
        GNode::Scalar { text, style: 3, anchor, tag } if !text.is_empty() && text.chars().all(|c| c == '\n' || (c as u32) >= 0x20) && !text.starts_with(' ') && !text.starts_with('\n') => {
            // literal block scalar (keep chomping)
            out.push(' ');
            out.push_str(&props(anchor, tag));
            let body = text.strip_suffix('\n').unwrap_or(text);
            out.push_str(if text.ends_with('\n') { "|\n" } else { "|-\n" });
            for line in body.split('\n') {
                if !line.is_empty() {
                    out.push_str(&" ".repeat(ind));
                    out.push_str(line);
                }
                out.push('\n');
            }
        }
        other => {
            let s = render_flow(other);
            if !s.is_empty() {
                out.push(' ');
                out.push_str(&s);
            }
            out.push('\n');
        }
    }
}

/// Render a document root in block style where the tree asks for it.
pub fn render_doc(n: &GNode) -> String {
    let mut out = String::new();
    if is_block_collection(n) {
        // root collection: properties on their own line
        let (a, t) = match n {
            GNode::Seq { anchor, tag, .. } | GNode::Map { anchor, tag, .. } => (anchor, tag),
            _ => unreachable!(),
        };
        let p = props(a, t);
        let mut tmp = String::new();
        let stripped = match n {
            GNode::Seq { items, flow, .. } => GNode::Seq { anchor: None, tag: None, items: items.clone(), flow: *flow },
            GNode::Map { entries, flow, .. } => GNode::Map { anchor: None, tag: None, entries: entries.clone(), flow: *flow },
            _ => unreachable!(),
        };
        render_block_value(&stripped, 0, &mut tmp);
        if !p.is_empty() {
            out.push_str("--- ");
            out.push_str(p.trim_end());
        }
        out.push_str(&tmp);
        if p.is_empty() {
            out = out.trim_start_matches('\n').to_string();
        }
    } else {
        render_block_value(n, 2, &mut out);
        out = out.trim_start_matches(' ').to_string();
    }
    out
}

pub struct GenCfg {
    pub max_depth: usize,
    pub max_width: usize,
    pub anchors: bool,
    pub aliases: bool,
    pub merges: bool,
    pub tags: bool,
    pub dup_keys: bool,
    pub complex_keys: bool,
}

impl Default for GenCfg {
    fn default() -> Self {
        GenCfg { max_depth: 4, max_width: 4, anchors: true, aliases: true, merges: true, tags: true, dup_keys: false, complex_keys: true }
    }
}

pub struct Gen<'a> {
    pub rng: &'a mut Rng,
    pub cfg: GenCfg,
    /// anchor names completed so far (aliasable), in definition order
    pub done: Vec<(String, bool)>, // (name, is_map)
    pub next_anchor: usize,
}

const WORDS: [&str; 28] = [
    "a", "b", "c", "k", "x", "y", "1", "2", "-3", "0x1F", "true", "no", "null", "~", "", "1.5", ".inf", "hello world",
    "é", "<<", "007", "a: b", "# c", "[x", "日本", "1e3", "-", "on",
];
const TAGS: [&str; 10] = ["!!str", "!!int", "!!null", "!!binary", "!", "!custom", "!!bool", "!!float", "!!seq", "!!map"];

impl<'a> Gen<'a> {
    pub fn new(rng: &'a mut Rng, cfg: GenCfg) -> Self {
        Gen { rng, cfg, done: vec![], next_anchor: 0 }
    }
    fn fresh_anchor(&mut self) -> Option<String> {
        if self.cfg.anchors && self.rng.chance(1, 4) {
            // sometimes re-define an existing name
            if !self.done.is_empty() && self.rng.chance(1, 6) {
                return Some(self.rng.pick(&self.done).0.clone());
            }
            self.next_anchor += 1;
            Some(format!("a{}", self.next_anchor))
        } else {
            None
        }
    }
    fn tag(&mut self, scalar: bool) -> Option<String> {
        if self.cfg.tags && self.rng.chance(1, 8) {
            let t = *self.rng.pick(&TAGS);
            if !scalar && !matches!(t, "!!seq" | "!!map" | "!custom" | "!") { return None; }
            Some(t.to_string())
        } else {
            None
        }
    }
    pub fn scalar(&mut self) -> GNode {
        let text = self.rng.pick(&WORDS).to_string();
        let style = *self.rng.pick(&[0u8, 0, 0, 0, 1, 2, 3]);
        let anchor = self.fresh_anchor();
        let tag = self.tag(true);
        if let Some(a) = &anchor { self.done.push((a.clone(), false)); }
        GNode::Scalar { text, style, anchor, tag }
    }
    pub fn node(&mut self, depth: usize) -> GNode {
        if self.cfg.aliases && !self.done.is_empty() && self.rng.chance(1, 6) {
            return GNode::Alias(self.rng.pick(&self.done).0.clone());
        }
        let r = self.rng.below(10);
        if depth >= self.cfg.max_depth || r < 5 {
            return self.scalar();
        }
        let flow = self.rng.chance(1, 3);
        let anchor = self.fresh_anchor();
        let tag = self.tag(false);
        let width = self.rng.below(self.cfg.max_width + 1);
        if r < 7 {
            let items = (0..width).map(|_| self.node(depth + 1)).collect();
            if let Some(a) = &anchor { self.done.push((a.clone(), false)); }
            GNode::Seq { anchor, tag: tag.filter(|t| t != "!!map"), items, flow }
        } else {
            let mut entries = Vec::new();
            let mut used: Vec<String> = Vec::new();
            for _ in 0..width {
                let maps: Vec<String> = self.done.iter().filter(|d| d.1).map(|d| d.0.clone()).collect();
                if self.cfg.merges && self.rng.chance(1, 5) {
                    let v = if !maps.is_empty() && self.rng.chance(2, 3) {
                        if self.rng.chance(1, 3) && maps.len() >= 2 {
                            GNode::Seq { anchor: None, tag: None, items: vec![GNode::Alias(maps[self.rng.below(maps.len())].clone()), GNode::Alias(maps[self.rng.below(maps.len())].clone())], flow: true }
                        } else {
                            GNode::Alias(maps[self.rng.below(maps.len())].clone())
                        }
                    } else {
                        let mut e = Vec::new();
                        for _ in 0..self.rng.below(3) {
                            e.push((plain(*self.rng.pick(&["a", "b", "c", "m"])), self.scalar()));
                        }
                        GNode::Map { anchor: None, tag: None, entries: e, flow: true }
                    };
                    entries.push((plain("<<"), v));
                    continue;
                }
                let k = if self.cfg.complex_keys && self.rng.chance(1, 10) {
                    self.node(self.cfg.max_depth.saturating_sub(1))
                } else {
                    let mut k = self.scalar();
                    if !self.cfg.dup_keys {
                        // keep keys distinct by suffixing
                        if let GNode::Scalar { text, .. } = &mut k {
                            while used.contains(text) || text == "<<" {
                                text.push('_');
                            }
                            used.push(text.clone());
                        }
                    }
                    k
                };
                let v = self.node(depth + 1);
                entries.push((k, v));
            }
            if let Some(a) = &anchor { self.done.push((a.clone(), true)); }
            GNode::Map { anchor, tag: tag.filter(|t| t != "!!seq"), entries, flow }
        }
    }
    pub fn document(&mut self) -> GNode {
        self.done.clear();
        self.node(0)
    }
}

pub fn style_code(s: &ScalarStyle) -> u8 {
    match s {
        ScalarStyle::Plain => 0,
        ScalarStyle::SingleQuoted => 1,
        ScalarStyle::DoubleQuoted => 2,
        ScalarStyle::Literal => 3,
        ScalarStyle::Folded => 4,
    }
}

/// location code: line * 2^20 + (col+1), 0 = unknown — the same packing is used for `Location`s.
pub fn span_code(span: &Span) -> u64 {
    ((span.start.line() as u64) << 20) | (span.start.col() as u64 + 1)
}

/// start of a span as serde-saphyr reports it for the in-memory input `text` (the crate's own conversion, which puts
/// the scanner's end-of-stream mark back on the last line; conversion itself is C16's subject)
pub fn span_code_in(span: &Span, text: &str) -> u64 {
    loc_code(&serde_saphyr::verif_hooks::locs::location_from_span_in(span, Some(text)))
}

/// location of a scan error as serde-saphyr reports it for the in-memory input `text`
pub fn scan_error_code_in(e: saphyr_parser::ScanError, text: &str) -> u64 {
    serde_saphyr::verif_hooks::locs::from_scan_error_in(e, Some(text)).location().map(|l| loc_code(&l)).unwrap_or(0)
}

pub fn loc_code(l: &serde_saphyr::Location) -> u64 {
    (l.line() << 20) | l.column()
}

fn tag_tok(t: &Option<std::borrow::Cow<'_, saphyr_parser::Tag>>) -> String {
    match t {
        None => "-".into(),
        Some(t) => hex(&t.to_string()),
    }
}

/// One raw event in protocol tokens.
pub fn raw_tokens(ev: &Event<'_>) -> String {
    match ev {
        Event::Nothing => "no".into(),
        Event::StreamStart => "S".into(),
        Event::StreamEnd => "E".into(),
        Event::DocumentStart(x) => format!("D{}", b(*x)),
        Event::DocumentEnd => "d".into(),
        Event::Alias(id) => format!("al {id}"),
        Event::Scalar(v, st, a, t) => format!("sc {} {} {} {}", style_code(st), a, tag_tok(t), hex(v)),
        Event::SequenceStart(a, t) => format!("ss {} {}", a, tag_tok(t)),
        Event::SequenceEnd => "se".into(),
        Event::MappingStart(a, t) => format!("ms {} {}", a, tag_tok(t)),
        Event::MappingEnd => "me".into(),
    }
}

/// Raw events of a text (owned), or the scan error message with its position.
pub fn raw_events(text: &str) -> (Vec<(Event<'static>, Span)>, Option<(String, u64)>) {
    let mut out = Vec::new();
    let parser = Parser::new_from_str(text);
    for item in parser {
        match item {
            Ok((ev, span)) => out.push((own(ev), span)),
            Err(e) => {
                let info = e.info().to_string();
                return (out, Some((info, scan_error_code_in(e, text))));
            }
        }
    }
    (out, None)
}

pub fn own(ev: Event<'_>) -> Event<'static> {
    use std::borrow::Cow;
    match ev {
        Event::Nothing => Event::Nothing,
        Event::StreamStart => Event::StreamStart,
        Event::StreamEnd => Event::StreamEnd,
        Event::DocumentStart(x) => Event::DocumentStart(x),
        Event::DocumentEnd => Event::DocumentEnd,
        Event::Alias(i) => Event::Alias(i),
        Event::Scalar(v, s, a, t) => Event::Scalar(Cow::Owned(v.into_owned()), s, a, t.map(|t| Cow::Owned(t.into_owned()))),
        Event::SequenceStart(a, t) => Event::SequenceStart(a, t.map(|t| Cow::Owned(t.into_owned()))),
        Event::SequenceEnd => Event::SequenceEnd,
        Event::MappingStart(a, t) => Event::MappingStart(a, t.map(|t| Cow::Owned(t.into_owned()))),
        Event::MappingEnd => Event::MappingEnd,
    }
}
