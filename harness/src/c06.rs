//! C06: scalar interpretation — drives the crate-private parsers through the hook module.
use crate::proto::*;
use crate::Args;
use serde_saphyr::verif_hooks::scalars as h;

const WIDTHS: [u32; 5] = [8, 16, 32, 64, 128];

fn render_radix(mag: &num::U, radix: u32) -> String {
    mag.to_str_radix(radix)
}

/// Minimal unsigned big integer (up to 2^130) for boundary tokens, to avoid extra dependencies.
mod num {
    #[derive(Clone, Debug, PartialEq)]
    pub struct U(pub Vec<u32>); // little endian base 2^32
    impl U {
        pub fn from_u128(v: u128) -> U {
            U(vec![v as u32, (v >> 32) as u32, (v >> 64) as u32, (v >> 96) as u32, 0])
        }
        pub fn pow2(k: u32) -> U {
            let mut d = vec![0u32; 6];
            d[(k / 32) as usize] = 1 << (k % 32);
            U(d)
        }
        pub fn add_small(&self, x: u32) -> U {
            let mut d = self.0.clone();
            let mut c = x as u64;
            for w in d.iter_mut() {
                let s = *w as u64 + c;
                *w = s as u32;
                c = s >> 32;
            }
            if c > 0 { d.push(c as u32); }
            U(d)
        }
        pub fn sub_small(&self, x: u32) -> Option<U> {
            let mut d = self.0.clone();
            let mut bor = x as i64;
            for w in d.iter_mut() {
                let s = *w as i64 - bor;
                if s < 0 { *w = (s + (1i64 << 32)) as u32; bor = 1; } else { *w = s as u32; bor = 0; }
            }
            if bor != 0 { None } else { Some(U(d)) }
        }
        pub fn is_zero(&self) -> bool { self.0.iter().all(|x| *x == 0) }
        fn divmod_small(&self, r: u32) -> (U, u32) {
            let mut d = self.0.clone();
            let mut rem = 0u64;
            for w in d.iter_mut().rev() {
                let cur = (rem << 32) | *w as u64;
                *w = (cur / r as u64) as u32;
                rem = cur % r as u64;
            }
            (U(d), rem as u32)
        }
        pub fn to_str_radix(&self, radix: u32) -> String {
            if self.is_zero() { return "0".into(); }
            let mut s = Vec::new();
            let mut cur = self.clone();
            while !cur.is_zero() {
                let (q, r) = cur.divmod_small(radix);
                s.push(std::char::from_digit(r, radix).unwrap());
                cur = q;
            }
            s.iter().rev().collect()
        }
    }
}

fn boundary_mags() -> Vec<num::U> {
    let mut v = Vec::new();
    for k in [0u32, 1, 3, 7, 8, 15, 16, 31, 32, 63, 64, 127, 128] {
        let p = num::U::pow2(k);
        for m in [p.sub_small(2), p.sub_small(1), Some(p.clone()), Some(p.add_small(1))].into_iter().flatten() {
            if !v.contains(&m) { v.push(m); }
        }
    }
    for x in [0u128, 9, 10, 77, 99, 255, 256, 1000, 65535, 65536] {
        let m = num::U::from_u128(x);
        if !v.contains(&m) { v.push(m); }
    }
    v
}

fn int_tokens(rng: &mut Rng, thorough: bool) -> Vec<String> {
    let mut toks: Vec<String> = Vec::new();
    let prefixes: [(&str, u32); 9] = [
        ("", 10), ("0x", 16), ("0X", 16), ("0o", 8), ("0O", 8), ("0b", 2), ("0B", 2), ("00", 8), ("0", 10),
    ];
    let ws: [&str; 8] = ["", " ", "\t", "\n", "\u{a0}", "\u{2003}", "\u{feff}", "\u{85}"];
    for m in boundary_mags() {
        for (p, r) in prefixes {
            let digits = render_radix(&m, r);
            for sign in ["", "+", "-"] {
                let base = format!("{sign}{p}{digits}");
                toks.push(base.clone());
                toks.push(format!("{sign}{p}{}", digits.to_uppercase()));
                // separators
                let mut t: Vec<char> = digits.chars().collect();
                let pos = rng.below(t.len() + 1);
                t.insert(pos, '_');
                let us: String = t.iter().collect();
                toks.push(format!("{sign}{p}{us}"));
                toks.push(format!("{sign}{p}_{digits}_"));
                // whitespace wrapping
                let a = *rng.pick(&ws);
                let b = *rng.pick(&ws);
                toks.push(format!("{a}{base}{b}"));
                // sign after prefix / double sign / inner blank
                toks.push(format!("{p}{sign}{digits}"));
                toks.push(format!("{sign}{sign}{p}{digits}"));
            }
        }
    }
    for s in ["", "_", "-", "+", "0x", "0o", "0b", "00", "-00", "+00", "000", "0_0", "00_", "0x_", "0xg", "0o8", "0b2",
              "1e3", "1.0", "0x1p3", ".5", "٣", "１", "0xＦ", "1 2", "- 1", "0x-1", "-0", "+0", "-0x0", "0x00", "008", "-008"] {
        toks.push(s.to_string());
    }
    // mutations
    let alpha: Vec<char> = "0123456789abcdefABCDEFxXoObB_+-. \té".chars().collect();
    let n = toks.len();
    let muts = if thorough { 8 * n } else { n };
    for _ in 0..muts {
        let mut t: Vec<char> = toks[rng.below(n)].chars().collect();
        match rng.below(3) {
            0 if !t.is_empty() => { let i = rng.below(t.len()); t[i] = *rng.pick(&alpha); }
            1 => { let i = rng.below(t.len() + 1); t.insert(i, *rng.pick(&alpha)); }
            _ if !t.is_empty() => { let i = rng.below(t.len()); t.remove(i); }
            _ => {}
        }
        toks.push(t.iter().collect());
    }
    // exhaustive short strings
    let small: Vec<char> = "0178afFxob_+- ".chars().collect();
    let maxlen = if thorough { 4 } else { 3 };
    let mut cur: Vec<String> = vec![String::new()];
    for _ in 0..maxlen {
        let mut next = Vec::new();
        for c in &cur {
            for ch in &small {
                let mut s = c.clone();
                s.push(*ch);
                next.push(s);
            }
        }
        toks.extend(next.iter().cloned());
        cur = next;
    }
    toks.sort();
    toks.dedup();
    toks
}

fn case_variants(word: &str) -> Vec<String> {
    let cs: Vec<char> = word.chars().collect();
    let mut out = Vec::new();
    for mask in 0..(1u32 << cs.len()) {
        let s: String = cs.iter().enumerate()
            .map(|(i, c)| if mask >> i & 1 == 1 { c.to_ascii_uppercase() } else { *c })
            .collect();
        out.push(s);
    }
    out
}

fn word_tokens(rng: &mut Rng) -> Vec<String> {
    let mut toks = Vec::new();
    for w in ["y", "yes", "true", "on", "n", "no", "false", "off", "null", "~", "", "nul", "nulll", "tru", "ye", "o", "of",
              "none", "nil", "t", "f", "1", "0", "yes!", "ｙ", "ǸO", "К", "ſ", "K"] {
        for v in case_variants(w) {
            toks.push(v.clone());
            for ws in [" ", "\t", "\n", "\u{a0}", "\u{3000}", "\u{feff}", "\u{b}", "\u{c}", "\u{1c}", "\u{200b}"] {
                toks.push(format!("{ws}{v}"));
                toks.push(format!("{v}{ws}"));
            }
        }
    }
    // a few random unicode strings
    for _ in 0..200 {
        let n = rng.below(4);
        let s: String = (0..n).map(|_| char::from_u32(rng.below(0x3100) as u32).unwrap_or('a')).collect();
        toks.push(s);
    }
    toks.sort();
    toks.dedup();
    toks
}

fn float_tokens(rng: &mut Rng, thorough: bool) -> Vec<String> {
    let mut v: Vec<String> = Vec::new();
    for s in ["0", "-0", "+0", "0.0", "-0.0", "1", "1.", ".5", "+.5", "-.5", ".", "e5", "1e", "1e+", "1e5", "1E5", "1e-5", "1.e5", ".e5",
              "1.5e300", "1e308", "1.7976931348623157e308", "1.7976931348623158e308", "1.7976931348623159e308", "1e309", "-1e309",
              "4.9e-324", "2.4703282292062327e-324", "2.4703282292062328e-324", "2.5e-324", "1e-400", "2.2250738585072014e-308",
              "2.2250738585072011e-308", "3.4028235e38", "3.4028236e38", "3.4028234663852886e38", "3.4028235677973366e38", "1e39",
              "1.401298464324817e-45", "7e-46", "7.1e-46", "1.00000005960464477540", "1.0000000596046448", "9007199254740993",
              "9007199254740992", "9007199254740991", "0.1", "0.3", "123456789012345678901234567890", "1e22", "1e23", "8.5", "16777217",
              "inf", "+inf", "-inf", "Inf", "INF", "infinity", "-Infinity", "nan", "NaN", "-nan", "+NAN", ".inf", ".Inf", ".INF", "+.inf", "-.inf",
              "-.INF", ".nan", ".NaN", ".NAN", "+.nan", "-.nan", "..inf", ".infinity", "1_000.0", "1_0", "0x10", "1e1_0", " 1.5 ", "\t2e2\n",
              "\u{a0}3.5", "1.5 x", "1 .5", "+-1", "--1", "1e5.5", "1.2.3", "٣.٥", "1e99999999999", "1e-99999999999", "0e99999999999",
              "0.000000000000000000000000000000000000000000001e60", "1000000000000000000000000000000000000000000e-30"] {
        v.push(s.replace("\\t", "\t").replace("\\n", "\n").to_string());
    }
    let n = if thorough { 200000 } else { 8000 };
    for _ in 0..n {
        match rng.below(4) {
            0 => { let b = rng.next(); let f = f64::from_bits(b); if f.is_finite() { v.push(format!("{:e}", f)); v.push(format!("{}", f)); } }
            1 => { let b = rng.next() as u32; let f = f32::from_bits(b); if f.is_finite() { v.push(format!("{:e}", f)); v.push(format!("{}", f)); } }
            2 => {
                // random decimal with many digits near rounding boundaries
                let nd = 1 + rng.below(25);
                let mut s: String = (0..nd).map(|_| char::from(b'0' + rng.below(10) as u8)).collect();
                if rng.chance(1, 2) { let p = rng.below(s.len() + 1); s.insert(p, '.'); }
                if rng.chance(1, 2) { s.push_str(&format!("e{}", rng.below(700) as i64 - 350)); }
                if rng.chance(1, 4) { s.insert(0, '-'); }
                v.push(s);
            }
            _ => {
                // halfway cases for f32: x + half ulp written exactly
                let b = (rng.next() as u32) & 0x7f7f_ffff;
                let f = f32::from_bits(b) as f64;
                let g = f32::from_bits(b + 1) as f64;
                if g.is_finite() { let mid = (f + g) / 2.0; v.push(format!("{:e}", mid)); }
            }
        }
    }
    v.sort();
    v.dedup();
    v
}

fn b64_tokens(rng: &mut Rng, thorough: bool) -> Vec<Vec<u8>> {
    use std::collections::BTreeSet;
    let mut set: BTreeSet<Vec<u8>> = BTreeSet::new();
    let enc = |bs: &[u8]| -> Vec<u8> {
        const A: &[u8; 64] = b"ABCDEFGHIJKLMNOPQRSTUVWXYZabcdefghijklmnopqrstuvwxyz0123456789+/";
        let mut o = Vec::new();
        for ch in bs.chunks(3) {
            let n = (ch[0] as u32) << 16 | (*ch.get(1).unwrap_or(&0) as u32) << 8 | *ch.get(2).unwrap_or(&0) as u32;
            o.push(A[(n >> 18) as usize & 63]);
            o.push(A[(n >> 12) as usize & 63]);
            o.push(if ch.len() > 1 { A[(n >> 6) as usize & 63] } else { b'=' });
            o.push(if ch.len() > 2 { A[n as usize & 63] } else { b'=' });
        }
        o
    };
    // canonical encodings of all byte strings up to length 1 (quick) / 2 (thorough), random longer ones
    set.insert(vec![]);
    for x in 0..=255u8 { set.insert(enc(&[x])); }
    let two = if thorough { 65536 } else { 2000 };
    for i in 0..two {
        let (x, y) = if thorough { ((i >> 8) as u8, i as u8) } else { (rng.next() as u8, rng.next() as u8) };
        set.insert(enc(&[x, y]));
    }
    for _ in 0..(if thorough { 20000 } else { 2000 }) {
        let n = rng.below(9);
        let bs: Vec<u8> = (0..n).map(|_| rng.next() as u8).collect();
        set.insert(enc(&bs));
    }
    // exhaustive alphabet strings
    let alpha: &[u8] = b"ABQg/+= \n*\xc3";
    let maxlen = if thorough { 5 } else { 4 };
    let mut cur: Vec<Vec<u8>> = vec![vec![]];
    for _ in 0..maxlen {
        let mut next = Vec::new();
        for c in &cur {
            for ch in alpha {
                let mut s = c.clone();
                s.push(*ch);
                next.push(s);
            }
        }
        for s in &next { set.insert(s.clone()); }
        cur = next;
    }
    // mutations of canonical encodings (bad padding bits, misplaced '=', whitespace, vertical tab)
    let base: Vec<Vec<u8>> = set.iter().filter(|s| s.len() >= 4).take(4000).cloned().collect();
    let all: &[u8] = b"ABCDEFGHIJKLMNOPQRSTUVWXYZabcdefghijklmnopqrstuvwxyz0123456789+/= \t\n\r\x0b\x0c-_";
    for s in &base {
        let mut t = s.clone();
        match rng.below(4) {
            0 => { let i = rng.below(t.len()); t[i] = *rng.pick(all); }
            1 => { let i = rng.below(t.len() + 1); t.insert(i, *rng.pick(all)); }
            2 => { let i = rng.below(t.len()); t.remove(i); }
            _ => { t.extend_from_slice(s); }
        }
        set.insert(t);
    }
    // non-ASCII characters whose LOW BYTE is the replaced alphabet character (U+0141 for `A`, U+0161 for `a`, U+013D for
    // `=` …: a decoder that narrows characters to bytes would take them for the alphabet), and non-ASCII white space
    let canon: Vec<Vec<u8>> = set.iter().filter(|s| s.len() >= 4 && s.iter().all(|b| b.is_ascii_alphanumeric() || b"+/=".contains(b))).take(600).cloned().collect();
    for (n, s) in canon.iter().enumerate() {
        let i = rng.below(s.len());
        for (k, plane) in [0x100u32, 0x2100, 0x10000].into_iter().enumerate() {
            if (n + k) % 3 != 0 && plane != 0x100 { continue; }
            if let Some(c) = char::from_u32(plane + s[i] as u32) {
                let mut t = s[..i].to_vec();
                t.extend_from_slice(c.to_string().as_bytes());
                t.extend_from_slice(&s[i + 1..]);
                set.insert(t);
            }
        }
        if n % 5 == 0 {
            for ws in ['\u{a0}', '\u{2003}', '\u{3000}', '\u{85}', '\u{2028}', '\u{feff}'] {
                let mut t = s[..i].to_vec();
                t.extend_from_slice(ws.to_string().as_bytes());
                t.extend_from_slice(&s[i..]);
                set.insert(t);
            }
        }
    }
    // keep only valid UTF-8 (the function takes &str)
    set.into_iter().filter(|s| std::str::from_utf8(s).is_ok()).collect()
}

pub fn run(mode: &str, a: &Args) -> i32 {
    match mode {
        "gen" => generate(a),
        _ => { eprintln!("c06: unknown mode {mode}"); 2 }
    }
}

fn generate(a: &Args) -> i32 {
    let mut rng = Rng::new(a.seed);
    let mut sink = Sink::new(&a.out, "c06");
    let toks = int_tokens(&mut rng, a.thorough);
    let mut accepted = std::collections::BTreeSet::new();
    for t in &toks {
        let hx = hex(t);
        for w in WIDTHS {
            for legacy in [false, true] {
                let r = h::parse_int_signed(w, t, legacy);
                if r.is_some() { accepted.insert(("s", w, t.clone())); sink.count("int_s.accept"); } else { sink.count("int_s.reject"); }
                sink.case(&format!("c06 int_s {w} {} {hx}", b(legacy)), &opt(&r, |v| v.to_string()));
                let r = h::parse_int_unsigned(w, t, legacy);
                if r.is_some() { accepted.insert(("u", w, t.clone())); sink.count("int_u.accept"); } else { sink.count("int_u.reject"); }
                sink.case(&format!("c06 int_u {w} {} {hx}", b(legacy)), &opt(&r, |v| v.to_string()));
            }
        }
        sink.case(&format!("c06 lzd {hx}"), b(h::leading_zero_decimal(t)));
    }
    let words = word_tokens(&mut rng);
    for t in &words {
        let hx = hex(t);
        let r = h::parse_yaml11_bool(t);
        sink.count(if r.is_some() { "bool.accept" } else { "bool.reject" });
        sink.case(&format!("c06 bool11 {hx}"), &opt(&r, |v| b(*v).to_string()));
        for st in 0..5u8 {
            let r = h::scalar_is_nullish(t, st);
            sink.count(if r { "nullish.true" } else { "nullish.false" });
            sink.case(&format!("c06 nullish {st} {hx}"), b(r));
            sink.case(&format!("c06 nullish_opt {st} {hx}"), b(h::scalar_is_nullish_for_option(t, st)));
        }
    }
    let floats = float_tokens(&mut rng, a.thorough);
    for t in &floats {
        let hx = hex(t);
        let r = h::parse_f64(t);
        sink.count(if r.is_some() { "f64.accept" } else { "f64.reject" });
        let show = |bits: u64, nan: bool| if nan { "nan".to_string() } else { bits.to_string() };
        sink.case(&format!("c06 float 64 {hx}"), &opt(&r, |v| show(*v, f64::from_bits(*v).is_nan())));
        let r = h::parse_f32(t);
        sink.case(&format!("c06 float 32 {hx}"), &opt(&r, |v| show(*v as u64, f32::from_bits(*v).is_nan())));
    }
    let b64 = b64_tokens(&mut rng, a.thorough);
    for t in &b64 {
        let s = std::str::from_utf8(t).unwrap();
        let r = h::decode_base64_yaml(s);
        sink.count(if r.is_some() { "b64.accept" } else { "b64.reject" });
        sink.case(&format!("c06 b64 {}", hex_bytes(t)), &opt(&r, |v| hex_bytes(v)));
    }
    let nontrivial = accepted.len() as u64 + sink.stats.get("b64.accept").copied().unwrap_or(0)
        + sink.stats.get("bool.accept").copied().unwrap_or(0);
    sink.finish(&a.out, "c06", serde_json::json!({
        "int_tokens": toks.len(), "word_tokens": words.len(), "b64_tokens": b64.len(),
        "distinct_nontrivial": nontrivial,
        "rule": "hook-level: every token x width {8,16,32,64,128} x signed/unsigned x legacy_octal {0,1}; tokens = width boundaries +-1,2 in radix 2/8/10/16/legacy-octal with signs, case, `_` separators, Unicode whitespace wrapping, random single-character mutations, and ALL strings up to length 3 (quick) / 4 (thorough) over `0178afFxob_+- `; bool/null word table with all case variants x whitespace x 5 styles; base64: canonical encodings (all 1-byte, all/random 2-byte, random up to 8 bytes), all strings up to length 4/5 over `ABQg/+= \\n*` and mutations. Non-trivial = distinct (kind,width,token) accepted by the implementation.",
    }));
    0
}
