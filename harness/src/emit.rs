//! C13 / C20: the YAML emitter.  A run-time VALUE tree `SV` implements `serde::Serialize` by issuing
//! exactly the calls derived code issues (and the crate's own wrapper types for FlowSeq / FlowMap /
//! Commented / SpaceAfter / LitStr / FoldStr).
//!  (i)  `emit ser`  : byte-for-byte differential of the Lean emitter model vs `to_string_with_options`
//!  (ii) `emit read` : the Lean reference reader vs the real parser (untyped tree of `from_str`)
//!  (iii) oracle     : round trip through the real code only (typed + untyped + exactly one document;
//!                     wrappers / options must not change the data)
//! Modes: `gen` (C13: data-model shapes, no presentation wrappers), `gen_wrappers` (C20: values decorated
//! with wrappers), `show` (debug: print the emitted text of one token line).
use crate::e2e::Cfg;
use crate::proto::*;
use crate::tyseed::*;
use crate::Args;
use serde::de::DeserializeSeed;
use serde::ser::{Serialize, SerializeMap, SerializeSeq, SerializeStruct, SerializeStructVariant, SerializeTuple,
                 SerializeTupleStruct, SerializeTupleVariant, Serializer};
use serde_saphyr::SerializerOptions;
use std::collections::BTreeMap;

#[derive(Clone, Debug, PartialEq)]
pub enum SV {
    Unit,
    Bool(bool),
    Int(i64),
    Str(String),
    /// `serialize_char` (= `serialize_str` of the one-character string since fix 8690a78; the model sees `.str [c]`)
    Char(char),
    None,
    Some(Box<SV>),
    Newtype(Box<SV>),
    Seq(Vec<SV>),
    Tuple(Vec<SV>),
    TupleStruct(Vec<SV>),
    Map(bool, Vec<(SV, SV)>),
    Struct(Vec<(&'static str, SV)>),
    UnitVariant(&'static str, &'static str),
    NewtypeVariant(&'static str, Box<SV>),
    TupleVariant(&'static str, Vec<SV>),
    StructVariant(&'static str, Vec<(&'static str, SV)>),
    FlowSeq(Box<SV>),
    FlowMap(Box<SV>),
    Commented(Box<SV>, String),
    SpaceAfter(Box<SV>),
    LitStr(String),
    FoldStr(String),
}

impl Serialize for SV {
    fn serialize<S: Serializer>(&self, s: S) -> Result<S::Ok, S::Error> {
        match self {
            SV::Unit => s.serialize_unit(),
            SV::Bool(b) => s.serialize_bool(*b),
            SV::Int(i) => s.serialize_i64(*i),
            SV::Str(x) => s.serialize_str(x),
            SV::Char(c) => s.serialize_char(*c),
            SV::None => s.serialize_none(),
            SV::Some(v) => s.serialize_some(&**v),
            SV::Newtype(v) => s.serialize_newtype_struct("W", &**v),
            SV::Seq(items) => {
                let mut q = s.serialize_seq(Some(items.len()))?;
                for it in items { q.serialize_element(it)?; }
                q.end()
            }
            SV::Tuple(items) => {
                let mut q = s.serialize_tuple(items.len())?;
                for it in items { q.serialize_element(it)?; }
                q.end()
            }
            SV::TupleStruct(items) => {
                let mut q = s.serialize_tuple_struct("TS", items.len())?;
                for it in items { q.serialize_field(it)?; }
                q.end()
            }
            SV::Map(known, entries) => {
                let mut m = s.serialize_map(if *known { Some(entries.len()) } else { None })?;
                for (k, v) in entries { m.serialize_entry(k, v)?; }
                m.end()
            }
            SV::Struct(fields) => {
                let mut m = s.serialize_struct("S", fields.len())?;
                for (n, v) in fields { m.serialize_field(n, v)?; }
                m.end()
            }
            SV::UnitVariant(e, v) => s.serialize_unit_variant(e, 0, v),
            SV::NewtypeVariant(var, v) => s.serialize_newtype_variant("E", 0, var, &**v),
            SV::TupleVariant(var, items) => {
                let mut q = s.serialize_tuple_variant("E", 0, var, items.len())?;
                for it in items { q.serialize_field(it)?; }
                q.end()
            }
            SV::StructVariant(var, fields) => {
                let mut m = s.serialize_struct_variant("E", 0, var, fields.len())?;
                for (n, v) in fields { m.serialize_field(n, v)?; }
                m.end()
            }
            SV::FlowSeq(v) => serde_saphyr::FlowSeq(&**v).serialize(s),
            SV::FlowMap(v) => serde_saphyr::FlowMap(&**v).serialize(s),
            SV::Commented(v, c) => serde_saphyr::Commented(&**v, c.clone()).serialize(s),
            SV::SpaceAfter(v) => serde_saphyr::SpaceAfter(&**v).serialize(s),
            SV::LitStr(x) => serde_saphyr::LitStr(x).serialize(s),
            SV::FoldStr(x) => serde_saphyr::FoldStr(x).serialize(s),
        }
    }
}

impl SV {
    pub fn tokens(&self) -> String {
        fn list(vs: &[SV]) -> String { vs.iter().map(|v| format!(" {}", v.tokens())).collect() }
        fn fields(fs: &[(&'static str, SV)]) -> String { fs.iter().map(|(n, v)| format!(" {} {}", hex(n), v.tokens())).collect() }
        match self {
            SV::Unit => "U".into(),
            SV::Bool(x) => format!("B{}", b(*x)),
            SV::Int(i) => format!("I {i}"),
            SV::Str(s) => format!("S {}", hex(s)),
            SV::Char(c) => format!("S {}", hex(&c.to_string())),
            SV::None => "N".into(),
            SV::Some(v) => format!("O {}", v.tokens()),
            SV::Newtype(v) => format!("NS {}", v.tokens()),
            SV::Seq(vs) => format!("L {}{}", vs.len(), list(vs)),
            SV::Tuple(vs) => format!("T {}{}", vs.len(), list(vs)),
            SV::TupleStruct(vs) => format!("TS {}{}", vs.len(), list(vs)),
            SV::Map(k, es) => format!("M {} {}{}", b(*k), es.len(), es.iter().map(|(k, v)| format!(" {} {}", k.tokens(), v.tokens())).collect::<String>()),
            SV::Struct(fs) => format!("ST {}{}", fs.len(), fields(fs)),
            SV::UnitVariant(e, v) => format!("UV {} {}", hex(e), hex(v)),
            SV::NewtypeVariant(n, v) => format!("NV {} {}", hex(n), v.tokens()),
            SV::TupleVariant(n, vs) => format!("TV {} {}{}", hex(n), vs.len(), list(vs)),
            SV::StructVariant(n, fs) => format!("SV {} {}{}", hex(n), fs.len(), fields(fs)),
            SV::FlowSeq(v) => format!("FS {}", v.tokens()),
            SV::FlowMap(v) => format!("FM {}", v.tokens()),
            SV::Commented(v, c) => format!("C {} {}", hex(c), v.tokens()),
            SV::SpaceAfter(v) => format!("SA {}", v.tokens()),
            SV::LitStr(s) => format!("LS {}", hex(s)),
            SV::FoldStr(s) => format!("FO {}", hex(s)),
        }
    }

    pub fn parse(toks: &mut std::slice::Iter<'_, &str>) -> Option<SV> {
        fn s(t: Option<&&str>) -> Option<String> { String::from_utf8(unhex(t?)?).ok() }
        fn list(toks: &mut std::slice::Iter<'_, &str>) -> Option<Vec<SV>> {
            let n: usize = toks.next()?.parse().ok()?;
            (0..n).map(|_| SV::parse(toks)).collect()
        }
        fn fields(toks: &mut std::slice::Iter<'_, &str>) -> Option<Vec<(&'static str, SV)>> {
            let n: usize = toks.next()?.parse().ok()?;
            (0..n).map(|_| { let name = leak(&s(toks.next())?); Some((name, SV::parse(toks)?)) }).collect()
        }
        Some(match *toks.next()? {
            "U" => SV::Unit,
            "B0" => SV::Bool(false),
            "B1" => SV::Bool(true),
            "I" => SV::Int(toks.next()?.parse().ok()?),
            "S" => SV::Str(s(toks.next())?),
            "N" => SV::None,
            "O" => SV::Some(Box::new(SV::parse(toks)?)),
            "NS" => SV::Newtype(Box::new(SV::parse(toks)?)),
            "L" => SV::Seq(list(toks)?),
            "T" => SV::Tuple(list(toks)?),
            "TS" => SV::TupleStruct(list(toks)?),
            "M" => {
                let k = *toks.next()? == "1";
                let n: usize = toks.next()?.parse().ok()?;
                let mut es = Vec::new();
                for _ in 0..n { let kk = SV::parse(toks)?; let vv = SV::parse(toks)?; es.push((kk, vv)); }
                SV::Map(k, es)
            }
            "ST" => SV::Struct(fields(toks)?),
            "UV" => { let e = leak(&s(toks.next())?); let v = leak(&s(toks.next())?); SV::UnitVariant(e, v) }
            "NV" => { let n = leak(&s(toks.next())?); SV::NewtypeVariant(n, Box::new(SV::parse(toks)?)) }
            "TV" => { let n = leak(&s(toks.next())?); SV::TupleVariant(n, list(toks)?) }
            "SV" => { let n = leak(&s(toks.next())?); SV::StructVariant(n, fields(toks)?) }
            "FS" => SV::FlowSeq(Box::new(SV::parse(toks)?)),
            "FM" => SV::FlowMap(Box::new(SV::parse(toks)?)),
            "C" => { let c = s(toks.next())?; SV::Commented(Box::new(SV::parse(toks)?), c) }
            "SA" => SV::SpaceAfter(Box::new(SV::parse(toks)?)),
            "LS" => SV::LitStr(s(toks.next())?),
            "FO" => SV::FoldStr(s(toks.next())?),
            _ => return None,
        })
    }

    fn children(&self) -> Vec<&SV> {
        match self {
            SV::Some(v) | SV::Newtype(v) | SV::NewtypeVariant(_, v) | SV::FlowSeq(v) | SV::FlowMap(v) | SV::Commented(v, _) | SV::SpaceAfter(v) => vec![&**v],
            SV::Seq(vs) | SV::Tuple(vs) | SV::TupleStruct(vs) | SV::TupleVariant(_, vs) => vs.iter().collect(),
            SV::Map(_, es) => es.iter().flat_map(|(k, v)| [k, v]).collect(),
            SV::Struct(fs) | SV::StructVariant(_, fs) => fs.iter().map(|f| &f.1).collect(),
            _ => vec![],
        }
    }
    pub fn any(&self, p: &dyn Fn(&SV) -> bool) -> bool { p(self) || self.children().iter().any(|c| c.any(p)) }
    pub fn size(&self) -> usize { 1 + self.children().iter().map(|c| c.size()).sum::<usize>() }
    pub fn is_wrapper(&self) -> bool {
        matches!(self, SV::FlowSeq(_) | SV::FlowMap(_) | SV::Commented(..) | SV::SpaceAfter(_) | SV::LitStr(_) | SV::FoldStr(_))
    }
    pub fn kind(&self) -> &'static str {
        match self {
            SV::Unit => "unit", SV::Bool(_) => "bool", SV::Int(_) => "int", SV::Str(_) => "str", SV::Char(_) => "char", SV::None => "none", SV::Some(_) => "some",
            SV::Newtype(_) => "newtype_struct", SV::Seq(_) => "seq", SV::Tuple(_) => "tuple", SV::TupleStruct(_) => "tuple_struct",
            SV::Map(true, _) => "map", SV::Map(false, _) => "map_unknown_len", SV::Struct(_) => "struct", SV::UnitVariant(..) => "unit_variant",
            SV::NewtypeVariant(..) => "newtype_variant", SV::TupleVariant(..) => "tuple_variant", SV::StructVariant(..) => "struct_variant",
            SV::FlowSeq(_) => "flow_seq", SV::FlowMap(_) => "flow_map", SV::Commented(..) => "commented", SV::SpaceAfter(_) => "space_after",
            SV::LitStr(_) => "lit_str", SV::FoldStr(_) => "fold_str",
        }
    }

    /// the value without presentation wrappers (LitStr / FoldStr become plain strings)
    pub fn bare(&self) -> SV {
        let bx = |v: &SV| Box::new(v.bare());
        match self {
            SV::FlowSeq(v) | SV::FlowMap(v) | SV::Commented(v, _) | SV::SpaceAfter(v) => v.bare(),
            SV::LitStr(s) | SV::FoldStr(s) => SV::Str(s.clone()),
            SV::Some(v) => SV::Some(bx(v)),
            SV::Newtype(v) => SV::Newtype(bx(v)),
            SV::NewtypeVariant(n, v) => SV::NewtypeVariant(n, bx(v)),
            SV::Seq(vs) => SV::Seq(vs.iter().map(|v| v.bare()).collect()),
            SV::Tuple(vs) => SV::Tuple(vs.iter().map(|v| v.bare()).collect()),
            SV::TupleStruct(vs) => SV::TupleStruct(vs.iter().map(|v| v.bare()).collect()),
            SV::TupleVariant(n, vs) => SV::TupleVariant(n, vs.iter().map(|v| v.bare()).collect()),
            SV::Map(k, es) => SV::Map(*k, es.iter().map(|(a, b)| (a.bare(), b.bare())).collect()),
            SV::Struct(fs) => SV::Struct(fs.iter().map(|(n, v)| (*n, v.bare())).collect()),
            SV::StructVariant(n, fs) => SV::StructVariant(n, fs.iter().map(|(m, v)| (*m, v.bare())).collect()),
            other => other.clone(),
        }
    }
}

/// Untyped tree: what the document is expected to read back as (mirror of Lean `erase`);
/// `Fold` marks strings under the explicit folded wrapper (compared modulo trailing line breaks).
#[derive(Clone, Debug, PartialEq)]
pub enum P {
    Null,
    Bool(bool),
    Int(i128),
    Str(String),
    Fold(String),
    Seq(Vec<P>),
    Map(Vec<(P, P)>),
    Other(String),
}

impl P {
    pub fn tokens(&self) -> String {
        match self {
            P::Null => "N".into(),
            P::Bool(x) => format!("B{}", b(*x)),
            P::Int(i) => format!("I{i}"),
            P::Str(s) | P::Fold(s) => format!("S{}", hex(s)),
            P::Seq(vs) => format!("L {}{}", vs.len(), vs.iter().map(|v| format!(" {}", v.tokens())).collect::<String>()),
            P::Map(es) => format!("M {}{}", es.len(), es.iter().map(|(k, v)| format!(" {} {}", k.tokens(), v.tokens())).collect::<String>()),
            P::Other(s) => format!("?{s}"),
        }
    }
    pub fn from_val(v: &Val) -> P {
        match v {
            Val::Unit | Val::None => P::Null,
            Val::Bool(x) => P::Bool(*x),
            Val::Int(i) => P::Int(*i),
            Val::Str(s) => P::Str(s.clone()),
            Val::Some(v) => P::from_val(v),
            Val::Seq(vs) => P::Seq(vs.iter().map(P::from_val).collect()),
            Val::Map(es) => P::Map(es.iter().map(|(k, v)| (P::from_val(k), P::from_val(v))).collect()),
            other => P::Other(other.tokens()),
        }
    }
    /// equality where `Fold(s)` on the expected side matches a string equal modulo trailing '\n'
    pub fn matches(&self, got: &P) -> bool {
        match (self, got) {
            (P::Fold(a), P::Str(b)) => a.trim_end_matches('\n') == b.trim_end_matches('\n'),
            (P::Seq(a), P::Seq(b)) => a.len() == b.len() && a.iter().zip(b).all(|(x, y)| x.matches(y)),
            (P::Map(a), P::Map(b)) => a.len() == b.len() && a.iter().zip(b).all(|((k1, v1), (k2, v2))| k1.matches(k2) && v1.matches(v2)),
            (a, b) => a == b,
        }
    }
}

pub fn erase(v: &SV) -> P {
    let name = |n: &str| P::Str(n.to_string());
    match v {
        SV::Unit | SV::None => P::Null,
        SV::Bool(x) => P::Bool(*x),
        SV::Int(i) => P::Int(*i as i128),
        SV::Str(s) | SV::LitStr(s) => P::Str(s.clone()),
        SV::Char(c) => P::Str(c.to_string()),
        SV::FoldStr(s) => P::Fold(s.clone()),
        SV::Some(v) | SV::Newtype(v) | SV::FlowSeq(v) | SV::FlowMap(v) | SV::Commented(v, _) | SV::SpaceAfter(v) => erase(v),
        SV::Seq(vs) | SV::Tuple(vs) | SV::TupleStruct(vs) => P::Seq(vs.iter().map(erase).collect()),
        SV::Map(_, es) => P::Map(es.iter().map(|(k, v)| (erase(k), erase(v))).collect()),
        SV::Struct(fs) => P::Map(fs.iter().map(|(n, v)| (name(n), erase(v))).collect()),
        SV::UnitVariant(_, n) => name(n),
        SV::NewtypeVariant(n, v) => P::Map(vec![(name(n), erase(v))]),
        SV::TupleVariant(n, vs) => P::Map(vec![(name(n), P::Seq(vs.iter().map(erase).collect()))]),
        SV::StructVariant(n, fs) => P::Map(vec![(name(n), P::Map(fs.iter().map(|(m, v)| (name(m), erase(v))).collect()))]),
    }
}

/// run-time type of a value + the value tree the typed deserializer must produce (`None` = the shape has
/// no faithful `Ty` here: heterogeneous map with non-string keys)
pub fn typed(v: &SV) -> Option<(Ty, Val)> {
    let list = |vs: &[SV]| -> Option<(Vec<Ty>, Vec<Val>)> {
        let mut ts = Vec::new();
        let mut xs = Vec::new();
        for v in vs { let (t, x) = typed(v)?; ts.push(t); xs.push(x); }
        Some((ts, xs))
    };
    let fields = |fs: &[(&'static str, SV)]| -> Option<(Vec<(&'static str, Ty)>, Vec<(String, Val)>)> {
        let mut ts = Vec::new();
        let mut xs = Vec::new();
        for (n, v) in fs { let (t, x) = typed(v)?; ts.push((*n, t)); xs.push((n.to_string(), x)); }
        Some((ts, xs))
    };
    let seq_like = |vs: &[SV]| -> Option<(Ty, Val)> {
        let (ts, xs) = list(vs)?;
        if !ts.is_empty() && ts.iter().all(|t| *t == ts[0]) { Some((Ty::Seq(Box::new(ts[0].clone())), Val::Seq(xs))) }
        else { Some((Ty::Tuple(ts), Val::Seq(xs))) }
    };
    Some(match v {
        SV::Unit => (Ty::Unit, Val::Unit),
        SV::Bool(x) => (Ty::Bool, Val::Bool(*x)),
        SV::Int(i) => (Ty::Int(true, 64), Val::Int(*i as i128)),
        SV::Str(s) | SV::LitStr(s) | SV::FoldStr(s) => (Ty::Str, Val::Str(s.clone())),
        SV::Char(c) => (Ty::Char, Val::Char(*c)),
        SV::None => (Ty::Option(Box::new(Ty::Unit)), Val::None),
        SV::Some(v) => {
            let (t, x) = typed(v)?;
            // `Some(x)` where x is emitted as null reads back as `None` (Serde data-model limitation)
            if erase(v) == P::Null { (Ty::Option(Box::new(t)), Val::None) } else { (Ty::Option(Box::new(t)), Val::Some(Box::new(x))) }
        }
        SV::Newtype(v) => { let (t, x) = typed(v)?; (Ty::Newtype(Box::new(t)), x) }
        SV::FlowSeq(v) | SV::FlowMap(v) | SV::Commented(v, _) | SV::SpaceAfter(v) => typed(v)?,
        SV::Seq(vs) => seq_like(vs)?,
        SV::Tuple(vs) | SV::TupleStruct(vs) => { let (ts, xs) = list(vs)?; (Ty::Tuple(ts), Val::Seq(xs)) }
        SV::Map(_, es) => {
            let mut kt = Vec::new(); let mut vt = Vec::new(); let mut xs = Vec::new();
            for (k, v) in es { let (a, x) = typed(k)?; let (c, y) = typed(v)?; kt.push(a); vt.push(c); xs.push((x, y)); }
            if es.is_empty() { (Ty::Map(Box::new(Ty::Str), Box::new(Ty::Unit)), Val::Map(vec![])) }
            else if kt.iter().all(|t| *t == kt[0]) && vt.iter().all(|t| *t == vt[0]) { (Ty::Map(Box::new(kt[0].clone()), Box::new(vt[0].clone())), Val::Map(xs)) }
            else if es.iter().all(|(k, _)| matches!(k, SV::Str(_))) {
                let fs: Vec<(&'static str, Ty)> = es.iter().zip(vt).map(|((k, _), t)| (match k { SV::Str(s) => leak(s), _ => "" }, t)).collect();
                let vals = es.iter().zip(xs).map(|((k, _), (_, y))| (match k { SV::Str(s) => s.clone(), _ => String::new() }, y)).collect();
                (Ty::Struct(fs, false), Val::Struct(vals))
            } else { return None; }
        }
        SV::Struct(fs) => { let (ts, xs) = fields(fs)?; (Ty::Struct(ts, false), Val::Struct(xs)) }
        SV::UnitVariant(e, n) => (Ty::Enum(e, vec![(*n, VTy::Unit)]), Val::Variant(n.to_string(), Box::new(Val::Unit))),
        SV::NewtypeVariant(n, v) => { let (t, x) = typed(v)?; (Ty::Enum("E", vec![(*n, VTy::Newtype(t))]), Val::Variant(n.to_string(), Box::new(x))) }
        SV::TupleVariant(n, vs) => { let (ts, xs) = list(vs)?; (Ty::Enum("E", vec![(*n, VTy::Tuple(ts))]), Val::Variant(n.to_string(), Box::new(Val::Seq(xs)))) }
        SV::StructVariant(n, fs) => { let (ts, xs) = fields(fs)?; (Ty::Enum("E", vec![(*n, VTy::Struct(ts))]), Val::Variant(n.to_string(), Box::new(Val::Struct(xs)))) }
    })
}

/// typed comparison: strings under FoldStr are compared modulo trailing line breaks
fn val_matches(exp: &Val, got: &Val, v: &SV) -> bool {
    // cheap route: exact equality, else compare through the untyped projection when folded strings are present
    if exp == got { return true; }
    if v.any(&|x| matches!(x, SV::FoldStr(_))) {
        fn norm(v: &Val) -> Val {
            match v {
                Val::Str(s) => Val::Str(s.trim_end_matches('\n').to_string()),
                Val::Some(x) => Val::Some(Box::new(norm(x))),
                Val::Seq(xs) => Val::Seq(xs.iter().map(norm).collect()),
                Val::Map(es) => Val::Map(es.iter().map(|(k, v)| (norm(k), norm(v))).collect()),
                Val::Struct(fs) => Val::Struct(fs.iter().map(|(n, v)| (n.clone(), norm(v))).collect()),
                Val::Variant(n, p) => Val::Variant(n.clone(), Box::new(norm(p))),
                o => o.clone(),
            }
        }
        return norm(exp) == norm(got);
    }
    false
}

// ---------------------------------------------------------------- options

#[derive(Clone, Copy, Debug, PartialEq)]
pub struct O {
    pub indent: usize,
    pub min_fold: usize,
    pub fold_wrap: usize,
    pub tagged: bool,
    pub braces: bool,
    pub compact: bool,
    pub prefer_block: bool,
    pub quote_all: bool,
    pub yaml12: bool,
}

impl Default for O {
    fn default() -> Self {
        O { indent: 2, min_fold: 32, fold_wrap: 80, tagged: false, braces: true, compact: false, prefer_block: true, quote_all: false, yaml12: false }
    }
}

impl O {
    pub fn tokens(&self) -> String {
        format!("{} {} {} {} {} {} {} {} {}", self.indent, self.min_fold, self.fold_wrap, b(self.tagged), b(self.braces), b(self.compact),
                b(self.prefer_block), b(self.quote_all), b(self.yaml12))
    }
    pub fn parse(t: &[&str]) -> Option<O> {
        if t.len() < 9 { return None; }
        Some(O { indent: t[0].parse().ok()?, min_fold: t[1].parse().ok()?, fold_wrap: t[2].parse().ok()?, tagged: t[3] == "1", braces: t[4] == "1",
                 compact: t[5] == "1", prefer_block: t[6] == "1", quote_all: t[7] == "1", yaml12: t[8] == "1" })
    }
    pub fn options(&self) -> SerializerOptions {
        let mut o = SerializerOptions::default();
        o.indent_step = self.indent;
        o.min_fold_chars = self.min_fold;
        o.folded_wrap_chars = self.fold_wrap;
        o.tagged_enums = self.tagged;
        o.empty_as_braces = self.braces;
        o.compact_list_indent = self.compact;
        o.prefer_block_scalars = self.prefer_block;
        o.quote_all = self.quote_all;
        o.yaml_12 = self.yaml12;
        o
    }
    /// the 16 option vectors used with the exhaustive families
    pub fn grid() -> Vec<O> {
        (0..16).map(|i| O {
            indent: [2, 1, 3, 4][i % 4],
            compact: i & 1 != 0, braces: i & 2 == 0 || i >= 8, quote_all: i & 4 != 0, yaml12: i % 5 == 3,
            tagged: i % 3 == 1, prefer_block: i % 5 != 4, ..O::default()
        }).collect()
    }
    pub fn random(rng: &mut Rng) -> O {
        O {
            indent: *rng.pick(&[1, 2, 2, 2, 3, 4, 5, 8, 10]),
            min_fold: *rng.pick(&[0, 4, 32, 32]),
            fold_wrap: *rng.pick(&[0, 1, 5, 10, 20, 80, 80]),
            tagged: rng.chance(1, 4), braces: !rng.chance(1, 5), compact: rng.chance(1, 3), prefer_block: !rng.chance(1, 4),
            quote_all: rng.chance(1, 6), yaml12: rng.chance(1, 4),
        }
    }
}

pub fn emit_impl(v: &SV, o: &O) -> Result<Result<String, String>, String> {
    catch(|| serde_saphyr::to_string_with_options(v, o.options()).map_err(|e| {
        let m = e.to_string();
        if m.contains("non-scalar key") { "err non_scalar_key".to_string() }
        else if m.contains("indent step") { "err invalid_options".to_string() }
        else { format!("err other {}", hex(&m)) }
    }))
}

fn cfg() -> Cfg {
    Cfg { dup: 0, legacy_octal: false, strict_bool: false, ignore_binary: false, no_schema: false,
          budget: Some(serde_saphyr::budget::Budget::default()), limits: serde_saphyr::options::AliasLimits::default() }
}

pub fn parse_any(text: &str) -> Result<Val, String> {
    match catch(|| serde_saphyr::with_deserializer_from_str_with_options(text, cfg().options(), |de| Seed(&Ty::Any).deserialize(de))) {
        Err(p) => Err(format!("panic {p}")),
        Ok(Err(e)) => Err(format!("{}", crate::errs::kind(&e))),
        Ok(Ok(v)) => Ok(v),
    }
}

pub fn parse_typed(text: &str, ty: &Ty) -> Result<Val, String> {
    match catch(|| serde_saphyr::with_deserializer_from_str_with_options(text, cfg().options(), |de| Seed(ty).deserialize(de))) {
        Err(p) => Err(format!("panic {p}")),
        Ok(Err(e)) => Err(format!("{}: {}", crate::errs::kind(&e), crate::errs::unwrap_snippet(&e))),
        Ok(Ok(v)) => Ok(v),
    }
}

/// number of documents `from_multiple` sees (Err = the stream does not parse)
pub fn doc_count(text: &str) -> Result<usize, String> {
    let r = crate::e2e::run_multi(text, &Ty::Any, &cfg());
    if let Some(rest) = r.strip_prefix("ok ") { Ok(rest.split(' ').next().unwrap().parse().unwrap_or(usize::MAX)) } else { Err(r) }
}

// ---------------------------------------------------------------- oracle

/// one oracle verdict: None = property holds on this case
pub struct Fail { pub what: String, pub observed: String, pub expected: String }

/// C13: the emitted text is one document that reads back (untyped and typed) as the value
pub fn check_roundtrip(v: &SV, o: &O) -> Option<Fail> {
    let text = match emit_impl(v, o) {
        Err(p) => return Some(Fail { what: "serializer panicked".into(), observed: p, expected: "no panic".into() }),
        Ok(Err(_)) => return None, // an error is not a wrong document (non-scalar key in flow mapping)
        Ok(Ok(t)) => t,
    };
    let exp = erase(v);
    match doc_count(&text) {
        Ok(1) => {}
        // from_multiple does not count a null document: a value that IS null gives 0 documents (not an emitter matter)
        Ok(0) if exp == P::Null => {}
        Ok(n) => return Some(Fail { what: "from_multiple does not yield exactly one document".into(), observed: format!("{n} documents; text {}", hex(&text)), expected: "1 document".into() }),
        Err(e) => return Some(Fail { what: "emitted text is not a well-formed YAML stream".into(), observed: format!("{e}; text {}", hex(&text)), expected: exp.tokens() }),
    }
    match parse_any(&text) {
        Err(e) => return Some(Fail { what: "emitted text does not parse".into(), observed: format!("{e}; text {}", hex(&text)), expected: exp.tokens() }),
        Ok(val) => {
            let got = P::from_val(&val);
            if !exp.matches(&got) {
                return Some(Fail { what: "untyped tree of the emitted text differs from the value".into(), observed: format!("{}; text {}", got.tokens(), hex(&text)), expected: exp.tokens() });
            }
        }
    }
    if let Some((ty, want)) = typed(v) {
        match parse_typed(&text, &ty) {
            Err(e) => return Some(Fail { what: "typed deserialization of the emitted text fails".into(), observed: format!("{e}; text {}", hex(&text)), expected: want.tokens() }),
            Ok(got) => if !val_matches(&want, &got, v) {
                return Some(Fail { what: "typed deserialization of the emitted text gives a different value".into(), observed: format!("{}; text {}", got.tokens(), hex(&text)), expected: want.tokens() });
            }
        }
    }
    None
}

/// C20: wrapped value under `o` reads as the same data as the bare value under default options.
/// Returns Ok(None) = holds, Ok(Some) = violated, Err = not applicable (the bare value itself does not round-trip: C12/C13 matter)
pub fn check_layout_only(v: &SV, o: &O) -> Result<Option<Fail>, &'static str> {
    let bare = v.bare();
    let bare_text = match emit_impl(&bare, &O::default()) { Ok(Ok(t)) => t, _ => return Err("bare_not_emitted") };
    let bare_tree = match parse_any(&bare_text) { Ok(x) => P::from_val(&x), Err(_) => return Err("bare_not_parsed") };
    if !erase(&bare).matches(&bare_tree) { return Err("bare_not_roundtrip"); }
    let exp = erase(v);
    let text = match emit_impl(v, o) {
        Err(p) => return Ok(Some(Fail { what: "serializer panicked".into(), observed: p, expected: "no panic".into() })),
        Ok(Err(e)) => {
            // the bare value serializes under default options; an error caused by wrappers/options is a layout effect on data
            return Ok(if emit_impl(&bare, o).map(|r| r.is_ok()).unwrap_or(false) && !e.contains("non_scalar_key") {
                Some(Fail { what: "wrappers/options make serialization fail".into(), observed: e, expected: exp.tokens() })
            } else { None });
        }
        Ok(Ok(t)) => t,
    };
    match doc_count(&text) {
        Ok(1) => {}
        Ok(0) if exp == P::Null => {}
        Ok(n) => return Ok(Some(Fail { what: "wrapped value: from_multiple does not yield exactly one document".into(), observed: format!("{n} documents; text {}", hex(&text)), expected: "1 document".into() })),
        Err(e) => return Ok(Some(Fail { what: "wrapped value: emitted text is not a well-formed YAML stream".into(), observed: format!("{e}; text {}", hex(&text)), expected: exp.tokens() })),
    }
    match parse_any(&text) {
        Err(e) => return Ok(Some(Fail { what: "wrapped value: emitted text does not parse".into(), observed: format!("{e}; text {}", hex(&text)), expected: exp.tokens() })),
        Ok(val) => {
            let got = P::from_val(&val);
            if !exp.matches(&got) {
                return Ok(Some(Fail { what: "wrapped value reads as different data than the bare value".into(), observed: format!("{}; text {}", got.tokens(), hex(&text)), expected: exp.tokens() }));
            }
        }
    }
    if let Some((ty, want)) = typed(v) {
        match parse_typed(&text, &ty) {
            Err(e) => return Ok(Some(Fail { what: "wrapped value: typed deserialization fails".into(), observed: format!("{e}; text {}", hex(&text)), expected: want.tokens() })),
            Ok(got) => if !val_matches(&want, &got, v) {
                return Ok(Some(Fail { what: "wrapped value: typed deserialization gives a different value".into(), observed: format!("{}; text {}", got.tokens(), hex(&text)), expected: want.tokens() }));
            }
        }
    }
    Ok(None)
}

/// smaller variants of a value (for shrinking a failing case)
fn shrinks(v: &SV) -> Vec<SV> {
    let mut out: Vec<SV> = Vec::new();
    // replace by a child / unwrap
    for c in v.children() { out.push(c.clone()); }
    let leafs = [SV::Int(1), SV::Str("a".into())];
    if v.size() > 1 { out.extend(leafs.iter().cloned()); }
    // drop elements / shrink one child
    let rebuild_list = |vs: &Vec<SV>, mk: &dyn Fn(Vec<SV>) -> SV, out: &mut Vec<SV>| {
        // never create an empty container: emptiness is a cause of its own
        if vs.len() > 1 { for i in 0..vs.len() { let mut w = vs.clone(); w.remove(i); out.push(mk(w)); } }
        for i in 0..vs.len() { for s in shrinks(&vs[i]) { let mut w = vs.clone(); w[i] = s; out.push(mk(w)); } }
    };
    match v {
        SV::Some(x) => for s in shrinks(x) { out.push(SV::Some(Box::new(s))); },
        SV::Newtype(x) => for s in shrinks(x) { out.push(SV::Newtype(Box::new(s))); },
        SV::NewtypeVariant(n, x) => for s in shrinks(x) { out.push(SV::NewtypeVariant(n, Box::new(s))); },
        SV::FlowSeq(x) => for s in shrinks(x) { out.push(SV::FlowSeq(Box::new(s))); },
        SV::FlowMap(x) => for s in shrinks(x) { out.push(SV::FlowMap(Box::new(s))); },
        SV::SpaceAfter(x) => for s in shrinks(x) { out.push(SV::SpaceAfter(Box::new(s))); },
        SV::Commented(x, c) => {
            for s in shrinks(x) { out.push(SV::Commented(Box::new(s), c.clone())); }
            for s in shrink_str(c) { out.push(SV::Commented(x.clone(), s)); }
        }
        SV::Str(s) => for t in shrink_str(s) { out.push(SV::Str(t)); },
        SV::Char(c) => { out.push(SV::Str(c.to_string())); if *c != 'a' { out.push(SV::Char('a')); } }
        SV::LitStr(s) => { out.push(SV::Str(s.clone())); for t in shrink_str(s) { out.push(SV::LitStr(t)); } }
        SV::FoldStr(s) => { out.push(SV::Str(s.clone())); for t in shrink_str(s) { out.push(SV::FoldStr(t)); } }
        SV::Seq(vs) => rebuild_list(vs, &|w| SV::Seq(w), &mut out),
        SV::Tuple(vs) => rebuild_list(vs, &|w| SV::Tuple(w), &mut out),
        SV::TupleStruct(vs) => rebuild_list(vs, &|w| SV::TupleStruct(w), &mut out),
        SV::TupleVariant(n, vs) => rebuild_list(vs, &|w| SV::TupleVariant(n, w), &mut out),
        SV::Map(k, es) => {
            if es.len() > 1 { for i in 0..es.len() { let mut w = es.clone(); w.remove(i); out.push(SV::Map(*k, w)); } }
            for i in 0..es.len() {
                for s in shrinks(&es[i].0) { let mut w = es.clone(); w[i].0 = s; out.push(SV::Map(*k, w)); }
                for s in shrinks(&es[i].1) { let mut w = es.clone(); w[i].1 = s; out.push(SV::Map(*k, w)); }
            }
        }
        SV::Struct(fs) => {
            if fs.len() > 1 { for i in 0..fs.len() { let mut w = fs.clone(); w.remove(i); out.push(SV::Struct(w)); } }
            for i in 0..fs.len() { for s in shrinks(&fs[i].1) { let mut w = fs.clone(); w[i].1 = s; out.push(SV::Struct(w)); } }
        }
        SV::StructVariant(n, fs) => {
            if fs.len() > 1 { for i in 0..fs.len() { let mut w = fs.clone(); w.remove(i); out.push(SV::StructVariant(n, w)); } }
            for i in 0..fs.len() { for s in shrinks(&fs[i].1) { let mut w = fs.clone(); w[i].1 = s; out.push(SV::StructVariant(n, w)); } }
        }
        _ => {}
    }
    out
}

fn shrink_str(s: &str) -> Vec<String> {
    let cs: Vec<char> = s.chars().collect();
    let mut out = Vec::new();
    if cs.len() > 1 {
        out.push(cs[..cs.len() / 2].iter().collect());
        out.push(cs[cs.len() / 2..].iter().collect());
        for i in 0..cs.len().min(40) { let mut w = cs.clone(); w.remove(i); out.push(w.iter().collect()); }
    }
    out
}

/// identity of a key as the deserializer's duplicate check sees it: the scalar TEXT, whatever its type or quoting
/// (`"true"` and `true`, `"1"` and `1` are the same key) — duplicate-key policy is property C04
fn key_identity(k: &SV) -> String {
    match erase(k) {
        P::Null => "null".into(),
        P::Bool(x) => x.to_string(),
        P::Int(i) => i.to_string(),
        P::Str(s) | P::Fold(s) => s,
        other => other.tokens(),
    }
}
fn has_dup_keys(v: &SV) -> bool {
    v.any(&|x| match x {
        SV::Map(_, es) => { let ks: Vec<String> = es.iter().map(|e| key_identity(&e.0)).collect(); (1..ks.len()).any(|i| ks[..i].contains(&ks[i])) }
        _ => false,
    })
}

thread_local! { static STR_OK: std::cell::RefCell<BTreeMap<String, bool>> = const { std::cell::RefCell::new(BTreeMap::new()) }; }
/// shrinking must stay inside the generator's domain: every plain `Str` leaf round-trips on its own
/// (as root, value and key) — scalar quoting defects belong to C12
fn str_in_domain(s: &str) -> bool {
    if let Some(r) = STR_OK.with(|m| m.borrow().get(s).copied()) { return r; }
    let probe = SV::Seq(vec![SV::Str(s.to_string()), SV::Map(true, vec![(SV::Str(s.to_string()), SV::Str(s.to_string()))])]);
    let r = check_roundtrip(&SV::Str(s.to_string()), &O::default()).is_none() && check_roundtrip(&probe, &O::default()).is_none();
    STR_OK.with(|m| m.borrow_mut().insert(s.to_string(), r));
    r
}
fn strs_in_domain(v: &SV) -> bool { !v.any(&|x| matches!(x, SV::Str(s) if !str_in_domain(s))) }

/// `LitStr("\n")` / `LitStr("")`: their texts (`|` + one empty line, `|-` without content) are pinned by the crate's own tests and
/// are a known class of their own (`litstr-lone-newline`); shrinking must not slide from another cause into these two texts
fn pinned_litstrs(v: &SV) -> usize {
    let mut n = 0;
    fn walk(v: &SV, n: &mut usize) { if matches!(v, SV::LitStr(s) if s == "\n" || s.is_empty()) { *n += 1; } for c in v.children() { walk(c, n); } }
    walk(v, &mut n);
    n
}

fn shrink_case(v: &SV, o: &O, fails: &dyn Fn(&SV, &O) -> bool) -> (SV, O) {
    let mut cur = v.clone();
    let mut co = *o;
    let mut budget = 4000;
    loop {
        let mut progressed = false;
        for cand in shrinks(&cur) {
            if budget == 0 { break; }
            budget -= 1;
            if cand.size() <= cur.size() && cand != cur && !has_dup_keys(&cand) && strs_in_domain(&cand)
                && pinned_litstrs(&cand) <= pinned_litstrs(&cur) && fails(&cand, &co) {
                if cand.size() < cur.size() || cand.tokens().len() < cur.tokens().len() { cur = cand; progressed = true; break; }
            }
        }
        if !progressed || budget == 0 { break; }
    }
    // options towards the default
    let d = O::default();
    let tries: Vec<Box<dyn Fn(&mut O)>> = vec![
        Box::new(move |x| x.indent = d.indent), Box::new(move |x| x.min_fold = d.min_fold), Box::new(move |x| x.fold_wrap = d.fold_wrap),
        Box::new(move |x| x.tagged = d.tagged), Box::new(move |x| x.braces = d.braces), Box::new(move |x| x.compact = d.compact),
        Box::new(move |x| x.prefer_block = d.prefer_block), Box::new(move |x| x.quote_all = d.quote_all), Box::new(move |x| x.yaml12 = d.yaml12),
    ];
    for t in tries { let mut c = co; t(&mut c); if c != co && fails(&cur, &c) { co = c; } }
    (cur, co)
}

/// a mapping key that is itself a one-entry mapping with a null-like key — `? null: z`, `? "": z`, `? "Null": z` (quoted or
/// not): also the one-entry mappings written for enum variants with data / one-field structs whose name is null-like
fn has_null_key_map_key(v: &SV) -> bool {
    fn nullish_name(n: &str) -> bool { n.is_empty() || n == "~" || n.eq_ignore_ascii_case("null") }
    fn nullish(k: &SV) -> bool { match k {
        SV::Unit | SV::None => true,
        SV::Some(v) | SV::Newtype(v) | SV::FlowMap(v) | SV::FlowSeq(v) | SV::SpaceAfter(v) => nullish(v),
        SV::Str(s) | SV::LitStr(s) | SV::FoldStr(s) => nullish_name(s),
        SV::Char(c) => nullish_name(&c.to_string()),
        SV::UnitVariant(_, n) => nullish_name(n),
        _ => false } }
    fn one_null_entry(k: &SV) -> bool { match k {
        SV::Some(v) | SV::Newtype(v) | SV::FlowMap(v) | SV::FlowSeq(v) | SV::SpaceAfter(v) => one_null_entry(v),
        SV::Commented(v, _) => one_null_entry(v),
        SV::Map(_, e) => e.len() == 1 && nullish(&e[0].0),
        SV::Struct(e) => e.len() == 1 && nullish_name(e[0].0),
        SV::NewtypeVariant(n, _) | SV::TupleVariant(n, _) | SV::StructVariant(n, _) => nullish_name(n),
        _ => false } }
    v.any(&|x| matches!(x, SV::Map(_, es) if es.iter().any(|(k, _)| one_null_entry(k))))
}

const BREAKS: [char; 4] = ['\r', '\u{85}', '\u{2028}', '\u{2029}'];

/// Stable ROOT-CAUSE class id of a shrunk failing case.  The case has been minimised (value and option vector:
/// every option still different from the default is needed for the failure), so the features that remain are the
/// cause.  Ordered from the most specific cause to the most general; anything unclassified gets an `other` id
/// (never registered as known).
fn classify(prop: &str, v: &SV, o: &O) -> String {
    let has = |p: &dyn Fn(&SV) -> bool| v.any(p);
    let strs = |p: &dyn Fn(&str) -> bool| v.any(&|x| matches!(x, SV::Str(s) | SV::LitStr(s) | SV::FoldStr(s) if p(s)));
    let is_block = |x: &SV| match x {
        SV::LitStr(_) | SV::FoldStr(_) => true,
        SV::Str(s) => !o.quote_all && o.prefer_block && (s.contains('\n') || s.chars().count() > o.fold_wrap),
        _ => false,
    };
    let block = has(&is_block);
    let flow = has(&|x| matches!(x, SV::FlowSeq(_) | SV::FlowMap(_)));
    let id = |s: &str| format!("{prop}-{s}");
    // options first: every option still different from the default is necessary for the failure
    if o.yaml12 {
        let y11 = |s: &str| matches!(s.to_ascii_lowercase().as_str(), "y" | "yes" | "on" | "n" | "no" | "off");
        if has(&|x| matches!(x, SV::Str(s) if y11(s)) || matches!(x, SV::UnitVariant(_, n) | SV::NewtypeVariant(n, _) | SV::TupleVariant(n, _) | SV::StructVariant(n, _) if y11(n))
                    || matches!(x, SV::Struct(fs) | SV::StructVariant(_, fs) if fs.iter().any(|(n, _)| y11(n)))) { return id("yaml12-plain-yaml11-bool"); }
        return id("yaml12-no-document-start");
    }
    if !o.braces && has(&|x| matches!(x, SV::Seq(e) | SV::Tuple(e) | SV::TupleStruct(e) | SV::TupleVariant(_, e) if e.is_empty())
                              || matches!(x, SV::Map(_, e) if e.is_empty()) || matches!(x, SV::Struct(e) | SV::StructVariant(_, e) if e.is_empty())) {
        return id("empty-no-braces");
    }
    // an implicit (`key: value`) mapping key is limited to 1024 characters by YAML; longer scalar keys / variant names are written
    // as explicit keys (`? key`) since the fix of `long-implicit-key`: a failure with such a key is that class again
    if has(&|x| matches!(x, SV::Map(_, es) if es.iter().any(|(k, _)| matches!(k, SV::Str(t) if t.chars().count() > 1000)))
                 || matches!(x, SV::NewtypeVariant(n, _) | SV::TupleVariant(n, _) | SV::StructVariant(n, _) if n.chars().count() > 1000)
                 || matches!(x, SV::Struct(fs) | SV::StructVariant(_, fs) if fs.iter().any(|(n, _)| n.chars().count() > 1000))) { return id("long-implicit-key"); }
    if o.indent == 1 { return id("indent-step-1"); }
    if o.indent >= 3 { return id("indent-step-ge3"); }
    if o.compact { return id("compact-list-indent"); }
    if has(&|x| matches!(x, SV::Commented(_, c) if c.contains('\0'))) { return id("comment-nul-truncates"); }
    if has(&|x| matches!(x, SV::Commented(_, c) if c.contains(BREAKS))) { return id("comment-cr-injection"); }
    // CR / NEL inside a block scalar (U+2028 / U+2029 are not line breaks for the YAML 1.2 scanner)
    if strs(&|s| s.contains(['\r', '\u{85}'])) && block { return id("litstr-cr"); }
    if strs(&|s| s.contains('\0')) && block { return id("litstr-nul"); }
    if flow && has(&|x| matches!(x, SV::LitStr(_) | SV::FoldStr(_))) { return id("block-string-in-flow"); }
    if flow && has(&|x| matches!(x, SV::TupleVariant(..) | SV::StructVariant(..) | SV::TupleStruct(_) | SV::NewtypeVariant(..))) { return id("variant-in-flow"); }
    if block && has(&|x| matches!(x, SV::SpaceAfter(_))) { return id("space-after-block-string"); }
    if block && strs(&|s| s.trim_end_matches('\n').is_empty()) {
        // two or more line breaks: the `|+` body (repaired); exactly "\n" / "": the pinned texts
        if strs(&|s| s.trim_end_matches('\n').is_empty() && s.len() >= 2) { return id("block-scalar-only-newlines"); }
        return id("litstr-lone-newline");
    }
    if block && has(&|x| matches!(x, SV::TupleStruct(_) | SV::TupleVariant(..))) { return id("block-scalar-after-tuple-dash"); }
    if has(&|x| matches!(x, SV::UnitVariant(_, n) if n.chars().count() > o.fold_wrap)) { return id("unit-variant-auto-folded"); }
    if block && strs(&|s| s.trim_end_matches('\n').split('\n').find(|l| !l.is_empty()).map(|l| l.starts_with(' ')).unwrap_or(false)) { return id("block-scalar-indent-indicator"); }
    if has(&|x| matches!(x, SV::FoldStr(_))) { return id("foldstr-alters-data"); }
    // `Some(empty mapping)` as a key: the typed deserializer reads an empty mapping in key position as `None` for `Option<T>`
    // (de.rs `deserialize_option`, `key_empty_map_node`): a rule of the reader, not of the emitter
    if has(&|x| matches!(x, SV::Map(_, es) if es.iter().any(|(k, _)| {
        fn empty_map_under_some(k: &SV, under: bool) -> bool { match k {
            SV::Some(v) => empty_map_under_some(v, true),
            SV::Newtype(v) | SV::FlowMap(v) | SV::FlowSeq(v) | SV::SpaceAfter(v) => empty_map_under_some(v, under),
            SV::Map(_, e) => under && e.is_empty(),
            SV::Struct(e) => under && e.is_empty(),
            _ => false } }
        empty_map_under_some(k, false) }))) {
        return id("option-empty-map-key");
    }
    // a key that is a one-entry mapping with a null-like key (`? null: z`): the deserializer takes it for an "explicit empty key
    // captured as a one-entry mapping { null: V }" (de.rs, MapAccess::next_key_seed): key = empty mapping, value = V, the real value is
    // dropped — a rule of the reader (also for the flow form `? {null: z}`), not of the emitter
    if has_null_key_map_key(v) { return id("null-key-map-as-key"); }
    if has(&|x| matches!(x, SV::Map(_, es) if es.iter().any(|(k, _)| k.any(&|y| matches!(y, SV::Seq(_) | SV::Tuple(_) | SV::TupleStruct(_) | SV::Map(..) | SV::Struct(_) | SV::NewtypeVariant(..) | SV::TupleVariant(..) | SV::StructVariant(..) | SV::Commented(..)))))) {
        return id("complex-key");
    }
    // the name of a variant with data that reads as a YAML 1.1 boolean, written plain as the key of `Variant: payload`
    {
        let y11 = |s: &str| matches!(s.to_ascii_lowercase().as_str(), "y" | "yes" | "on" | "n" | "no" | "off");
        if has(&|x| matches!(x, SV::NewtypeVariant(n, _) | SV::TupleVariant(n, _) | SV::StructVariant(n, _) if y11(n))) { return id("variant-key-yaml11-bool"); }
        if o.tagged && has(&|x| matches!(x, SV::UnitVariant(_, n) if y11(n))) { return id("tagged-variant-yaml11-bool"); }
    }
    if has(&|x| matches!(x, SV::TupleVariant(_, e) if e.is_empty())) { return id("tuple-variant-empty"); }
    if has(&|x| matches!(x, SV::StructVariant(_, e) if e.is_empty())) { return id("struct-variant-empty"); }
    if has(&|x| matches!(x, SV::TupleStruct(e) if e.is_empty())) { return id("tuple-struct-empty"); }
    if has(&|x| matches!(x, SV::TupleVariant(..))) { return id("tuple-variant-position"); }
    if has(&|x| matches!(x, SV::StructVariant(..))) { return id("struct-variant-position"); }
    if has(&|x| matches!(x, SV::TupleStruct(_))) { return id("tuple-struct-position"); }
    // unclassified: name the shape
    let mut kinds: Vec<&'static str> = Vec::new();
    fn walk(v: &SV, kinds: &mut Vec<&'static str>) { if !kinds.contains(&v.kind()) { kinds.push(v.kind()); } for c in v.children() { walk(c, kinds); } }
    walk(v, &mut kinds);
    let mut s = format!("{prop}-other-{}", kinds.join("+"));
    let d = O::default();
    if o.quote_all != d.quote_all { s.push_str("@quote_all"); }
    if o.tagged != d.tagged { s.push_str("@tagged"); }
    if o.prefer_block != d.prefer_block { s.push_str("@no_prefer_block"); }
    if o.min_fold != d.min_fold || o.fold_wrap != d.fold_wrap { s.push_str("@fold_params"); }
    s
}

// ---------------------------------------------------------------- generators

const SAFE_STRS: [&str; 6] = ["abc", "k", "x1", "hello", "zz9", "name"];
const QUOTED_STRS: [&str; 22] = ["", "true", "y", "no", "null", "~", "12", "1.5", "0x1F", "a b", "a: b", "x#y", "a #b", "a,b", "-", "- a", "it's", "a\nb", "tab\there",
                                 "[x]", "key:", "é日本"];
const LONG_TEXT: &str = "lorem ipsum dolor sit amet consectetur adipiscing elit sed do eiusmod tempor incididunt ut labore";
const LONG_UNIT: &str = "lorem_ipsum_dolor sit amet consectetur adipiscing elit sed do eiusmod tempor incididunt ut labore";
const FIELDS: [&str; 6] = ["a", "b", "c", "k", "f1", "name"];
const VARIANTS: [&str; 4] = ["Va", "Vb", "Unit", "Data"];

fn leaves(wrappers: bool) -> Vec<SV> {
    let mut v = vec![SV::Unit, SV::Bool(true), SV::Int(7), SV::Int(-3), SV::Str("abc".into()), SV::Str("a b".into()), SV::Str("true".into()), SV::None,
                     SV::UnitVariant("E", "Va"), SV::Seq(vec![]), SV::TupleStruct(vec![]), SV::Map(true, vec![]), SV::Map(false, vec![]), SV::Struct(vec![]),
                     SV::TupleVariant("Tv", vec![]), SV::StructVariant("Sv", vec![])];
    if wrappers { v.push(SV::LitStr("lit".into())); v.push(SV::FoldStr("fold".into())); v.push(SV::LitStr("l1\nl2\n".into())); v.push(SV::FoldStr("f1\nf2".into())); }
    v
}

type Un = fn(SV) -> SV;
fn unaries(wrappers: bool) -> Vec<Un> {
    let mut u: Vec<Un> = vec![
        |x| SV::Some(Box::new(x)), |x| SV::Newtype(Box::new(x)), |x| SV::NewtypeVariant("Nv", Box::new(x)), |x| SV::Seq(vec![x]), |x| SV::Tuple(vec![x]),
        |x| SV::TupleStruct(vec![x]), |x| SV::TupleVariant("Tv", vec![x]), |x| SV::Struct(vec![("f", x)]), |x| SV::StructVariant("Sv", vec![("f", x)]),
    ];
    if wrappers {
        u.push(|x| SV::FlowSeq(Box::new(x)));
        u.push(|x| SV::FlowMap(Box::new(x)));
        u.push(|x| SV::Commented(Box::new(x), "note".into()));
        u.push(|x| SV::SpaceAfter(Box::new(x)));
    }
    u
}
type Bin = fn(SV, SV) -> SV;
fn binaries() -> Vec<Bin> {
    vec![|x, y| SV::Seq(vec![x, y]), |x, y| SV::TupleStruct(vec![x, y]), |x, y| SV::TupleVariant("Tv", vec![x, y]), |k, v| SV::Map(true, vec![(k, v)]),
         |k, v| SV::Map(false, vec![(k, v)]), |x, y| SV::Struct(vec![("f", x), ("g", y)]), |x, y| SV::StructVariant("Sv", vec![("f", x), ("g", y)])]
}
type Ter = fn(SV, SV, SV) -> SV;
fn ternaries() -> Vec<Ter> {
    vec![|x, y, z| SV::Seq(vec![x, y, z]), |x, y, z| SV::Struct(vec![("f", x), ("g", y), ("h", z)]), |x, y, z| SV::TupleVariant("Tv", vec![x, y, z])]
}

/// all trees with exactly n nodes (n ≤ 4), by number of nodes
fn trees(n: usize, wrappers: bool, memo: &mut Vec<Vec<SV>>) {
    while memo.len() <= n {
        let k = memo.len();
        let mut out: Vec<SV> = Vec::new();
        if k == 0 { memo.push(out); continue; }
        if k == 1 { out = leaves(wrappers); memo.push(out); continue; }
        for u in unaries(wrappers) { for t in &memo[k - 1] { out.push(u(t.clone())); } }
        for a in 1..k - 1 {
            let c = k - 1 - a;
            if c < 1 { continue; }
            for bi in binaries() { for x in &memo[a] { for y in &memo[c] { out.push(bi(x.clone(), y.clone())); } } }
        }
        if k >= 4 {
            for a in 1..k - 2 { for c in 1..k - 1 - a { let d = k - 1 - a - c; if d < 1 { continue; }
                for te in ternaries() { for x in &memo[a] { for y in &memo[c] { for z in &memo[d] { out.push(te(x.clone(), y.clone(), z.clone())); } } } } } }
        }
        memo.push(out);
    }
}

/// representative children for the sibling-interaction family
fn reps(wrappers: bool) -> Vec<SV> {
    let s = |x: &str| SV::Str(x.to_string());
    let mut v = vec![
        SV::Int(1), s("abc"), s("a b"), SV::None, SV::UnitVariant("E", "Va"), SV::Seq(vec![]), SV::Map(true, vec![]), SV::Map(false, vec![]),
        SV::Seq(vec![SV::Int(1), SV::Int(2)]), SV::Seq(vec![SV::Seq(vec![SV::Int(1)])]), SV::Map(true, vec![(s("k"), SV::Int(1))]),
        SV::Map(false, vec![(s("k"), SV::Int(1)), (s("m"), SV::Int(2))]), SV::Struct(vec![("p", SV::Seq(vec![SV::Int(1)])), ("q", SV::Int(2))]),
        SV::Seq(vec![SV::Map(true, vec![(s("k"), SV::Int(1)), (s("m"), SV::Int(2))])]), SV::NewtypeVariant("Nv", Box::new(SV::Int(1))),
        SV::NewtypeVariant("Nv", Box::new(SV::Seq(vec![SV::Int(1)]))), SV::NewtypeVariant("Nv", Box::new(SV::Struct(vec![("p", SV::Int(1))]))),
        SV::TupleVariant("Tv", vec![SV::Int(1), SV::Int(2)]), SV::StructVariant("Sv", vec![("p", SV::Int(1))]), SV::TupleStruct(vec![SV::Int(1), SV::Int(2)]),
        SV::Some(Box::new(SV::Seq(vec![SV::Int(1)]))), SV::Map(true, vec![(SV::Seq(vec![SV::Int(1)]), SV::Int(2))]), s("l1\nl2"),
    ];
    if wrappers {
        v.extend([
            SV::FlowSeq(Box::new(SV::Seq(vec![SV::Int(1), s("a")]))), SV::FlowMap(Box::new(SV::Map(true, vec![(s("k"), SV::Int(1))]))),
            SV::Commented(Box::new(SV::Int(1)), "note".into()), SV::Commented(Box::new(SV::Seq(vec![SV::Int(1)])), "note".into()),
            SV::SpaceAfter(Box::new(SV::Int(1))), SV::SpaceAfter(Box::new(SV::Seq(vec![SV::Int(1)]))), SV::LitStr("l1\nl2\n".into()), SV::FoldStr("f1 f2\nf3".into()),
            SV::SpaceAfter(Box::new(SV::LitStr("lit".into()))), SV::Commented(Box::new(SV::LitStr("lit".into())), "c".into()),
            SV::FlowSeq(Box::new(SV::Seq(vec![SV::Seq(vec![SV::Int(1)]), SV::Map(true, vec![(s("k"), SV::Int(1))])]))),
            SV::FlowSeq(Box::new(SV::Int(1))),
        ]);
    }
    v
}

fn parents() -> Vec<(&'static str, fn(SV, SV) -> SV)> {
    fn s(x: &str) -> SV { SV::Str(x.to_string()) }
    vec![
        ("seq", |a, b| SV::Seq(vec![a, b])),
        ("map", |a, b| SV::Map(true, vec![(s("a"), a), (s("b"), b)])),
        ("map_unknown", |a, b| SV::Map(false, vec![(s("a"), a), (s("b"), b)])),
        ("struct", |a, b| SV::Struct(vec![("a", a), ("b", b)])),
        ("tuple_struct", |a, b| SV::TupleStruct(vec![a, b])),
        ("tuple_variant", |a, b| SV::TupleVariant("Tv", vec![a, b])),
        ("struct_variant", |a, b| SV::StructVariant("Sv", vec![("a", a), ("b", b)])),
        ("key_value", |a, b| SV::Map(true, vec![(a, b)])),
        ("two_keys", |a, b| SV::Map(true, vec![(a, SV::Int(1)), (b, SV::Int(2))])),
        ("seq_in_seq", |a, b| SV::Seq(vec![SV::Seq(vec![a, b]), SV::Int(9)])),
        ("map_in_seq", |a, b| SV::Seq(vec![SV::Map(true, vec![(s("a"), a), (s("b"), b)]), SV::Int(9)])),
        ("seq_in_map", |a, b| SV::Map(true, vec![(s("k"), SV::Seq(vec![a, b])), (s("z"), SV::Int(9))])),
        ("map_in_map", |a, b| SV::Map(true, vec![(s("k"), SV::Map(true, vec![(s("a"), a), (s("b"), b)])), (s("z"), SV::Int(9))])),
        ("newtype_variant_seq", |a, b| SV::NewtypeVariant("Nv", Box::new(SV::Seq(vec![a, b])))),
        ("newtype_variant_map", |a, b| SV::NewtypeVariant("Nv", Box::new(SV::Struct(vec![("a", a), ("b", b)])))),
        ("variant_in_map", |a, b| SV::Struct(vec![("v", SV::NewtypeVariant("Nv", Box::new(a))), ("w", b)])),
        ("variant_in_seq", |a, b| SV::Seq(vec![SV::NewtypeVariant("Nv", Box::new(a)), b])),
        ("struct_variant_in_seq", |a, b| SV::Seq(vec![SV::StructVariant("Sv", vec![("a", a)]), b])),
        ("struct_variant_in_map", |a, b| SV::Struct(vec![("v", SV::StructVariant("Sv", vec![("a", a)])), ("w", b)])),
    ]
}

struct G<'r> { rng: &'r mut Rng, wrappers: bool, adversarial: bool }

impl<'r> G<'r> {
    /// a string whose bare scalar round trip works at the root, as a value and as a key (scalar defects are C12's)
    fn string(&mut self) -> String {
        for _ in 0..8 {
            let s = self.string_raw();
            if str_in_domain(&s) { return s; }
        }
        "abc".to_string()
    }
    fn string_raw(&mut self) -> String {
        let r = self.rng.below(20);
        if r < 11 { (*self.rng.pick(&SAFE_STRS)).to_string() }
        else if r < 16 { (*self.rng.pick(&QUOTED_STRS)).to_string() }
        else if r < 18 { LONG_TEXT[..20 + self.rng.below(LONG_TEXT.len() - 20)].to_string() }
        else { let n = 1 + self.rng.below(5); (0..n).map(|_| *self.rng.pick(&['a', 'b', 'z', '0', '9', ' ', ':', '#', '-', '\n', 'é'])).collect() }
    }
    fn comment(&mut self) -> String {
        if !self.adversarial { return (*self.rng.pick(&["note", "a comment", "x: y", "# again", ""])).to_string(); }
        let base = *self.rng.pick(&["note", "c", "two words", "k: v", "- item", "[a, b]", "{a: b}", "# #", "'q' \"d\"", "%YAML", "--- x", "...", "*alias &anchor !tag", "|", ">", "?"]);
        let brk = *self.rng.pick(&["", "", "", "\n", "\n", "\r", "\r\n", "\u{85}", "\u{2028}", "\u{2029}", "\t", "\u{0}", "\u{feff}"]);
        let tail = *self.rng.pick(&["", "injected: 2", "- x", "more", "# h", "  indented: 1", "k: [1, 2]"]);
        format!("{base}{brk}{tail}")
    }
    fn block_text(&mut self) -> String {
        let pieces = ["word", "two words", "  lead", "trail  ", "", "x: y", "# hash", "- dash", "a  b", "averyveryveryveryveryveryveryveryveryverylongwordwithoutanyspaces", "é日本",
                      "tab\tin", "\ttab", "a \nb", "a\rb", "cr\r", "nel\u{85}x", "ls\u{2028}x", "---", "...", "%x", "|", "'", "\"", "key:", " "];
        let n = 1 + self.rng.below(4);
        let mut s = String::new();
        for i in 0..n {
            if i > 0 { s.push_str(*self.rng.pick(&["\n", "\n", " ", "\n\n", " \n", "\n "])); }
            let p = if self.adversarial { *self.rng.pick(&pieces) } else { *self.rng.pick(&pieces[..10]) };
            s.push_str(p);
            if self.rng.chance(1, 6) { s.push(' '); s.push_str(LONG_TEXT); }
        }
        for _ in 0..*self.rng.pick(&[0usize, 0, 0, 1, 1, 2, 3]) { s.push('\n'); }
        s
    }
    fn key(&mut self, depth: usize) -> SV {
        match self.rng.below(12) {
            0..=6 => SV::Str((*self.rng.pick(&SAFE_STRS)).to_string()),
            7 => SV::Int(self.rng.below(50) as i64),
            8 => SV::Str(self.string()),
            9 => SV::Bool(self.rng.chance(1, 2)),
            _ => if depth < 3 { self.value(depth + 2) } else { SV::Int(5) },
        }
    }
    fn distinct_entries(&mut self, n: usize, depth: usize) -> Vec<(SV, SV)> {
        let mut es: Vec<(SV, SV)> = Vec::new();
        let mut seen: Vec<String> = Vec::new();
        for _ in 0..n {
            let k = self.key(depth);
            let t = key_identity(&k);
            if seen.contains(&t) { continue; }
            seen.push(t);
            let v = self.value(depth + 1);
            es.push((k, v));
        }
        es
    }
    fn fields(&mut self, depth: usize) -> Vec<(&'static str, SV)> {
        let n = self.rng.below(4);
        let mut names: Vec<&'static str> = FIELDS.to_vec();
        (0..n).map(|_| { let i = self.rng.below(names.len()); (names.remove(i), self.value(depth + 1)) }).collect()
    }
    fn list(&mut self, depth: usize) -> Vec<SV> { let n = self.rng.below(4); (0..n).map(|_| self.value(depth + 1)).collect() }
    fn leaf(&mut self) -> SV {
        match self.rng.below(9) {
            0 => SV::Unit, 1 => SV::Bool(self.rng.chance(1, 2)), 2 | 3 => SV::Int(self.rng.below(200) as i64 - 50), 4 | 5 | 6 => SV::Str(self.string()),
            7 => SV::None, _ => SV::UnitVariant(*self.rng.pick(&["E", "Kind"]), *self.rng.pick(&VARIANTS)),
        }
    }
    fn value(&mut self, depth: usize) -> SV {
        if self.wrappers && depth < 6 && self.rng.chance(1, 4) {
            return match self.rng.below(8) {
                0 => SV::FlowSeq(Box::new(self.value(depth + 1))),
                1 => SV::FlowMap(Box::new(self.value(depth + 1))),
                2 | 3 => { let c = self.comment(); SV::Commented(Box::new(self.value(depth + 1)), c) }
                4 => SV::SpaceAfter(Box::new(self.value(depth + 1))),
                5 | 6 => SV::LitStr(self.block_text()),
                _ => SV::FoldStr(self.block_text()),
            };
        }
        if depth >= 4 || self.rng.chance(2, 5) { return self.leaf(); }
        match self.rng.below(14) {
            0 => SV::Some(Box::new(self.value(depth + 1))),
            1 => SV::Newtype(Box::new(self.value(depth + 1))),
            2 | 3 => SV::Seq(self.list(depth)),
            4 => SV::Tuple(self.list(depth)),
            5 => SV::TupleStruct(self.list(depth)),
            6 | 7 => { let n = self.rng.below(4); let k = self.rng.chance(3, 4); SV::Map(k, self.distinct_entries(n, depth)) }
            8 | 9 => SV::Struct(self.fields(depth)),
            10 => SV::NewtypeVariant(*self.rng.pick(&VARIANTS), Box::new(self.value(depth + 1))),
            11 => SV::TupleVariant(*self.rng.pick(&VARIANTS), self.list(depth)),
            12 => SV::StructVariant(*self.rng.pick(&VARIANTS), self.fields(depth)),
            _ => self.leaf(),
        }
    }
}

// ---------------------------------------------------------------- run

struct Ctx {
    sink: Sink,
    prop: &'static str,
    oracle: Vec<serde_json::Value>,
    per_id: BTreeMap<String, usize>,
    texts: std::collections::BTreeSet<String>,
    distinct: std::collections::BTreeSet<String>,
    erased: std::collections::BTreeSet<String>,
    minimal_seen: std::collections::BTreeSet<String>,
    per_id_records: BTreeMap<String, usize>,
}

impl Ctx {
    /// a hand-written text for the reference reader vs the real parser (the rule under validation is not reachable
    /// through emitted texts: since the fix of `long-implicit-key` the emitter writes no implicit key above 1024 characters)
    fn read_text(&mut self, family: &str, text: &str) {
        if !self.texts.insert(text.to_string()) { return; }
        let single = matches!(doc_count(text), Ok(0) | Ok(1));
        let imp = match parse_any(text) { Ok(val) if single => format!("some {}", P::from_val(&val).tokens()), _ => "none".to_string() };
        self.sink.count(&format!("family.{family}"));
        self.sink.count(&format!("read.{}", imp.split(' ').next().unwrap()));
        self.sink.case(&format!("emit read {}", hex(text)), &imp);
    }

    fn case(&mut self, family: &str, v: &SV, o: &O) {
        let r = emit_impl(v, o);
        let ans = match &r { Err(p) => format!("panic {}", hex(p)), Ok(Err(e)) => e.clone(), Ok(Ok(t)) => format!("ok {}", hex(t)) };
        self.sink.count(&format!("family.{family}"));
        self.sink.count(&format!("result.{}", ans.split(' ').next().unwrap()));
        self.sink.count(&format!("root.{}", v.kind()));
        if self.distinct.insert(v.tokens()) && v.size() > 1 { self.sink.count("distinct_nontrivial"); }
        self.sink.case(&format!("emit ser {} | {}", o.tokens(), v.tokens()), &ans);
        if let Ok(Ok(text)) = &r {
            // (ii) reference reader vs real parser, once per distinct text
            // texts with an EMPTY complex key (`? ` directly followed by `:` or a line break; only produced by the
            // empty-tuple-struct / empty-without-braces defects) are not used to validate the reader: the
            // external parser reads `? : x` idiosyncratically (key = empty mapping, second `: y` ignored)
            let empty_key = text.contains("? :") || text.contains("? \n") || text.ends_with("? ");
            if empty_key { self.sink.count("read.skipped_empty_complex_key"); }
            // a flow collection left open at a line end (only produced by the block-string-inside-flow and
            // variant-inside-flow defects): the external parser's multi-line flow folding is not formalised
            let open_flow = text.lines().any(flow_left_open);
            if open_flow { self.sink.count("read.skipped_multiline_flow"); }
            // random LARGE trees: only documents that read back as the value validate the reader (the many
            // broken outputs of large trees exercise idiosyncrasies of the external parser around complex keys that
            // the small exhaustive / sibling families — compared on ALL their texts, broken or not — do not reach)
            let random_broken = family.starts_with("random") && v.size() > 6 && check_roundtrip(v, o).is_some();
            if random_broken { self.sink.count("read.skipped_random_large_broken"); }
            // a key that is a one-entry mapping with a null-like key: the external deserializer takes it for an "explicit empty
            // key" (known reader rule `null-key-map-as-key`), the reference reader does not
            let null_key_map = has_null_key_map_key(v);
            if null_key_map { self.sink.count("read.skipped_null_key_map_key"); }
            if !empty_key && !open_flow && !random_broken && !null_key_map && self.texts.insert(text.clone()) {
                // a null document is not counted by from_multiple (0 documents); two or more = not one document
                let single = matches!(doc_count(text), Ok(0) | Ok(1));
                let imp = match parse_any(text) { Ok(val) if single => format!("some {}", P::from_val(&val).tokens()), _ => "none".to_string() };
                self.sink.count(&format!("read.{}", imp.split(' ').next().unwrap()));
                self.sink.case(&format!("emit read {}", hex(text)), &imp);
            }
        }
        // erase (Rust mirror) vs Lean `erase`
        if self.distinct.contains(&v.tokens()) && self.erased.insert(v.tokens()) {
            self.sink.case(&format!("emit erase {}", v.tokens()), &erase(v).tokens());
        }
        // (iii) oracle
        if has_dup_keys(v) { self.sink.count("oracle.skipped_duplicate_keys"); return; }
        let prop = self.prop;
        let fail = if prop == "C13" { check_roundtrip(v, o) } else {
            match check_layout_only(v, o) { Ok(f) => f, Err(why) => { self.sink.count(&format!("oracle.not_applicable.{why}")); None } }
        };
        match fail {
            None => self.sink.count("oracle.pass"),
            Some(_) => {
                let fails = |x: &SV, y: &O| -> bool {
                    if prop == "C13" { check_roundtrip(x, y).is_some() } else { matches!(check_layout_only(x, y), Ok(Some(_))) }
                };
                let (mv, mo) = shrink_case(v, o, &fails);
                let f = if prop == "C13" { check_roundtrip(&mv, &mo) } else { check_layout_only(&mv, &mo).ok().flatten() };
                let Some(f) = f else { return; };
                let id = classify(prop, &mv, &mo);
                self.sink.count(&format!("oracle.fail.{id}"));
                let n = self.per_id.entry(id.clone()).or_insert(0);
                *n += 1;
                // one record per distinct minimal case, at most 6 per class
                let key = format!("{} | {}", mo.tokens(), mv.tokens());
                if self.minimal_seen.insert(key) && self.per_id_records.entry(id.clone()).or_insert(0).clone() < 6 {
                    *self.per_id_records.get_mut(&id).unwrap() += 1;
                    self.oracle.push(serde_json::json!({
                        "id": id, "what": f.what, "input": format!("emit ser {} | {}", mo.tokens(), mv.tokens()),
                        "original": format!("emit ser {} | {}", o.tokens(), v.tokens()),
                        "observed": f.observed, "expected": f.expected,
                    }));
                }
            }
        }
    }
}

/// more `[` / `{` than `]` / `}` on the line, outside quoted scalars and comments
fn flow_left_open(line: &str) -> bool {
    let mut bal: i32 = 0;
    let mut q: Option<char> = None;
    let mut prev = ' ';
    for c in line.chars() {
        match q {
            Some(qc) => { if c == qc && !(qc == '"' && prev == '\\') { q = None; } }
            None => match c {
                '"' | '\'' if prev == ' ' || prev == '[' || prev == '{' || prev == ',' || prev == ':' => q = Some(c),
                '#' if prev == ' ' => break,
                '[' | '{' => bal += 1,
                ']' | '}' => bal -= 1,
                _ => {}
            },
        }
        prev = c;
    }
    bal > 0
}

fn witnesses() -> Vec<(SV, O)> {
    let d = O::default();
    let s = |x: &str| SV::Str(x.to_string());
    vec![
        // C20-comment-cr-injection
        (SV::Struct(vec![("xn", SV::Commented(Box::new(SV::Int(1)), "c\rinjected: 2".into()))]), d),
        (SV::Commented(Box::new(SV::Int(1)), "c\rinjected: 2".into()), d),
        // newline is sanitised
        (SV::Struct(vec![("xn", SV::Commented(Box::new(SV::Int(1)), "c\ninjected: 2".into()))]), d),
        // C20-litstr-cr
        (SV::LitStr("a\rb".into()), d),
        (SV::Struct(vec![("t", SV::LitStr("a\rb".into())), ("u", SV::Int(1))]), d),
        (SV::FoldStr("a\rb and some more words to get over the minimum".into()), d),
        // C20-foldstr-alters-data
        (SV::FoldStr("a \nb and some more words to get over the minimum".into()), d),
        (SV::Struct(vec![("t", SV::FoldStr("a \nb".into()))]), d),
        // regression witnesses of the repaired classes (each fails again under its old id when its fix is reverted)
        (SV::Tuple(vec![SV::Commented(Box::new(SV::Bool(true)), "\0".into()), SV::Int(45)]), d),                       // comment-nul-truncates
        (SV::Struct(vec![("t", SV::LitStr("a\0b".into())), ("u", SV::Int(1))]), d),                                    // litstr-nul
        (SV::Struct(vec![("t", SV::LitStr("\n\n".into())), ("u", SV::Int(1))]), d),                                    // block-scalar-only-newlines
        (SV::FlowSeq(Box::new(SV::Seq(vec![SV::LitStr("l".into())]))), d),                                             // block-string-in-flow
        (SV::FlowMap(Box::new(SV::Struct(vec![("k", SV::NewtypeVariant("Nv", Box::new(SV::Int(1))))]))), d),            // variant-in-flow
        (SV::Struct(vec![("k", SV::TupleStruct(vec![SV::LitStr("a\nb".into()), SV::Int(1)]))]), d),                    // block-scalar-after-tuple-dash
        (SV::Seq(vec![SV::Struct(vec![("k", SV::SpaceAfter(Box::new(SV::UnitVariant("E", LONG_UNIT))))])]), d),        // unit-variant-auto-folded
        // transparent cases
        (SV::FlowSeq(Box::new(SV::Seq(vec![SV::UnitVariant("Axis", "X"), SV::UnitVariant("Axis", "Y")]))), O { tagged: true, ..d }), // tagged-variant-yaml11-bool (seed C20/3)
        (SV::Struct(vec![("k", SV::UnitVariant("Axis", "Off")), ("m", SV::NewtypeVariant("Y", Box::new(SV::Int(1))))]), O { tagged: true, ..d }), // + variant-key-yaml11-bool
        (SV::Struct(vec![("ports", SV::FlowSeq(Box::new(SV::Seq(vec![SV::Int(8080), SV::Int(8081)])))), ("note", SV::LitStr("line 1\nline 2".into())), ("s", SV::SpaceAfter(Box::new(s("x")))), ("z", SV::Int(1))]), d),
    ]
}

/// names of enum variants and struct fields that LOOK LIKE something else: YAML 1.1 / 1.2 booleans and nulls, numbers, the
/// merge key, document markers, indicators, `key: value` texts, names with a leading / trailing blank, the empty name
const LOOKALIKE_NAMES: [&str; 32] = ["Y", "N", "Yes", "No", "On", "Off", "y", "n", "yes", "on", "off", "True", "False", "true", "Null", "null", "~",
    "1", "1.5", "0x1F", "<<", "---", "- a", "a: b", " lead", "trail ", "", "a #b", "[x]", "Ok", "a,b", "a:b"];

/// a look-alike name in every role (unit / newtype / tuple / struct variant, struct field) and every position (root, sequence
/// item, mapping value, mapping key, payload of another variant, inside a flow collection)
fn name_shapes(n: &'static str, wrappers: bool) -> Vec<SV> {
    let i = |k: i64| SV::Int(k);
    let uv = || SV::UnitVariant("Axis", n);
    let roles: Vec<SV> = vec![
        uv(),
        SV::NewtypeVariant(n, Box::new(i(1))),
        SV::NewtypeVariant(n, Box::new(SV::Seq(vec![i(1)]))),
        SV::TupleVariant(n, vec![i(1), i(2)]),
        SV::StructVariant(n, vec![("a", i(1))]),
        SV::Struct(vec![(n, i(1)), ("zz", i(2))]),
        SV::StructVariant("Sv", vec![(n, i(1))]),
        SV::Struct(vec![("f", uv()), (n, uv())]),
    ];
    let mut out: Vec<SV> = Vec::new();
    for r in &roles {
        let b = |x: &SV| Box::new(x.clone());
        let positions: Vec<SV> = vec![
            r.clone(),                                                        // root
            SV::Seq(vec![r.clone(), SV::UnitVariant("Axis", "X")]),           // sequence item
            SV::Struct(vec![("k", r.clone()), ("m", i(0))]),                  // mapping value
            SV::Map(true, vec![(r.clone(), i(1))]),                           // mapping key
            SV::Map(false, vec![(SV::Str("k".into()), SV::Some(b(r)))]),      // Option in a map of unknown length
            SV::NewtypeVariant("Nv", b(r)),                                   // payload of another variant
            SV::TupleVariant("Tv", vec![r.clone(), i(3)]),
            SV::Seq(vec![SV::Seq(vec![r.clone()])]),
        ];
        out.extend(positions.iter().cloned());
        if wrappers {
            out.push(SV::FlowSeq(b(&SV::Seq(vec![r.clone(), i(1)]))));
            out.push(SV::FlowMap(b(&SV::Struct(vec![("k", r.clone())]))));
            out.push(SV::Struct(vec![("k", SV::Commented(b(r), "note".into())), ("m", SV::SpaceAfter(b(r)))]));
            out.push(SV::Seq(vec![SV::FlowSeq(b(&SV::Seq(vec![r.clone()]))), r.clone()]));
        }
    }
    out
}

/// option vectors for the name family: every combination of tagged_enums / quote_all / yaml_12, plus layout options
fn name_opts() -> Vec<O> {
    let d = O::default();
    let mut v = Vec::new();
    for t in [false, true] { for q in [false, true] { for y in [false, true] { v.push(O { tagged: t, quote_all: q, yaml12: y, ..d }); } } }
    v.push(O { tagged: true, indent: 4, compact: true, ..d });
    v.push(O { tagged: true, prefer_block: false, fold_wrap: 5, ..d });
    v
}

/// texts around the limit of implicit keys (the `:` must follow within 1024 characters of the start of the key, on its line):
/// plain / quoted / multi-byte keys of 1023..1026 characters at the root, nested, after a dash, as a later entry, as a variant
/// key, with blanks before the colon; the explicit and the flow forms of the same keys (no limit)
fn long_key_texts() -> Vec<String> {
    let mut out = Vec::new();
    for n in [1023usize, 1024, 1025, 1026, 2000] {
        let k = "k".repeat(n);
        out.push(format!("{k}: 1\n"));
        out.push(format!("\"{}\": 1\n", "k".repeat(n - 2)));
        out.push(format!("'{}': 1\n", "k".repeat(n - 2)));
        out.push(format!("\"{}\\t\": 1\n", "k".repeat(n - 4)));
        out.push(format!("a:\n  {k}: 1\n"));
        out.push(format!("a: 0\n{k}: 1\n"));
        out.push(format!("- {k}: 1\n"));
        out.push(format!("- a: 0\n  {k}:\n    - 1\n"));
        out.push(format!("{}: 1\n", "\u{e9}".repeat(n)));
        out.push(format!("{} : 1\n", "k".repeat(n - 1)));
        out.push(format!("{}  : 1\n", "k".repeat(n - 2)));
        out.push(format!("a:\n  {k}:\n    - 1\n"));
        out.push(format!("? {k}\n: 1\n"));
        out.push(format!("- ? {k}\n  : 1\n"));
        out.push(format!("{{{k}: 1}}\n"));
        out.push(format!("[{k}: 1]\n"));
        out.push(format!("{k}\n"));
        out.push(format!("- {k}\n- \"{k}\"\n"));
        out.push(format!("a: {k}\n"));
    }
    out
}

/// a name of `n` characters `c` (variant / field names are `&'static str`)
fn long_name(c: char, n: usize) -> &'static str { Box::leak(c.to_string().repeat(n).into_boxed_str()) }

/// C13 regression witnesses: one per repaired defect class (each fails again under its old id when its fix is reverted)
fn witnesses13() -> Vec<(SV, O)> {
    let d = O::default();
    let i = |n: i64| SV::Int(n);
    let l12 = || SV::Seq(vec![SV::Int(1), SV::Int(2)]);
    vec![
        (SV::Seq(vec![l12()]), O { indent: 1, ..d }),                                                                   // indent-step-1
        (SV::Seq(vec![l12()]), O { indent: 3, ..d }),                                                                   // indent-step-ge3
        (SV::Seq(vec![SV::Seq(vec![SV::Struct(vec![("k", i(1)), ("m", SV::Seq(vec![i(2)]))])])]), O { indent: 4, ..d }),
        (SV::Struct(vec![("a", SV::Seq(vec![i(1)])), ("b", SV::Seq(vec![]))]), O { compact: true, ..d }),               // compact-list-indent
        (SV::Map(true, vec![(l12(), i(1))]), O { compact: true, ..d }),
        (SV::Map(true, vec![(SV::Seq(vec![]), l12())]), d),                                                             // complex-key
        (SV::TupleVariant("Tv", vec![]), d),                                                                            // tuple-variant-empty
        (SV::StructVariant("Sv", vec![]), d),                                                                           // struct-variant-empty
        (SV::Struct(vec![("k", SV::TupleStruct(vec![])), ("z", i(9))]), d),                                             // tuple-struct-empty
        (SV::Struct(vec![("k", SV::TupleVariant("Tv", vec![i(1)]))]), d),                                               // tuple-variant-position
        (SV::Struct(vec![("k", SV::Seq(vec![SV::StructVariant("Sv", vec![("a", SV::Seq(vec![i(1)]))])]))]), d),         // struct-variant-position
        (SV::TupleStruct(vec![SV::TupleStruct(vec![i(1)])]), d),                                                        // tuple-struct-position
        (SV::Seq(vec![SV::Struct(vec![("k", SV::UnitVariant("E", LONG_UNIT))])]), d),                                   // unit-variant-auto-folded
        (SV::NewtypeVariant("Y", Box::new(i(1))), d),                                                                   // variant-key-yaml11-bool
        (SV::Seq(vec![SV::StructVariant("No", vec![("a", i(1))]), SV::TupleVariant("on", vec![i(1), i(2)])]), d),
        (SV::Seq(vec![SV::UnitVariant("Axis", "X"), SV::UnitVariant("Axis", "Y")]), O { tagged: true, ..d }),            // tagged-variant-yaml11-bool (seed C20/3)
        (SV::Map(true, vec![(SV::Str("k".repeat(1024)), i(1))]), d),                                                     // longest implicit key
        (SV::Map(true, vec![(SV::Str("k".repeat(1025)), i(1))]), d),                                                     // long-implicit-key (fixed: explicit key)
        (SV::Seq(vec![SV::Map(true, vec![(SV::Str("long key ".repeat(130)), SV::Seq(vec![i(1)]))])]), d),
        // the boundary counts the text as written: quotes and escapes included
        (SV::Map(true, vec![(SV::Str(format!("{}:", "k".repeat(1021))), i(1)), (SV::Str(format!("{}:", "k".repeat(1022))), i(2))]), d),
        (SV::Map(false, vec![(SV::Str(format!("\u{7}{}", "é".repeat(1016))), l12()), (SV::Str(format!("\u{7}{}", "é".repeat(1017))), l12())]), d),
        // long keys in every position: second entry, after a block sibling, nested under a key, field of a struct variant, inside a composite key
        (SV::Struct(vec![("a", l12()), (long_name('f', 1025), SV::Map(false, vec![])), ("z", SV::Map(true, vec![(SV::Str("q".repeat(1030)), SV::Str("x\ny\n".into()))]))]), d),
        (SV::StructVariant("Sv", vec![(long_name('f', 1100), SV::Struct(vec![("x", i(1))])), ("g", i(2))]), O { indent: 4, ..d }),
        (SV::Map(true, vec![(SV::Map(true, vec![(SV::Str("c".repeat(1025)), i(1))]), SV::Map(true, vec![(SV::Str("d".repeat(1025)), i(2))]))]), O { indent: 3, compact: true, ..d }),
        // long variant names: root, after `key:`, after `- `, as the value of a long key, nested; the name is quoted under quote_all
        (SV::NewtypeVariant(long_name('V', 1024), Box::new(i(1))), d),
        (SV::NewtypeVariant(long_name('V', 1025), Box::new(i(1))), d),
        (SV::NewtypeVariant(long_name('V', 1023), Box::new(i(1))), O { quote_all: true, ..d }),
        (SV::TupleVariant(long_name('V', 1025), vec![i(1), l12()]), O { yaml12: true, ..d }),
        (SV::StructVariant(long_name('V', 1025), vec![("a", i(1)), ("b", l12())]), d),
        (SV::Struct(vec![("k", SV::TupleVariant(long_name('V', 1025), vec![i(1), i(2)])), ("m", SV::StructVariant(long_name('W', 1025), vec![])), ("z", SV::NewtypeVariant(long_name('X', 1025), Box::new(SV::Str("a\nb\n".into()))))]), d),
        (SV::Seq(vec![SV::StructVariant(long_name('V', 1025), vec![("a", i(1)), ("b", i(2))]), SV::TupleVariant(long_name('W', 1025), vec![]), SV::NewtypeVariant(long_name('X', 1025), Box::new(l12()))]), d),
        (SV::Seq(vec![SV::Seq(vec![SV::NewtypeVariant(long_name('V', 1025), Box::new(SV::NewtypeVariant(long_name('W', 1025), Box::new(SV::NewtypeVariant("S", Box::new(l12()))))))])]), O { indent: 3, ..d }),
        (SV::Struct(vec![("k", SV::Seq(vec![SV::NewtypeVariant(long_name('V', 1025), Box::new(SV::Struct(vec![("x", i(1)), ("y", SV::Seq(vec![]))])))]))]), O { indent: 1, compact: true, ..d }),
        (SV::Map(true, vec![(SV::TupleVariant(long_name('V', 1025), vec![i(1)]), SV::StructVariant(long_name('W', 1025), vec![("a", i(1))])), (SV::Str("k".repeat(1025)), SV::NewtypeVariant(long_name('X', 1025), Box::new(i(3))))]), d),
        (SV::FlowSeq(Box::new(SV::Seq(vec![SV::NewtypeVariant(long_name('V', 1025), Box::new(i(1)))]))), d),
    ]
}

fn generate(a: &Args, wrappers: bool) -> i32 {
    let prop: &'static str = if wrappers { "C20" } else { "C13" };
    let mut rng = Rng::new(a.seed ^ if wrappers { 0x2020 } else { 0x1313 });
    let fname: &'static str = if wrappers { "emit_wrappers" } else { "emit" };
    let mut cx = Ctx { sink: Sink::new(&a.out, fname), prop, oracle: vec![], per_id: BTreeMap::new(), texts: Default::default(), distinct: Default::default(), erased: Default::default(), minimal_seen: Default::default(), per_id_records: BTreeMap::new() };
    let grid = O::grid();
    if wrappers { for (v, o) in witnesses() { cx.case("witness", &v, &o); } }
    else {
        for (v, o) in witnesses13() { cx.case("witness", &v, &o); }
        for t in long_key_texts() { cx.read_text("reader_long_keys", &t); }
    }
    // look-alike names of variants / fields in every role and position x tagged_enums / quote_all / yaml_12
    for n in LOOKALIKE_NAMES.iter() {
        for v in name_shapes(n, wrappers) { for o in name_opts() { cx.case("names", &v, &o); } }
    }
    // exhaustive small trees
    let maxn = if a.thorough { 4 } else { 3 };
    let mut memo: Vec<Vec<SV>> = Vec::new();
    trees(maxn, wrappers, &mut memo);
    for n in 1..=maxn {
        for (ti, t) in memo[n].iter().enumerate() {
            if wrappers && !t.any(&|x| x.is_wrapper()) { continue; }
            let opts: Vec<O> = if n <= 3 && (!wrappers || a.thorough) { grid.clone() }
                               else if n <= 3 { (0..6).map(|j| grid[(ti + 3 * j) % 16]).collect() }
                               else { (0..3).map(|j| grid[(ti + 5 * j) % 16]).collect() };
            for o in &opts { cx.case(&format!("exhaustive{n}"), t, o); }
        }
    }
    // sibling interactions
    let rs = reps(wrappers);
    for (pi, (_, p)) in parents().iter().enumerate() {
        for (i, x) in rs.iter().enumerate() {
            for (j, y) in rs.iter().enumerate() {
                if wrappers && !(x.any(&|z| z.is_wrapper()) || y.any(&|z| z.is_wrapper())) { continue; }
                let v = p(x.clone(), y.clone());
                let k = if a.thorough { 4 } else { 2 };
                for t in 0..k { cx.case("pairs", &v, &grid[(pi + 3 * i + 5 * j + 7 * t) % 16]); }
            }
        }
    }
    // random larger trees
    let n = if a.thorough { 60000 } else { 4000 };
    for i in 0..n {
        let adversarial = wrappers && i % 2 == 1;
        let v = { let mut g = G { rng: &mut rng, wrappers, adversarial }; g.value(0) };
        if wrappers && !v.any(&|x| x.is_wrapper()) { continue; }
        let o = if i % 3 == 0 { O::default() } else { O::random(&mut rng) };
        cx.case(if adversarial { "random_adversarial" } else { "random" }, &v, &o);
    }
    // chars (`serialize_char`) in every parent position x folding thresholds 0 / 1 / default x indent steps: a char is a
    // one-character string for the emitter (fix 8690a78: `serialize_char` consumed the deferred space after `:` first)
    for ch in ['a', 'y', '~', '1', ' ', '-', '#', ':', '"', '\'', '\n', '\t', '\r', '\u{85}', '\u{2028}', '\u{e9}', '\u{1F600}'] {
        for (pi, (_, p)) in parents().iter().enumerate() {
            for (wi, wrap) in [80usize, 1, 0].into_iter().enumerate() {
                let o = O { fold_wrap: wrap, indent: [2, 1, 4][(pi + wi) % 3], compact: (pi + wi) % 2 == 1, ..O::default() };
                let x = SV::Char(ch);
                let y = if wrappers { SV::Commented(Box::new(SV::Char('z')), "c".into()) } else { SV::Char('z') };
                cx.case("chars", &p(x, y), &o);
            }
        }
    }
    // deep indentation: lines indented by far more than any fixed-size blank buffer (indent_step x depth around and
    // beyond 64, 128, 256 columns), through every kind of nesting step
    for (step, depth) in [(2usize, 31usize), (2, 33), (2, 70), (3, 22), (3, 45), (9, 8), (16, 5), (24, 3), (33, 2), (63, 2), (64, 2), (65, 2), (70, 2), (130, 3), (1, 66), (1, 140)] {
        for kind in 0..4 {
            let mut v = SV::Struct(vec![("x", SV::Int(1)), ("y", SV::Seq(vec![SV::Int(2), SV::Str("s".into())])), ("z", SV::Map(true, vec![(SV::Str("k".into()), SV::Bool(true))]))]);
            if wrappers { v = SV::Struct(vec![("x", SV::Commented(Box::new(SV::Int(1)), "c".into())), ("y", SV::FlowSeq(Box::new(SV::Seq(vec![SV::Int(2)])))), ("z", SV::SpaceAfter(Box::new(SV::Str("s".into()))))]); }
            for d in 0..depth {
                v = match (kind + if kind == 3 { d } else { 0 }) % 4 {
                    0 => SV::Struct(vec![("a", SV::Int(0)), ("n", v)]),
                    1 => SV::Seq(vec![SV::Int(0), v]),
                    2 => SV::Map(true, vec![(SV::Str("m".into()), v)]),
                    _ => SV::StructVariant("V", vec![("f", v)]),
                };
            }
            for compact in [false, true] {
                cx.case("deep_indent", &v, &O { indent: step, compact, ..O::default() });
            }
        }
    }
    // invalid option set
    cx.case("invalid_options", &SV::Int(1), &O { indent: 0, ..O::default() });
    let nt = cx.sink.stats.get("distinct_nontrivial").copied().unwrap_or(0);
    let mut f = std::fs::File::create(format!("{}/{}.oracle.jsonl", a.out, fname)).unwrap();
    use std::io::Write;
    for o in &cx.oracle { writeln!(f, "{}", serde_json::to_string(o).unwrap()).unwrap(); }
    cx.sink.finish(&a.out, fname, serde_json::json!({
        "distinct_nontrivial": nt,
        "oracle_failures_by_id": cx.per_id,
        "rule": format!("{prop}: value trees of the Serde data model ({}) serialized by a run-time `Serialize` impl that issues the derive calls: exhaustive over all trees with <= {maxn} nodes (16 leaf kinds incl. empty containers, 9{} unary and 7 binary constructors) x the 16-vector option grid (indent 1-4, compact_list_indent, empty_as_braces, quote_all, yaml_12, tagged_enums, prefer_block_scalars), a name family (32 look-alike names of enum variants / struct fields — YAML 1.1 booleans, nulls, numbers, `<<`, `---`, indicators, flow and key indicators inside the name, blanks — in 8 roles x 8 (+4 flow / comment) positions x every combination of tagged_enums / quote_all / yaml_12), a sibling-interaction family (19 parent shapes x representative children squared), regression witnesses (keys / variant names of 1024 / 1025 characters in every position among them), hand-written texts around the 1024-character limit of implicit keys (family reader_long_keys: read by the reference reader and the real parser only), random trees up to depth 5 under random option vectors (indent 1-10, fold parameters); every emitted text is compared byte for byte with the Lean emitter model (`emit ser`), every distinct text is read by the Lean reference reader and by the real parser (`emit read`), and the implementation-only oracle checks {}. Non-trivial = distinct value tree with more than one node.",
                        if wrappers { "decorated with FlowSeq/FlowMap/Commented/SpaceAfter/LitStr/FoldStr at every position, comments and block strings with #, line breaks (LF, CR, NEL, LS, PS), YAML syntax, leading blanks, trailing newlines, long words" } else { "no presentation wrappers" },
                        if wrappers { "+4" } else { "" },
                        if wrappers { "that the wrapped value under the option vector reads back (untyped and typed, exactly one document) as the same data as the bare value under default options, folded strings modulo trailing line breaks" } else { "exactly one document, untyped tree = erase(value), typed deserialization through a Ty derived from the value = value" }),
    }));
    0
}

fn show(a: &Args) -> i32 {
    // verif-harness emit show "<opts> | <value tokens>"
    let line = a.rest.join(" ");
    let parts: Vec<&str> = line.split(' ').collect();
    let bar = parts.iter().position(|t| *t == "|").unwrap_or(0);
    let o = O::parse(&parts[..bar]).unwrap_or_default();
    let toks: Vec<&str> = parts[bar + 1..].to_vec();
    let mut it = toks.iter();
    let Some(v) = SV::parse(&mut it) else { eprintln!("bad value"); return 2; };
    match emit_impl(&v, &o) {
        Ok(Ok(t)) => { println!("{t}---8<---\n{:?}\nany: {:?}\ndocs: {:?}", t, parse_any(&t).map(|x| P::from_val(&x).tokens()), doc_count(&t)); }
        other => println!("{other:?}"),
    }
    if let Some(f) = check_roundtrip(&v, &o) { println!("C13 oracle: {} | observed {} | expected {}", f.what, f.observed, f.expected); }
    match check_layout_only(&v, &o) { Ok(Some(f)) => println!("C20 oracle: {} | observed {} | expected {}", f.what, f.observed, f.expected), Ok(None) => {}, Err(w) => println!("C20 oracle n/a: {w}") }
    0
}

pub fn run(mode: &str, a: &Args) -> i32 {
    match mode {
        "gen" => generate(a, false),
        "gen_wrappers" => generate(a, true),
        "show" => show(a),
        "parse" => { // verif-harness emit parse x<hex text>
            let t = String::from_utf8(unhex(&a.rest[0]).unwrap()).unwrap();
            println!("{:?}\nany: {:?}\ndocs: {:?}", t, parse_any(&t).map(|x| P::from_val(&x).tokens()), doc_count(&t));
            0
        }
        _ => 2,
    }
}
