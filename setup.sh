#!/bin/sh
# Build the framework offline from files on disk: Lean library + model driver, Rust harness.
set -e
cd "$(dirname "$0")"
export CARGO_NET_OFFLINE=true
python3 tools/extract_tables.py
(cd lean && lake build SaphyrVerif modeldrv)
[ -f harness/Cargo.lock ] || cp /repo/Cargo.lock harness/Cargo.lock
(cd harness && cargo build --release --offline)
echo setup-ok
