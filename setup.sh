#!/bin/sh
# Build the framework offline from files on disk: Lean library + model driver, Rust harness.
set -e
cd "$(dirname "$0")"
export CARGO_NET_OFFLINE=true
python3 tools/extract_tables.py
(cd lean && lake build SaphyrVerif modeldrv)
# every proof module up front, so that a check only re-checks what changed since
(cd lean && lake build $(ls SaphyrVerif/Props/*.lean | sed 's#/#.#g; s#\.lean$##'))
[ -f harness/Cargo.lock ] || cp /repo/Cargo.lock harness/Cargo.lock
(cd harness && cargo build --release --offline && cargo build --release --offline --no-default-features --target-dir target-plain)
echo setup-ok
