#!/bin/sh
# usage: tools/merge_full.sh <scratch> <verif-base> <repo-base> — merge_builder + union-merge of registration files + props/claims/known_findings conversion
set -e
N="$1"; VB="$2"; RB="$3"
cd /verif
python3 tools/merge_builder.py "$N" "$VB" "$RB" > tmp/merge_$N.log 2>&1 || true
grep -E "^(new|updated|merged|CONFLICT|repo changes|conflicts)" tmp/merge_$N.log | grep -v "^new .*evidence" | head -80
# registration files: restore ours, then union-merge
for f in harness/src/main.rs lean/Driver/Main.lean tools/extract_tables.py; do
  if grep -q "CONFLICT $f" tmp/merge_$N.log 2>/dev/null || grep -q "merged   $f" tmp/merge_$N.log 2>/dev/null; then
    git checkout -- "$f"
    git show "$VB:$f" > tmp/base.tmp
    git merge-file --union "$f" tmp/base.tmp "/tmp/agents/$N/verif/$f" && echo "union-merged $f"
  fi
done
git checkout -- tools/props.py tools/claims.py known_findings.json lean/SaphyrVerif/Gen/Tables.lean 2>/dev/null || true
python3 - "$N" <<'PY'
import sys, json, importlib.util, os
n=sys.argv[1]
S=f'/tmp/agents/{n}/verif'
def load(path, name):
    spec=importlib.util.spec_from_file_location(name, path); m=importlib.util.module_from_spec(spec)
    sys.path.insert(0, os.path.dirname(path))
    try: spec.loader.exec_module(m)
    finally: sys.path.pop(0)
    return m
# props: either props.d json (new style) or dict entries in props.py/claims.py (old style)
existing={f[:-5] for f in os.listdir('/verif/tools/props.d')}
if os.path.isdir(S+'/tools/props.d'):
    for f in os.listdir(S+'/tools/props.d'):
        if f[:-5] not in existing:
            open('/verif/tools/props.d/'+f,'w').write(open(S+'/tools/props.d/'+f).read()); print('props.d added', f)
try:
    for mname in list(sys.modules):
        if mname in ('props','claims'): del sys.modules[mname]
    p=load(S+'/tools/props.py','bprops').PROPS
    for mname in list(sys.modules):
        if mname in ('props','claims'): del sys.modules[mname]
    c=load(S+'/tools/claims.py','bclaims').CLAIMS
    for k in p:
        if k not in existing and not os.path.exists(f'/verif/tools/props.d/{k}.json'):
            cfg=dict(p[k]); cfg['harness']=[list(x) for x in cfg['harness']]
            json.dump({"config":cfg,"claim":c[k]}, open(f'/verif/tools/props.d/{k}.json','w'), indent=1); print('props.d converted', k)
except Exception as e:
    print('props conversion note:', e)
cur=json.load(open('/verif/known_findings.json'))
th=json.load(open(S+'/known_findings.json'))
ids={f['id'] for f in cur['findings']}
for f in th['findings']:
    if f['id'] not in ids: cur['findings'].append(f); print('added finding', f['id'])
json.dump(cur,open('/verif/known_findings.json','w'),indent=1)
PY
python3 tools/extract_tables.py
