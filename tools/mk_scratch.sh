#!/bin/sh
# usage: tools/mk_scratch.sh <name>  — scratch copy of /verif + git worktree of /repo for a builder
set -e
N="$1"; D=/tmp/agents/$N
rm -rf "$D/verif"; mkdir -p "$D"
if [ -d "$D/repo" ]; then git -C /repo worktree remove --force "$D/repo" || rm -rf "$D/repo"; fi
git -C /repo worktree prune
git -C /repo worktree add --detach "$D/repo" HEAD >/dev/null
rsync -a --exclude harness/target --exclude harness/target-plain --exclude tmp --exclude .git --exclude replays /verif/ "$D/verif/"
sed -i "s#path = \"/repo\"#path = \"$D/repo\"#" "$D/verif/harness/Cargo.toml"
mkdir -p "$D/verif/tmp"
echo "$D"
