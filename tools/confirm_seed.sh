#!/bin/bash
# usage: tools/confirm_seed.sh <seed-dir with patch.diff demo.rs meta.json> <out-dir under /verif/seeded>
# Confirms in a scratch worktree: with the change the demo FAILS and the existing suite passes; without it the demo PASSES.
set -u
SRC="$1"; OUT="$2"; W=/tmp/seedcheck/wt
mkdir -p /tmp/seedcheck "$OUT"
if [ ! -d "$W" ]; then git -C /repo worktree add --detach "$W" HEAD >/dev/null 2>&1; fi
cd "$W"; git checkout -q --detach "$(git -C /repo rev-parse HEAD)"; git checkout -q -- .; rm -f tests/seeded_demo.rs
BASE=HEAD
if ! git apply --check "$SRC/patch.diff" 2>/dev/null; then
  OKB=""
  for B in 67eb1fe 588939d; do
    git checkout -q --detach $B
    if git apply --check "$SRC/patch.diff" 2>/dev/null; then OKB=$B; break; fi
  done
  [ -n "$OKB" ] || { echo "PATCH-DOES-NOT-APPLY $SRC"; exit 1; }
  BASE=$OKB
fi
export CARGO_TARGET_DIR=/tmp/seedcheck/target
FEAT=$(python3 -c "import json,sys; print(','.join(json.load(open(sys.argv[1])).get('features','').replace(',',' ').split()))" "$SRC/meta.json" 2>/dev/null)
FARG=""; [ -n "$FEAT" ] && FARG="--features $FEAT"
cp "$SRC/demo.rs" tests/seeded_demo.rs
cargo test --offline $FARG --test seeded_demo > /tmp/seedcheck/clean.log 2>&1; CLEAN=$?
git apply "$SRC/patch.diff"
cargo test --offline $FARG --test seeded_demo > /tmp/seedcheck/mut.log 2>&1; MUT=$?
rm -f tests/seeded_demo.rs
cargo nextest run --workspace --no-fail-fast --offline > /tmp/seedcheck/suite.log 2>&1
SUITE=$(grep -E "Summary" /tmp/seedcheck/suite.log | tail -1)
git checkout -q -- .
cp "$SRC/patch.diff" "$SRC/demo.rs" "$OUT/"
python3 - "$SRC/meta.json" "$OUT/meta.json" "$BASE" "$CLEAN" "$MUT" "$SUITE" <<'PY'
import json,sys
m=json.load(open(sys.argv[1]))
m['confirmed']={"base_commit_of_repo": sys.argv[3], "demo_on_clean_tree_exit": int(sys.argv[4]), "demo_with_change_exit": int(sys.argv[5]), "existing_suite_with_change": sys.argv[6].strip(),
  "commands": ["git apply patch.diff (scratch worktree of /repo)", "cp demo.rs tests/seeded_demo.rs; cargo test --offline --test seeded_demo", "cargo nextest run --workspace --no-fail-fast --offline"]}
json.dump(m,open(sys.argv[2],'w'),indent=1)
print(sys.argv[2], m['confirmed'])
PY
