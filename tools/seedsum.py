#!/usr/bin/env python3
import re,sys
last={}
for l in open('/verif/tmp/seedres.txt', errors='replace'):
    sid=l.split()[0]
    m=re.search(r'violations=(\d+)',l)
    conf='confirmed=yes' in l or 'retry' in l
    nf=l.count('VIOLATION'); nof=l.count('no-failing-input-found')
    last[sid]=(conf, m.group(1) if m else '?', nf, nof, 'PATCH-DOES-NOT-APPLY' in l or 'patch does not apply' in l, 'confirmed=no' in l, l.strip()[-60:])
for sid in sorted(last):
    c,v,nf,nof,na,bad,tail=last[sid]
    print(f"{sid:10s} {'NOAPPLY' if na else ('UNCONFIRMED' if bad else ('CAUGHT' if (v not in ('0','?') or nf>0) else 'missed'))}  violations={v} (with-input>={nf-nof}, no-input={nof})")
