"""Claim texts per property (what the check decides, at which level) and the not-yet-claimed list."""
HOOK_COMMITS = ["1f65a66"]

CLAIMS = {
    "C06": {
        "technique": "Lean 4 theorems (model = exact mathematical notation value, base64 inverse/strictness) + exhaustive/generated differential of the model against parse_scalars.rs/base64.rs via hooks",
        "text": "Proof: Lean theorems parse_int_{signed,unsigned}_exact (all widths 1..128: result = exact value of the notation if it fits, error otherwise), never_wrapped_*, complete_*, bool/null tables exact, b64_decode_encode and b64_strict, for ALL strings; the model is tied to the code by a ~0.5M-case differential (all short strings over the digit/prefix alphabet, width boundaries in every radix, whitespace/sign/separator variants) and literal tables regenerated from the source.",
        "note": "Trusted: Lean kernel; axioms propext/Classical.choice/Quot.sound; the hand model's correspondence is tested not proved; float text->value is core::str::parse (external, not modelled).",
    },
    "C07": {
        "technique": "Lean 4 theorems (enforcer accepts iff independent counts within limits; report = counts; per-document independence) + differential of the enforcer and of the pump's budget integration against budget.rs/live_events.rs",
        "text": "Proof: accepts_iff, report_eq_usage (incl. merge keys tracked by the container-state stack vs counted on the tree), ratio_exact, exact_limits_accept / below_usage_rejects (limit = usage accepts, anything below rejects), first_breach_kind (arbitrary event lists), perdoc_independent and perdoc_state_reset for the repaired per-document policy, for ALL streams of document trees; tied to the code by a differential over real parser event streams (limit = usage and usage-1 for each of 8 counters, ratio heuristic incl. saturating multipliers, both policies, synthetic unbalanced sequences) and by the pump differential in which replayed events are budgeted; Budget::default constants regenerated from source.",
        "note": "Trusted: Lean kernel; axioms propext/Classical.choice/Quot.sound; hand model tied by testing; parser contract (events = flattened trees) assumed for the tree theorems; three defects found by this property were repaired by fix: commits (see known_findings.json).",
    },
}

_PENDING = "model and theorems not built yet in this round (planned, see DESIGN.md section 5); not claimed until its check exists"
NOT_APPLICABLE = {f"C{i:02d}": _PENDING for i in range(1, 21)}
