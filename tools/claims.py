"""Claim texts live in tools/props.d/Cxx.json (key `claim`); this module only adds the bookkeeping."""
from props import CLAIMS  # noqa: F401

HOOK_COMMITS = ["1f65a66"]

_PENDING = "model and theorems not built yet in this round (planned, see DESIGN.md section 5); not claimed until its check exists"
NOT_APPLICABLE = {f"C{i:02d}": _PENDING for i in range(1, 21)}
