"""Claim texts live in tools/props.d/Cxx.json (key `claim`); this module only adds the bookkeeping."""
from props import CLAIMS  # noqa: F401

import subprocess as _sp
def _hook_commits():
    try:
        out = _sp.run(["git", "-C", "/repo", "log", "--reverse", "--format=%h %s"], capture_output=True, text=True).stdout
        return [l.split()[0] for l in out.splitlines() if l.split(" ", 1)[1].startswith("verif hooks:")] or ["1f65a66"]
    except Exception:
        return ["1f65a66"]
HOOK_COMMITS = _hook_commits()

_PENDING = "model and theorems not built yet in this round (planned, see DESIGN.md section 5); not claimed until its check exists"
import os as _os
_PARKED = "model, theorems and correspondence exist (tools/props.parked/) but the check is parked while its model follows repairs made to /repo; not claimed until it passes on the current tree again"
_parked_dir = _os.path.join(_os.path.dirname(_os.path.abspath(__file__)), "props.parked")
NOT_APPLICABLE = {f"C{i:02d}": (_PARKED if _os.path.exists(_os.path.join(_parked_dir, f"C{i:02d}.json")) else _PENDING) for i in range(1, 21)}
