"""Claim texts per property (what the check decides, at which level) and the not-yet-claimed list."""
HOOK_COMMITS = ["1f65a66"]

CLAIMS = {
    "C06": {
        "technique": "Lean 4 theorems (model = exact mathematical notation value, base64 inverse/strictness) + exhaustive/generated differential of the model against parse_scalars.rs/base64.rs via hooks",
        "text": "Proof: Lean theorems parse_int_{signed,unsigned}_exact (all widths 1..128: result = exact value of the notation if it fits, error otherwise), never_wrapped_*, complete_*, bool/null tables exact, b64_decode_encode and b64_strict, for ALL strings; the model is tied to the code by a ~0.5M-case differential (all short strings over the digit/prefix alphabet, width boundaries in every radix, whitespace/sign/separator variants) and literal tables regenerated from the source.",
        "note": "Trusted: Lean kernel; axioms propext/Classical.choice/Quot.sound; the hand model's correspondence is tested not proved; float text->value is core::str::parse (external, not modelled).",
    },
    "C07": {
        "technique": "Lean 4 theorems (enforcer accepts iff independent counts within limits; report = counts; per-document independence) + differential of the enforcer and of the pump's budget integration against budget.rs/live_events.rs",
        "text": "Proof: accepts_iff, report_eq_usage (incl. merge keys tracked by the container-state stack vs counted on the tree), ratio_exact, exact_limits_accept / below_usage_rejects (limit = usage accepts, anything below rejects), first_breach_kind (arbitrary event lists), perdoc_independent and perdoc_state_reset for the repaired per-document policy, for ALL streams of document trees; tied to the code by a differential over real parser event streams (limit = usage and usage-1 for each of 8 counters, ratio heuristic incl. saturating multipliers, both policies, synthetic unbalanced sequences) and by the pump differential in which replayed events are budgeted; Budget::default constants regenerated from source.",
        "note": "Trusted: Lean kernel; axioms propext/Classical.choice/Quot.sound; hand model tied by testing; parser contract (events = flattened trees) assumed for the tree theorems; three defects found by this property were repaired by fix: commits (see known_findings.json).",
    },
    "C02": {
        "technique": "Lean 4 refinement theorem (event pump with recording frames / inject stack = tree substitution `expand`) by mutual structural induction + differential of the pump model against LiveEvents + implementation-only expansion oracle",
        "text": "Proof: pump_eq_expand_partial (for every document tree within the alias limits the pump delivers exactly the expansion: every alias replaced by a copy of the most recently completed node of that id; hypothesis: no folded scalar at column 0, a syntax rejection independent of anchors), pump_sound (for ALL limits a run that ends without error delivered exactly the expansion, so an alias without a completed anchor can never be accepted), pump_errors_classified_general, alias_unknown_is_error, anchor_mark_transparent (full, after the repair of the anchored-empty-quoted special case), inject_len_le_one, peek_next_coherent. Tie to code: event-by-event differential of the model against the real LiveEvents on the real parser's items (all delivered events with tag class, style, anchor id, both locations; terminating error with numbers and location; finish(); flags) + oracle value(aliased text) = value(expanded text) with name resolution done by the generator.",
        "note": "Trusted: Lean kernel; axioms propext/Classical.choice/Quot.sound; hand model tied by testing; the parser's name->id resolution is external (exercised by the oracle). One defect found and repaired (fix: 3bd9a5e).",
    },
}

_PENDING = "model and theorems not built yet in this round (planned, see DESIGN.md section 5); not claimed until its check exists"
NOT_APPLICABLE = {f"C{i:02d}": _PENDING for i in range(1, 21)}
