"""Claim texts live in tools/props.d/Cxx.json (key `claim`); this module only adds the bookkeeping."""
from props import CLAIMS  # noqa: F401

import subprocess as _sp
def _hook_commits():
    try:
        out = _sp.run(["git", "-C", "/repo", "log", "--reverse", "--format=%h %s"], capture_output=True, text=True).stdout
        return [l.split()[0] for l in out.splitlines() if l.split(" ", 1)[1].startswith("verif hooks:")] or ["1f65a66"]
    except Exception:
        return ["1f65a66"]
HOOK_COMMITS = _hook_commits()

_PENDING = "model and theorems not built yet in this round (planned, see DESIGN.md section 5); not claimed until its check exists"
NOT_APPLICABLE = {f"C{i:02d}": _PENDING for i in range(1, 21)}
