"""Generic check engine for /verif (see DESIGN.md 3.4/3.5).

A property configuration (tools/props.py) names
  * lean_modules     : Props modules whose theorems are the proof obligations
  * harness          : list of (area, mode) the Rust harness runs to produce <area>.ops / <area>.impl
  * decisive         : op prefixes for which the proved model output IS what the property demands
                       (a model/impl disagreement on such an op is a concrete property violation)
  * spec_ops         : {op prefix: spec op prefix} — the driver can recompute the demanded answer from the
                       table-independent Spec (used when a proof obligation breaks)
"""
import fcntl, hashlib, json, os, re, subprocess, sys, time

ROOT = os.path.dirname(os.path.dirname(os.path.abspath(__file__)))
LEAN = os.path.join(ROOT, "lean")
HARNESS = os.path.join(ROOT, "harness")
TMP = os.path.join(ROOT, "tmp")
MODELDRV = os.path.join(LEAN, ".lake", "build", "bin", "modeldrv")
HBIN = os.path.join(HARNESS, "target", "release", "verif-harness")
HBIN_PLAIN = os.path.join(HARNESS, "target-plain", "release", "verif-harness")   # built without serde-saphyr's `robotics` feature
ALLOWED_AXIOMS = {"propext", "Classical.choice", "Quot.sound"}
FORBIDDEN = re.compile(r"\bsorry\b|\badmit\b|^\s*axiom\s|native_decide|bv_decide|implemented_by|\bunsafe\s|maxHeartbeats\s+0")

ENV = dict(os.environ, CARGO_NET_OFFLINE="true")


def sh(cmd, cwd=None, timeout=None, stdin=None):
    t0 = time.time()
    p = subprocess.run(cmd, cwd=cwd, env=ENV, stdin=stdin, stdout=subprocess.PIPE, stderr=subprocess.STDOUT,
                       text=True, timeout=timeout, shell=isinstance(cmd, str))
    return p.returncode, p.stdout, time.time() - t0


def _item_tree(op):
    """Parse the parser-item tokens after ` | ` of an e2e op into nested lists:
    ('s', tag, value) | ('q', [children]) | ('m', [(k, v), ...]); None if not well formed."""
    if " | " not in op:
        return None
    toks = op.split(" | ", 1)[1].split(" ")
    i = 0
    docs = []

    def node():
        nonlocal i
        if i >= len(toks) or not toks[i].startswith("@"):
            return None
        i += 1
        t = toks[i]
        if t == "sc":
            n = ("s", toks[i + 3], toks[i + 4])
            i += 5
            return n
        if t == "al":
            i += 2
            return ("a",)
        if t == "ss":
            i += 3
            items = []
            while i + 1 < len(toks) and toks[i + 1] != "se":
                c = node()
                if c is None:
                    return None
                items.append(c)
            i += 2
            return ("q", items)
        if t == "ms":
            i += 3
            es = []
            while i + 1 < len(toks) and toks[i + 1] != "me":
                k = node()
                v = node()
                if k is None or v is None:
                    return None
                es.append((k, v))
            i += 2
            return ("m", es)
        return None

    try:
        while i < len(toks):
            if toks[i].startswith("!"):
                i += 1
                continue
            if i + 1 < len(toks) and toks[i + 1] in ("S", "E", "d", "D0", "D1", "no"):
                i += 2
                continue
            n = node()
            if n is None:
                return None
            docs.append(n)
    except IndexError:
        return None
    return docs


_NULLISH = {"x", "x7e", "x6e756c6c", "x4e756c6c", "x4e554c4c", "x6e554c4c", "x6e756c4c", "x6e754c6c", "x6e754c4c", "x4e754c6c", "x4e556c6c", "x4e554c6c", "x4e556c4c", "x6e556c6c", "x6e556c4c", "x6e554c6c", "x4e754c4c", "x4e756c4c"}
_NULLTAGS = {"x21216e756c6c", "x216e756c6c", "x7461673a79616d6c2e6f72672c323030323a6e756c6c", "x7461673a79616d6c2e6f72672c323030323a216e756c6c"}


def _has_kemn_key(op):
    """some mapping KEY is a one-entry mapping whose own key is a null-like scalar (finding C05-kemn-…)"""
    docs = _item_tree(op)
    if docs is None:
        return False

    def walk(n):
        if n[0] == "q":
            return any(walk(c) for c in n[1])
        if n[0] == "m":
            for k, v in n[1]:
                if k[0] == "m" and len(k[1]) == 1 and k[1][0][0][0] == "s" and (k[1][0][0][2] in _NULLISH or k[1][0][0][1] in _NULLTAGS):
                    return True
                if walk(k) or walk(v):
                    return True
        return False

    return any(walk(d) for d in docs)


MATCHERS = {"kemn_key": _has_kemn_key}


class Lock:
    def __init__(self, name):
        os.makedirs(TMP, exist_ok=True)
        self.f = open(os.path.join(TMP, name + ".lock"), "w")

    def __enter__(self):
        fcntl.flock(self.f, fcntl.LOCK_EX)
        return self

    def __exit__(self, *a):
        fcntl.flock(self.f, fcntl.LOCK_UN)
        self.f.close()


def strip_comments(src):
    # remove /- ... -/ (nested) and -- comments
    out, i, depth = [], 0, 0
    while i < len(src):
        if src.startswith("/-", i):
            depth += 1
            i += 2
        elif depth and src.startswith("-/", i):
            depth -= 1
            i += 2
        elif depth:
            if src[i] == "\n":
                out.append("\n")
            i += 1
        elif src.startswith("--", i):
            while i < len(src) and src[i] != "\n":
                i += 1
        else:
            out.append(src[i])
            i += 1
    return "".join(out)


def lean_file(mod):
    return os.path.join(LEAN, *mod.split(".")) + ".lean"


def theorems_of(mod):
    src = strip_comments(open(lean_file(mod), encoding="utf-8").read())
    ns = re.findall(r"^namespace\s+(\S+)", src, re.M)
    prefix = ns[0] + "." if ns else ""
    names = [prefix + n for n in re.findall(r"^\s*(?:private\s+|protected\s+)?theorem\s+([^\s:({\[]+)", src, re.M)]
    examples = len(re.findall(r"^\s*example\b", src, re.M))
    return names, examples


def imports_closure(mods):
    seen, todo = set(), list(mods)
    while todo:
        m = todo.pop()
        if m in seen or not m.startswith("SaphyrVerif"):
            continue
        f = lean_file(m)
        if not os.path.exists(f):
            continue
        seen.add(m)
        for imp in re.findall(r"^import\s+(\S+)", open(f, encoding="utf-8").read(), re.M):
            todo.append(imp)
    return sorted(seen)


class Run:
    def __init__(self, pid, tier, cfg):
        self.pid, self.tier, self.cfg = pid, tier, cfg
        self.seed = int(os.environ.get("VERIF_SEED", "1") or 1)
        self.t0 = time.time()
        self.log = []
        self.violations = []        # (kind, detail dict)
        self.known_hits = []
        self.cov = {}
        self.known = [k for k in json.load(open(os.path.join(ROOT, "known_findings.json")))["findings"]
                      if k["property"] == pid or k["property"] in cfg.get("known_from", [])]

    def say(self, *a):
        msg = " ".join(str(x) for x in a)
        self.log.append(msg)
        print(msg, flush=True)

    # ---------------------------------------------------------------- lean side
    def lean_phase(self):
        cfg = self.cfg
        res = {"tables": "ok", "driver": "ok", "proofs": {}, "axioms": {}, "obligations": 0, "discharged": 0,
               "theorems": []}
        with Lock("lean"):
            rc, out, dt = sh([sys.executable, os.path.join(ROOT, "tools", "extract_tables.py")])
            self.say(f"[tables] {out.strip()} ({dt:.1f}s)")
            if rc != 0:
                res["tables"] = out.strip()
                # fall back to the committed tables so that the search can still run
                sh(["git", "checkout", "--", "lean/SaphyrVerif/Gen/Tables.lean"], cwd=ROOT)
            rc, out, dt = sh(["lake", "build", "modeldrv"], cwd=LEAN, timeout=1800)
            self.say(f"[lean] build modeldrv rc={rc} ({dt:.1f}s)")
            if rc != 0:
                res["driver"] = out[-3000:]
            for mod in cfg["lean_modules"]:
                rc, out, dt = sh(["lake", "build", mod], cwd=LEAN, timeout=3600)
                ok = rc == 0 and "declaration uses `sorry`" not in out and "declaration uses 'sorry'" not in out
                self.say(f"[lean] build {mod} rc={rc} ok={ok} ({dt:.1f}s)")
                names, examples = theorems_of(mod)
                res["obligations"] += len(names) + examples
                res["proofs"][mod] = "ok" if ok else out[-3000:]
                res["theorems"] += names
                if not ok:
                    continue
                # textual audit over the module and everything it imports inside the project
                bad = []
                for m in imports_closure([mod]):
                    src = strip_comments(open(lean_file(m), encoding="utf-8").read())
                    for ln, line in enumerate(src.split("\n"), 1):
                        if FORBIDDEN.search(line):
                            bad.append(f"{m}:{ln}: {line.strip()}")
                if bad:
                    res["proofs"][mod] = "forbidden construct: " + "; ".join(bad[:5])
                    continue
                # axiom audit
                audit = os.path.join(TMP, f"Audit_{self.pid}_{mod.split('.')[-1]}.lean")
                with open(audit, "w") as f:
                    f.write(f"import {mod}\n" + "".join(f"#print axioms {n}\n" for n in names))
                rc, out, dt = sh(["lake", "env", "lean", audit], cwd=LEAN, timeout=1800)
                axs = {}
                for m in re.finditer(r"'(\S+)' (does not depend on any axioms|depends on axioms:\s*\[([^\]]*)\])", out):
                    axs[m.group(1)] = [] if m.group(3) is None else [a.strip() for a in m.group(3).split(",")]
                missing = [n for n in names if n not in axs]
                illegal = {n: a for n, a in axs.items() if not set(a) <= ALLOWED_AXIOMS}
                res["axioms"].update(axs)
                if rc != 0 or missing or illegal:
                    res["proofs"][mod] = f"axiom audit failed rc={rc} missing={missing[:5]} illegal={illegal}"
                    continue
                res["discharged"] += len(names) + examples
                if self.tier == "thorough" and cfg.get("leanchecker", True):
                    rc, out, dt = sh(["lake", "env", "leanchecker", mod], cwd=LEAN, timeout=3600)
                    self.say(f"[lean] leanchecker {mod} rc={rc} ({dt:.1f}s)")
                    res.setdefault("leanchecker", {})[mod] = rc
                    if rc != 0:
                        res["proofs"][mod] = "leanchecker failed: " + out[-1000:]
                        res["discharged"] -= len(names) + examples
        self.lean = res
        return res

    # ---------------------------------------------------------------- harness side
    def harness_build(self):
        with Lock("cargo"):
            lock = os.path.join(HARNESS, "Cargo.lock")
            if not os.path.exists(lock):
                sh(["cp", "/repo/Cargo.lock", lock])
            rc, out, dt = sh(["cargo", "build", "--release", "--offline"], cwd=HARNESS, timeout=3600)
        self.say(f"[cargo] build harness rc={rc} ({dt:.1f}s)")
        if rc != 0:
            self.say(out[-4000:])
        if rc == 0 and self.cfg.get("harness_plain"):
            # second binary: serde-saphyr with its DEFAULT feature set + hooks (no `robotics`): code under
            # cfg(not(feature = "robotics")) is compiled only here
            with Lock("cargo"):
                rc, out, dt = sh(["cargo", "build", "--release", "--offline", "--no-default-features",
                                  "--target-dir", os.path.join(HARNESS, "target-plain")], cwd=HARNESS, timeout=3600)
            self.say(f"[cargo] build harness (plain feature set) rc={rc} ({dt:.1f}s)")
            if rc != 0:
                self.say(out[-4000:])
        return rc, out

    def harness_run(self, area, mode, extra=(), timeout=3600, plain=False):
        outdir = os.path.join(TMP, f"{self.pid}_{self.tier}" + ("_plain" if plain else ""))
        os.makedirs(outdir, exist_ok=True)
        cmd = [HBIN_PLAIN if plain else HBIN, area, mode, "--seed", str(self.seed), "--tier", self.tier, "--out", outdir, *extra]
        rc, out, dt = sh(cmd, timeout=timeout)
        self.say(f"[harness] {area} {mode}{' (plain feature set)' if plain else ''} rc={rc} ({dt:.1f}s)")
        if out.strip():
            self.say(out[-2000:])
        return rc, out, outdir

    def model_answers(self, ops_path, out_path):
        with open(ops_path, "rb") as fin, open(out_path, "wb") as fout:
            t0 = time.time()
            limit = 5400 if self.tier == "thorough" else 1200
            try:
                p = subprocess.run([MODELDRV], stdin=fin, stdout=fout, stderr=subprocess.PIPE, timeout=limit)
                rc = p.returncode
            except subprocess.TimeoutExpired:
                rc = 124  # reported by compare() as "driver stopped after n of total answers"
            self.say(f"[model] {os.path.basename(ops_path)} rc={rc} ({time.time()-t0:.1f}s)")
            return rc

    def ask_model(self, lines):
        p = subprocess.run([MODELDRV], input="\n".join(lines) + "\n", stdout=subprocess.PIPE, text=True)
        return p.stdout.split("\n")[:len(lines)]

    def compare(self, outdir, name):
        ops_p, imp_p, mod_p = (os.path.join(outdir, f"{name}.{e}") for e in ("ops", "impl", "model"))
        rc = self.model_answers(ops_p, mod_p)
        dis = []
        n = 0
        with open(ops_p, encoding="utf-8") as fo, open(imp_p, encoding="utf-8") as fi, open(mod_p, encoding="utf-8") as fm:
            for op, a, b in zip(fo, fi, fm):
                n += 1
                if a != b:
                    dis.append((n, op.rstrip("\n"), a.rstrip("\n"), b.rstrip("\n")))
        with open(ops_p, encoding="utf-8") as fo:
            total = sum(1 for _ in fo)
        if rc != 0 or n != total:
            dis.append((n + 1, "<driver>", "", f"driver stopped after {n} of {total} answers rc={rc}"))
        meta = json.load(open(os.path.join(outdir, f"{name}.meta.json")))
        return total, dis, meta

    # ---------------------------------------------------------------- verdicts
    def match_known(self, op, impl_ans):
        for k in self.known:
            if k.get("status") != "known":
                continue
            if k.get("op") == op or (k.get("op_regex") and re.search(k["op_regex"], op)):
                return k
            if k.get("matcher") and MATCHERS[k["matcher"]](op):
                return k
        return None

    def write_replay(self, kind, detail):
        os.makedirs(os.path.join(ROOT, "replays"), exist_ok=True)
        h = hashlib.sha1(json.dumps(detail, sort_keys=True).encode()).hexdigest()[:12]
        path = os.path.join(ROOT, "replays", f"{self.pid}-{h}.json")
        json.dump({"property": self.pid, "kind": kind, "seed": self.seed, "tier": self.tier, **detail},
                  open(path, "w"), indent=1)
        return path

    def violation(self, kind, detail, found_input):
        path = self.write_replay(kind, detail)
        self.violations.append((kind, path, found_input))

    def finish(self, coverage, assumptions):
        wall = time.time() - self.t0
        for k in self.known_hits:
            print(f"KNOWN-FINDING: property={self.pid} {k}", flush=True)
        # violations with a concrete failing input first
        for kind, path, found in sorted(self.violations, key=lambda v: 0 if v[2] else 1):
            tail = "" if found else " no-failing-input-found"
            print(f"VIOLATION property={self.pid} replay={path}{tail}", flush=True)
        ev = {
            "property_id": self.pid, "tier": self.tier, "seed": self.seed, "level": "proof",
            "coverage": coverage, "assumptions": assumptions, "wall_s": round(wall, 2),
            "violations": len(self.violations),
        }
        os.makedirs(os.path.join(ROOT, "evidence"), exist_ok=True)
        json.dump(ev, open(os.path.join(ROOT, "evidence", f"{self.pid}.json"), "w"), indent=1)
        self.say(f"[done] {self.pid} {self.tier} violations={len(self.violations)} known={len(self.known_hits)} wall={wall:.1f}s")
        return 1 if self.violations else 0
