#!/bin/bash
# usage: tools/lab.sh <name>                      create/refresh lab /tmp/lab/<name> = worktree of /repo HEAD + copy of /verif (with build output)
#        tools/lab.sh <name> try <patch> <Cxx> [quick|thorough]   apply patch in the lab's repo, run the lab's check, undo; never touches /repo or /verif
#        tools/lab.sh <name> rm                   remove the lab
# Labs let seeded changes be tried concurrently and while background runs use /repo.
set -u
N="$1"; D=/tmp/lab/$N; CMD="${2:-make}"
VSRC="${LAB_VERIF_SRC:-/verif}"   # where the lab copies the machinery from (a frozen snapshot during sweeps)
case "$CMD" in
make)
  mkdir -p "$D"
  if [ -d "$D/repo" ]; then git -C /repo worktree remove --force "$D/repo" 2>/dev/null || rm -rf "$D/repo"; fi
  git -C /repo worktree prune
  git -C /repo worktree add --detach "$D/repo" HEAD >/dev/null 2>&1
  EX=""; [ -d "$D/verif/harness/target" ] && EX="--exclude harness/target --exclude harness/target-plain"   # keep the lab's own cargo cache once it exists
  rsync -a --delete $EX --exclude tmp --exclude .git --exclude replays "$VSRC/" "$D/verif/"
  sed -i "s#path = \"/repo\"#path = \"$D/repo\"#" "$D/verif/harness/Cargo.toml"
  mkdir -p "$D/verif/tmp"
  echo "$D" ;;
sync)
  git -C "$D/repo" reset -q --hard HEAD ; git -C "$D/repo" checkout -q --detach "${LAB_REPO_REV:-$(git -C /repo rev-parse HEAD)}"
  rsync -a --delete --exclude harness/target --exclude harness/target-plain --exclude tmp --exclude .git --exclude replays "$VSRC/" "$D/verif/"
  sed -i "s#path = \"/repo\"#path = \"$D/repo\"#" "$D/verif/harness/Cargo.toml" ;;
try)
  P="$3"; ID="$4"; TIER="${5:-quick}"
  cd "$D/repo" && git reset -q --hard HEAD && git clean -fdq src tests 2>/dev/null
  git apply "$P" 2>/dev/null || git apply -3 "$P" >/dev/null 2>&1 || { git reset -q --hard HEAD; echo "patch does not apply"; exit 3; }
  git reset -q 2>/dev/null
  cd "$D/verif" && VERIF_REPO="$D/repo" ./check "$ID" "$TIER" > "$D/try_$ID.log" 2>&1
  RC=$?
  git -C "$D/repo" reset -q --hard HEAD
  grep -E "^VIOLATION|^KNOWN-FINDING|\[done\]" "$D/try_$ID.log" | cut -c1-240
  # kinds of the violations (from the replay files), so that a harness that no longer builds is told apart from a catch
  python3 - "$D/try_$ID.log" <<'PY'
import json,re,sys,collections
k=collections.Counter()
for l in open(sys.argv[1],errors='replace'):
    m=re.match(r'VIOLATION property=\S+ replay=(\S+)',l)
    if m:
        try: d=json.load(open(m.group(1))); k[d.get('kind','?')+(':'+d.get('id','') if d.get('id') else '')]+=1
        except Exception: k['unreadable']+=1
print('kinds:', ', '.join(f'{a} x{b}' for a,b in k.items()))
PY
  echo "check exit=$RC" ;;
rm)
  git -C /repo worktree remove --force "$D/repo" 2>/dev/null; rm -rf "$D"; git -C /repo worktree prune ;;
esac
