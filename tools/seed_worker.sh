#!/bin/bash
# usage: tools/seed_worker.sh <worker-id>   — takes jobs "<src> <seed-id> <Cxx>" from /tmp/seedq/*.job until /tmp/seedq/STOP exists
WK="$1"; mkdir -p /tmp/seedq
while [ ! -e /tmp/seedq/STOP ]; do
  J=$(ls /tmp/seedq/*.job 2>/dev/null | head -1)
  if [ -z "$J" ]; then sleep 10; continue; fi
  mv "$J" "$J.run$WK" 2>/dev/null || continue
  read SRC SID PID < "$J.run$WK"
  /verif/tools/seed_pipeline.sh "$SRC" "$SID" "$PID" "$WK" > /tmp/seedq/$SID.log 2>&1
  mv "$J.run$WK" "/tmp/seedq/$SID.done"
done
