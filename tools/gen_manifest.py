#!/usr/bin/env python3
"""Writes MANIFEST.json from tools/props.py + the claim texts below."""
import json, os, sys
sys.path.insert(0, os.path.dirname(os.path.abspath(__file__)))
from props import PROPS
from claims import CLAIMS, NOT_APPLICABLE, HOOK_COMMITS

checks = []
for pid in sorted(PROPS):
    c = CLAIMS[pid]
    checks.append({
        "property_id": pid,
        "quick_cmd": f"./check {pid} quick",
        "thorough_cmd": f"./check {pid} thorough",
        "evidence_file": f"/verif/evidence/{pid}.json",
        "replay_cmd_template": f"./check {pid} --replay {{path}}",
        "engine": "lean4-proof+differential",
        "level_claimed": {"category": "proof", "text": c["text"], "design_ref": c.get("design_ref", f"DESIGN.md section 5, {pid}")},
        "level_note": c["note"],
        "technique": c["technique"],
    })
m = {
    "version": 1,
    "setup_cmd": "./setup.sh",
    "hooks": {
        "guard": "cargo feature `verif_hooks` of package serde-saphyr",
        "enable": "the harness (/verif/harness) depends on /repo by path with features = [\"verif_hooks\", \"garde\", \"validator\", \"miette\", \"robotics\" (the harness feature `robotics`, on by default)]; a second binary (harness/target-plain, --no-default-features) is built WITHOUT `robotics` for the scalar areas of C06 / C12",
        "baseline_off_cmd": "cd /repo && cargo nextest run --workspace --no-fail-fast --tool-config-file pb:/w/lib/nextest.toml --profile pb --test-threads 8 --offline",
        "source_commits": HOOK_COMMITS,
        "add_only": True,
    },
    "engines": [
        {"name": "lean4-proof+differential", "path": "/verif/lean", "serves_properties": sorted(PROPS),
         "kind_free_text": "Lean 4 theorems about hand-written executable models (lake project SaphyrVerif) + constants regenerated from /repo/src by tools/extract_tables.py + differential correspondence of model driver (lean_exe modeldrv) against the real code through the Rust harness in /verif/harness"},
    ],
    "checks": checks,
    "not_applicable": [{"property_id": p, "reason": r} for p, r in sorted(NOT_APPLICABLE.items()) if p not in PROPS],
    "notes": "Entry point ./check <id> quick|thorough. Known findings: /verif/known_findings.json. See DESIGN.md.",
}
json.dump(m, open(os.path.join(os.path.dirname(__file__), "..", "MANIFEST.json"), "w"), indent=1)
print("MANIFEST.json written:", len(checks), "checks,", len(m["not_applicable"]), "not_applicable")
