#!/usr/bin/env python3
"""Apply a builder's repair round: cherry-pick its commits into /repo, copy the listed verif files from its scratch,
install its findings entries, and rewrite scratch SHAs to the cherry-picked ones everywhere they are mentioned.

usage: tools/apply_round.py <scratch-name> <findings-json|-> --commits sha... --files relpath...
"""
import json, subprocess, sys, shutil, os
name = sys.argv[1]; fj = sys.argv[2]
rest = sys.argv[3:]
commits = rest[rest.index("--commits") + 1: rest.index("--files")] if "--commits" in rest else []
files = rest[rest.index("--files") + 1:]
S = f"/tmp/agents/{name}/verif"
m = {}
for c in commits:
    p = subprocess.run(["git", "-C", "/repo", "cherry-pick", c], capture_output=True, text=True)
    if p.returncode != 0:
        print("CHERRY-PICK FAILED", c, p.stdout, p.stderr); sys.exit(1)
    new = subprocess.run(["git", "-C", "/repo", "rev-parse", "--short", "HEAD"], capture_output=True, text=True).stdout.strip()
    m[c[:7]] = new
    print("picked", c[:7], "->", new)
def remap(t):
    for a, b in m.items():
        t = t.replace(a, b)
    return t
for f in files:
    src = os.path.join(S, f); dst = os.path.join("/verif", f)
    os.makedirs(os.path.dirname(dst), exist_ok=True)
    t = open(src, encoding="utf-8").read()
    open(dst, "w", encoding="utf-8").write(remap(t) if f.endswith((".json", ".lean", ".md")) else t)
    print("copied", f)
if fj != "-":
    new = json.loads(remap(open(fj, encoding="utf-8").read()))
    if isinstance(new, dict): new = new.get("findings")
    k = json.load(open("/verif/known_findings.json"))
    ids = {n["id"] for n in new}
    k["findings"] = [f for f in k["findings"] if f["id"] not in ids] + new
    json.dump(k, open("/verif/known_findings.json", "w"), indent=1, ensure_ascii=False)
    print([(f["id"], f["status"], f.get("commit")) for f in new])
