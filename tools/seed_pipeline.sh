#!/bin/bash
# usage: tools/seed_pipeline.sh <src-dir with patch.diff demo.rs meta.json> <seed-id e.g. C19r2-1> <Cxx> <worker-id>
# 1. confirms the seed in the worker's scratch worktree (demo passes clean, fails with the change, suite passes with the change)
# 2. tries the worker's lab check (tools/lab.sh) against the patch
# result line appended to /verif/tmp/seedres.txt ; confirmed seeds are stored under /verif/seeded/<seed-id>/
set -u
SRC="$1"; SID="$2"; PID="$3"; WK="$4"
if [ -f /verif/seeded/$SID/meta.json ] && grep -q '"confirmed"' /verif/seeded/$SID/meta.json; then
  # already confirmed earlier: only (re-)try the check
  if [ -d /tmp/lab/w$WK/verif ]; then /verif/tools/lab.sh w$WK sync; else /verif/tools/lab.sh w$WK >/dev/null; fi
  # the original patch first, then rebased copies (newest first): the first one that applies to the lab's revision is tried
  for P in /verif/seeded/$SID/patch.diff $(ls -t /verif/seeded/$SID/patch_rebased_*.diff 2>/dev/null); do
    RES=$(env -u CARGO_TARGET_DIR /verif/tools/lab.sh w$WK try "$P" "$PID" | tr '\n' ' ' | sed 's/KNOWN-FINDING[^V\[]*//g' | cut -c1-1500)
    case "$RES" in *"patch does not apply"*) continue ;; esac
    break
  done
  echo "$SID retry ($(basename $P)) check: $RES" >> /verif/tmp/seedres.txt
  exit 0
fi
W=/tmp/seedcheck/wt$WK; export CARGO_TARGET_DIR=/tmp/seedcheck/target$WK CARGO_NET_OFFLINE=true
mkdir -p /tmp/seedcheck /verif/tmp
if [ ! -d "$W" ]; then git -C /repo worktree add --detach "$W" HEAD >/dev/null 2>&1; fi
cd "$W"; git checkout -q --detach "$(git -C /repo rev-parse HEAD)"; git checkout -q -- .; rm -f tests/seeded_demo.rs
git apply --check "$SRC/patch.diff" 2>/dev/null || { echo "$SID PATCH-DOES-NOT-APPLY" >> /verif/tmp/seedres.txt; exit 1; }
FEAT=$(python3 -c "import json,sys; print(','.join(json.load(open(sys.argv[1])).get('features','').replace(',',' ').split()))" "$SRC/meta.json" 2>/dev/null)
FARG=""; [ -n "$FEAT" ] && FARG="--features $FEAT"
cp "$SRC/demo.rs" tests/seeded_demo.rs
timeout 1200 cargo test --offline $FARG --test seeded_demo > /tmp/seedcheck/clean$WK.log 2>&1; CLEAN=$?
git apply "$SRC/patch.diff"
timeout 1200 cargo test --offline $FARG --test seeded_demo > /tmp/seedcheck/mut$WK.log 2>&1; MUT=$?
rm -f tests/seeded_demo.rs
timeout 2400 cargo nextest run --workspace --no-fail-fast --offline > /tmp/seedcheck/suite$WK.log 2>&1
SUITE=$(grep -E "Summary" /tmp/seedcheck/suite$WK.log | tail -1)
git checkout -q -- .
OK=no
if [ "$CLEAN" = 0 ] && [ "$MUT" != 0 ] && echo "$SUITE" | grep -q "1627 passed" && ! echo "$SUITE" | grep -q "failed"; then OK=yes; fi
if [ $OK = yes ]; then
  OUT=/verif/seeded/$SID; mkdir -p "$OUT"; cp "$SRC/patch.diff" "$SRC/demo.rs" "$OUT/"
  python3 - "$SRC/meta.json" "$OUT/meta.json" "$CLEAN" "$MUT" "$SUITE" <<'PY'
import json,sys
m=json.load(open(sys.argv[1]))
m['confirmed']={"base_commit_of_repo": "HEAD", "demo_on_clean_tree_exit": int(sys.argv[3]), "demo_with_change_exit": int(sys.argv[4]), "existing_suite_with_change": sys.argv[5].strip(),
  "commands": ["git apply patch.diff (scratch worktree of /repo)", "cp demo.rs tests/seeded_demo.rs; cargo test --offline [--features …] --test seeded_demo", "cargo nextest run --workspace --no-fail-fast --offline"]}
json.dump(m,open(sys.argv[2],'w'),indent=1)
PY
fi
RES="not-tried"
if [ $OK = yes ]; then
  if [ -d /tmp/lab/w$WK/verif ]; then /verif/tools/lab.sh w$WK sync; else /verif/tools/lab.sh w$WK >/dev/null; fi
  RES=$(env -u CARGO_TARGET_DIR /verif/tools/lab.sh w$WK try "$SRC/patch.diff" "$PID" | tr '\n' ' ' | sed 's/KNOWN-FINDING[^V\[]*//g' | cut -c1-1500)
fi
echo "$SID confirmed=$OK clean=$CLEAN mut=$MUT suite=[$SUITE] check: $RES" >> /verif/tmp/seedres.txt
