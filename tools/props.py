"""Per-property configuration of the check engine."""
PROPS = {
    "C06": {
        "lean_modules": ["SaphyrVerif.Props.C06", "SaphyrVerif.Props.C06_Tables"],
        "harness": [("c06", "gen")],
        "decisive": ["c06 "],
        "spec_ops": {"c06 int_s ": "c06 spec_int_s ", "c06 int_u ": "c06 spec_int_u "},
        "modelled": "parse_scalars.rs (integers all widths, YAML 1.1/strict booleans, null-likes, leading_zero_decimal), base64.rs",
        "not_modelled": "core::str::parse::<f32/f64> (external; contract: correctly rounded)",
        "assumptions": ["Rust `str::trim` = Unicode White_Space set written out in Basic/Text.lean (exercised by the whitespace-wrapped tokens)"],
    },
    "C07": {
        "lean_modules": ["SaphyrVerif.Props.C07", "SaphyrVerif.Props.C07_Tables"],
        "harness": [("c07", "gen"), ("pump", "gen")],
        "decisive": ["c07 run"],
        "modelled": "budget.rs BudgetEnforcer (observe, finalize, begin_document, container-state stack), per-document policy; live_events.rs budget integration incl. replayed events (pump model)",
        "not_modelled": "check_yaml_budget convenience wrapper; usize overflow of += 1 counters (needs 2^64 events)",
        "assumptions": ["parser contract: events are the flattening of document trees (theorems about trees); first_breach_kind holds for arbitrary event lists",
                        "physical bound: fewer than 2^64 events (makes the saturating depth increment exact)"],
    },
    "C02": {
        "lean_modules": ["SaphyrVerif.Props.C02"],
        "harness": [("pump", "gen")],
        "decisive": [],
        "modelled": "live_events.rs LiveEvents::next_impl (recording frames, finalisation, inject stack, alias limits, document reset, look-ahead, reference_location, stop_at_doc_end), tag classification table",
        "not_modelled": "name->id resolution of anchors (saphyr-parser; contract: fresh id per definition, alias id = most recent definition of that name); the scanner",
        "assumptions": ["parser contract: items of a document are the flattening of a located tree; ids are fresh per anchor definition"],
    },
}
