"""Per-property configuration of the check engine: one JSON file per property in tools/props.d/
(`config` = lean_modules, harness [[area, mode]…], decisive op prefixes, spec_ops, …; `claim` = the text
that goes to MANIFEST.json). Adding a property = adding a file; nothing else to edit."""
import glob, json, os

PROPS = {}
CLAIMS = {}
for _f in sorted(glob.glob(os.path.join(os.path.dirname(os.path.abspath(__file__)), "props.d", "C*.json"))):
    _d = json.load(open(_f))
    _k = os.path.basename(_f)[:-5]
    _c = _d["config"]
    _c["harness"] = [tuple(x) for x in _c.get("harness", [])]
    PROPS[_k] = _c
    CLAIMS[_k] = _d["claim"]
