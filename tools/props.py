"""Per-property configuration of the check engine."""
PROPS = {
    "C06": {
        "lean_modules": ["SaphyrVerif.Props.C06", "SaphyrVerif.Props.C06_Tables"],
        "harness": [("c06", "gen")],
        "decisive": ["c06 "],
        "spec_ops": {"c06 int_s ": "c06 spec_int_s ", "c06 int_u ": "c06 spec_int_u "},
        "modelled": "parse_scalars.rs (integers all widths, YAML 1.1/strict booleans, null-likes, leading_zero_decimal), base64.rs",
        "not_modelled": "core::str::parse::<f32/f64> (external; contract: correctly rounded)",
        "assumptions": ["Rust `str::trim` = Unicode White_Space set written out in Basic/Text.lean (exercised by the whitespace-wrapped tokens)"],
    },
}
