#!/usr/bin/env python3
"""Rewrite /repo/src/verif_hooks/mod.rs from the hook files present (cfg per module)."""
import os
D='/repo/src/verif_hooks'
CFG={'pathmap':'#[cfg(any(feature = "garde", feature = "validator"))]\n','robotics':'#[cfg(feature = "robotics")]\n'}
ORDER=['scalars','events']
# serq_ser.rs / serq_quoting.rs are child modules of ser / ser_quoting (included there by #[path])
mods=sorted(f[:-3] for f in os.listdir(D) if f.endswith('.rs') and f!='mod.rs' and f not in ('serq_ser.rs','serq_quoting.rs'))
mods=[m for m in ORDER if m in mods]+[m for m in mods if m not in ORDER]
head='''//! Verification hooks (cargo feature `verif_hooks`, off by default).
//!
//! Thin, add-only wrappers that expose crate-private functions and state to the external
//! verification harness. Nothing here changes behaviour; with the feature off this module
//! is not compiled.
#![allow(missing_docs, dead_code, clippy::all)]

'''
open(D+'/mod.rs','w').write(head+''.join(CFG.get(m,'')+f'pub mod {m};\n' for m in mods))
print(mods)
