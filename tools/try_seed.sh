#!/bin/sh
# usage: tools/try_seed.sh <patch.diff> <Cxx> [quick|thorough]  — apply a seeded change to /repo, run the check, undo
set -u
P="$1"; ID="$2"; TIER="${3:-quick}"
cd /verif
git -C /repo diff --quiet || { echo "repo not clean"; exit 3; }
git -C /repo apply "$P" 2>/dev/null || { git -C /repo apply -3 "$P" >/dev/null 2>&1 && git -C /repo reset -q; } || { git -C /repo checkout -- .; echo "patch does not apply"; exit 3; }
./check "$ID" "$TIER" > /verif/tmp/try_seed.log 2>&1
RC=$?
git -C /repo checkout -- .
grep -E "^VIOLATION|^KNOWN-FINDING|\[done\]" /verif/tmp/try_seed.log | cut -c1-220
echo "check exit=$RC"
