#!/usr/bin/env python3
"""Merge a builder's scratch deliverable into /verif and /repo.

usage: tools/merge_builder.py <scratch-name> <verif-base-commit> <repo-base-commit>

New files are copied; files that exist in the base commit are 3-way merged (git merge-file) so that
registration lines added by several builders combine. Prints what it did; conflicts are left with markers
and listed.
"""
import os, subprocess, sys, filecmp, shutil

name, vbase, rbase = sys.argv[1], sys.argv[2], sys.argv[3]
S = f"/tmp/agents/{name}"
SKIP_DIRS = {".lake", "target", "tmp", ".git", "replays", "evidence", "__pycache__"}
SKIP_FILES = {"Cargo.toml", "Cargo.lock", "lake-manifest.json", "MANIFEST.json"}


def walk(root):
    for d, dirs, files in os.walk(root):
        dirs[:] = [x for x in dirs if x not in SKIP_DIRS]
        for f in files:
            yield os.path.relpath(os.path.join(d, f), root)


def base_content(repo, commit, rel):
    p = subprocess.run(["git", "-C", repo, "show", f"{commit}:{rel}"], capture_output=True)
    return p.stdout if p.returncode == 0 else None


def merge_tree(scratch_root, dest_root, git_repo, commit, only_prefix=None):
    conflicts = []
    for rel in sorted(walk(scratch_root)):
        if os.path.basename(rel) in SKIP_FILES:
            continue
        if only_prefix and not rel.startswith(only_prefix):
            continue
        src = os.path.join(scratch_root, rel)
        dst = os.path.join(dest_root, rel)
        base = base_content(git_repo, commit, rel)
        theirs = open(src, "rb").read()
        if base is not None and base == theirs:
            continue  # builder did not touch it
        if not os.path.exists(dst):
            os.makedirs(os.path.dirname(dst), exist_ok=True)
            shutil.copy2(src, dst)
            print("new     ", rel)
            continue
        cur = open(dst, "rb").read()
        if cur == theirs:
            continue
        if base is None:
            # both sides created the file independently
            print("CONFLICT (both new)", rel)
            conflicts.append(rel)
            continue
        if cur == base:
            shutil.copy2(src, dst)
            print("updated ", rel)
            continue
        tmpb, tmpt = dst + ".base.tmp", dst + ".theirs.tmp"
        open(tmpb, "wb").write(base)
        open(tmpt, "wb").write(theirs)
        p = subprocess.run(["git", "merge-file", "-L", "current", "-L", "base", "-L", name, dst, tmpb, tmpt])
        os.remove(tmpb)
        os.remove(tmpt)
        if p.returncode == 0:
            print("merged  ", rel)
        else:
            print("CONFLICT", rel)
            conflicts.append(rel)
    return conflicts


c = merge_tree(os.path.join(S, "verif"), "/verif", "/verif", vbase)
c += merge_tree(os.path.join(S, "repo"), "/repo", "/repo", rbase, only_prefix="src/verif_hooks")
# anything the builder changed in the repo outside the hooks is reported, not merged
p = subprocess.run(["git", "-C", os.path.join(S, "repo"), "status", "--short"], capture_output=True, text=True)
others = [l for l in p.stdout.splitlines() if "src/verif_hooks" not in l]
if others:
    print("repo changes outside verif_hooks (NOT merged):")
    print("\n".join(others))
print("conflicts:", c)
